import StatimeModel.Lemmas.Slave
import StatimeModel.Lemmas.WireRoundtrip
/-
Bounded state (C03): every timestamp a port stores is far below the limits of the 128-bit time types, so the
measurement arithmetic on them cannot overflow.
-/
namespace Statime

/-- bound on stored timestamps: 2^112 units of 2^-32 ns -/
def BT : Nat := 5192296858534827628530496329220096
/-- bound on stored durations (raw offsets, mean delay): 2^113 -/
def BD : Int := 10384593717069655257060992658440192
/-- bound on the configured delay asymmetry: 2^110 -/
def BA : Int := 1298074214633706907132624082305024
/-- bound on timestamps handed in by the host: 2^63 ns = 2^95 units -/
def BH : Nat := 39614081257132168796771975168

example : BT = 2 ^ 112 ∧ BD = 2 ^ 113 ∧ BA = 2 ^ 110 ∧ BH = 2 ^ 95 := by decide

def absLt (x : Int) (b : Int) : Prop := -b < x ∧ x < b

theorem timeSub_bnd (a b : Nat) (ha : a < BT) (hb : b < BT) :
    timeSub a b = some ((a : Int) - b) ∧ absLt ((a : Int) - b) (BT : Int) := by
  unfold BT at *
  refine ⟨(C16aux a b (by unfold I127; omega) (by unfold I127; omega)), ?_⟩
  unfold absLt; omega
where
  C16aux (a b : Nat) (ha : a < I127) (hb : b < I127) : timeSub a b = some ((a : Int) - b) := by
    have ha' := ha
    have hb' := hb
    unfold I127 at ha' hb'
    have hn : inI128 (-(b : Int)) = true := by rw [inI128_iff]; omega
    have hs : inI128 ((a : Int) + -(b : Int)) = true := by rw [inI128_iff]; omega
    unfold timeSub durSub durNeg
    rw [if_pos ⟨ha, hb⟩, ite_some_of_true hn]
    dsimp only
    unfold durAdd
    rw [ite_some_of_true hs]
    congr 1

theorem durSub_bnd (a b : Int) (x y : Int) (ha : absLt a x) (hb : absLt b y)
    (hxy : x + y ≤ 170141183460469231731687303715884105728) (hx : 0 ≤ x) (hy : 0 ≤ y) :
    durSub a b = some (a - b) ∧ absLt (a - b) (x + y) := by
  unfold absLt at *
  have hn : inI128 (-b) = true := by rw [inI128_iff]; omega
  have hs : inI128 (a + -b) = true := by rw [inI128_iff]; omega
  refine ⟨?_, by omega⟩
  unfold durSub durNeg
  rw [ite_some_of_true hn]
  dsimp only
  unfold durAdd
  rw [ite_some_of_true hs]
  congr 1

theorem tdiv2_bnd (a : Int) (x : Int) (h : absLt a x) : absLt (Int.tdiv a 2) x := by
  unfold absLt at *
  rcases Int.le_total 0 a with h0 | h0
  · rw [Int.tdiv_eq_ediv_of_nonneg h0]; omega
  · have : Int.tdiv a 2 = -((-a) / 2) := by
      rw [← Int.tdiv_eq_ediv_of_nonneg (by omega : 0 ≤ -a), Int.neg_tdiv, Int.neg_neg]
    omega

theorem durHalf_bnd (a x : Int) (h : absLt a x) (hx : x ≤ 170141183460469231731687303715884105728) :
    ∃ r, durHalf a = some r ∧ absLt r x := by
  have e : Int.tdiv (a * (F32 : Int)) (2 * (F32 : Int)) = Int.tdiv a 2 := by
    unfold F32
    exact Int.mul_tdiv_mul_of_pos_left a 2 (by decide : (0 : Int) < ((4294967296 : Nat) : Int))
  have hb := tdiv2_bnd a x h
  refine ⟨Int.tdiv a 2, ?_, hb⟩
  unfold durHalf durDivFix
  rw [if_neg (by unfold F32; decide)]
  dsimp only
  rw [e]
  have : inI128 (Int.tdiv a 2) = true := by
    rw [inI128_iff]; unfold absLt at hb; omega
  rw [if_pos this]

/-- the three measurement formulas cannot overflow on bounded operands, and their results are bounded -/
theorem syncMeasurement_total (send recv : Nat) (asym : Int) (md : Option Int) (hs : send < BT) (hr : recv < BT)
    (ha : absLt asym BA) (hm : ∀ m, md = some m → absLt m BD) :
    ∃ r, syncMeasurement send recv asym md = some r ∧ absLt r.1 BD ∧ r.2.delay = none ∧ r.2.peerDelay = none := by
  obtain ⟨e1, b1⟩ := timeSub_bnd recv send hr hs
  obtain ⟨e2, b2⟩ := durSub_bnd ((recv : Int) - send) asym (BT : Int) BA b1 ha (by unfold BT BA; decide) (by unfold BT; decide) (by unfold BA; decide)
  have b2' : absLt ((recv : Int) - send - asym) BD := by
    unfold absLt BT BA BD at *; omega
  unfold syncMeasurement
  rw [e1, Option.bind_some, e2, Option.bind_some]
  cases md with
  | none => exact ⟨_, rfl, b2', rfl, rfl⟩
  | some m =>
    obtain ⟨e3, _⟩ := durSub_bnd ((recv : Int) - send - asym) m BD BD b2' (hm m rfl) (by unfold BD; decide) (by unfold BD; decide) (by unfold BD; decide)
    simp only
    rw [e3]
    exact ⟨_, rfl, b2', rfl, rfl⟩

theorem delayMeasurement_total (send recv : Nat) (asym : Int) (last : Option Int) (hs : send < BT) (hr : recv < BT)
    (ha : absLt asym BA) (hl : ∀ x, last = some x → absLt x BD) :
    ∃ m, delayMeasurement send recv asym last = some m ∧ (∀ d, m.delay = some d → absLt d BD) ∧ m.peerDelay = none := by
  obtain ⟨e1, b1⟩ := timeSub_bnd send recv hs hr
  obtain ⟨e2, b2⟩ := durSub_bnd ((send : Int) - recv) asym (BT : Int) BA b1 ha (by unfold BT BA; decide) (by unfold BT; decide) (by unfold BA; decide)
  have b2' : absLt ((send : Int) - recv - asym) BD := by
    unfold absLt BT BA BD at *; omega
  unfold delayMeasurement
  rw [e1, Option.bind_some, e2, Option.bind_some]
  cases last with
  | none => exact ⟨_, rfl, (by intro d hd; cases hd), rfl⟩
  | some rs =>
    obtain ⟨e3, b3⟩ := durSub_bnd rs ((send : Int) - recv - asym) BD BD (hl rs rfl) b2' (by unfold BD; decide) (by unfold BD; decide) (by unfold BD; decide)
    obtain ⟨h, e4, b4⟩ := durHalf_bnd (rs - ((send : Int) - recv - asym)) (BD + BD) b3 (by unfold BD; decide)
    simp only
    rw [e3, Option.bind_some, e4]
    refine ⟨_, rfl, ?_, rfl⟩
    intro d hd
    simp only [Option.map_some, Option.some.injEq] at hd
    rw [← hd]
    -- |h| = |x / 2| with |x| < 2·BD
    have hh : h = Int.tdiv (rs - ((send : Int) - recv - asym)) 2 := by
      have e : Int.tdiv ((rs - ((send : Int) - recv - asym)) * (F32 : Int)) (2 * (F32 : Int)) = Int.tdiv (rs - ((send : Int) - recv - asym)) 2 := by
        unfold F32
        exact Int.mul_tdiv_mul_of_pos_left _ 2 (by decide : (0 : Int) < ((4294967296 : Nat) : Int))
      unfold durHalf durDivFix at e4
      rw [if_neg (by unfold F32; decide)] at e4
      dsimp only at e4
      rw [e] at e4
      split at e4
      · exact (Option.some.inj e4).symm
      · cases e4
    rw [hh]
    unfold absLt BD at *
    rcases Int.le_total 0 (rs - ((send : Int) - recv - asym)) with h0 | h0
    · rw [Int.tdiv_eq_ediv_of_nonneg h0]; omega
    · have : Int.tdiv (rs - ((send : Int) - recv - asym)) 2 = -((-(rs - ((send : Int) - recv - asym))) / 2) := by
        rw [← Int.tdiv_eq_ediv_of_nonneg (by omega : 0 ≤ -(rs - ((send : Int) - recv - asym))), Int.neg_tdiv, Int.neg_neg]
      omega

theorem peerMeasurement_total (t1 t2 t3 t4 : Nat) (h1 : t1 < BT) (h2 : t2 < BT) (h3 : t3 < BT) (h4 : t4 < BT) :
    ∃ m, peerMeasurement t1 t2 t3 t4 = some m ∧ (∀ d, m.peerDelay = some d → absLt d BD) ∧ m.delay = none := by
  obtain ⟨e1, b1⟩ := timeSub_bnd t4 t1 h4 h1
  obtain ⟨e2, b2⟩ := timeSub_bnd t3 t2 h3 h2
  obtain ⟨e3, b3⟩ := durSub_bnd ((t4 : Int) - t1) ((t3 : Int) - t2) (BT : Int) (BT : Int) b1 b2 (by unfold BT; decide) (by unfold BT; decide) (by unfold BT; decide)
  have b3' : absLt ((t4 : Int) - t1 - ((t3 : Int) - t2)) BD := by unfold absLt BT BD at *; omega
  obtain ⟨h, e4, b4⟩ := durHalf_bnd _ BD b3' (by unfold BD; decide)
  unfold peerMeasurement
  rw [e1, Option.bind_some, e2, Option.bind_some, e3, Option.bind_some, e4]
  refine ⟨_, rfl, ?_, rfl⟩
  intro d hd
  simp only [Option.map_some, Option.some.injEq] at hd
  rw [← hd]; exact b4

/-- a decoded wire timestamp always converts -/
theorem wireToTime_total (w : WireTs) (hw : w.WF) : ∃ t, wireToTime w = some t ∧ t < 2596148429267413814265248164610048 := by
  unfold WireTs.WF at hw
  unfold wireToTime NS F32 U128
  have : (w.secs * 1000000000 + w.nanos) * 4294967296 < 340282366920938463463374607431768211456 := by omega
  exact ⟨_, by dsimp only; rw [if_pos this], by omega⟩

/-- applying a 64-bit correction to a bounded time never fails and stays bounded -/
theorem timeSubDur_total (t : Nat) (c : Int) (ht : t < 2596148429267413814265248164610048) (hc : inI64 c = true) :
    ∃ r, timeSubDur t (tivToDur c) = some r ∧ r < BT := by
  rw [inI64_iff] at hc
  have hn : inI128 (-(tivToDur c)) = true := by rw [inI128_iff]; unfold tivToDur F16; omega
  unfold timeSubDur durNeg
  rw [ite_some_of_true hn]
  dsimp only
  by_cases hneg : (t : Int) + -(tivToDur c) < 0
  · rw [timeAddDur_neg _ _ hneg]; exact ⟨0, rfl, by unfold BT; decide⟩
  · rw [timeAddDur_nonneg _ _ (by omega)]
    have hu : inU128 ((t : Int) + -(tivToDur c)) = true := by rw [inU128_iff]; unfold tivToDur F16 at *; omega
    rw [if_pos hu]
    refine ⟨_, rfl, ?_⟩
    unfold BT tivToDur F16 at *; omega

theorem timeAddDur_total (t : Nat) (c : Int) (ht : t < 2596148429267413814265248164610048) (hc : inI64 c = true) :
    ∃ r, timeAddDur t (tivToDur c) = some r ∧ r < BT := by
  rw [inI64_iff] at hc
  by_cases hneg : (t : Int) + tivToDur c < 0
  · rw [timeAddDur_neg _ _ hneg]; exact ⟨0, rfl, by unfold BT; decide⟩
  · rw [timeAddDur_nonneg _ _ (by omega)]
    have hu : inU128 ((t : Int) + tivToDur c) = true := by rw [inU128_iff]; unfold tivToDur F16 at *; omega
    rw [if_pos hu]
    refine ⟨_, rfl, ?_⟩
    unfold BT tivToDur F16 at *; omega

theorem orOv_some {α β : Type} (a : α) (f : α → R β) : orOv (some a) f = f a := rfl

/-! ### the bounded-state invariant of a port -/

def optLt (o : Option Nat) (b : Nat) : Prop := ∀ x, o = some x → x < b

theorem optLt_none (b : Nat) : optLt none b := by intro x h; cases h
theorem optLt_some (x b : Nat) (h : x < b) : optLt (some x) b := by intro y hy; cases hy; exact h

def SyBnd : SyncSt → Prop
  | .empty => True
  | .measuring _ s r => optLt s BT ∧ optLt r BT

def DlBnd : DelaySt → Prop
  | .empty => True
  | .measuring _ s r => optLt s BT ∧ optLt r BT

def PeerBnd : PeerSt → Prop
  | .measuring _ _ a b c d => optLt a BT ∧ optLt b BT ∧ optLt c BT ∧ optLt d BT
  | _ => True

def StBnd : PState → Prop
  | .slave _ sy dl last => SyBnd sy ∧ DlBnd dl ∧ (∀ x, last = some x → absLt x BD)
  | _ => True

/-- every timestamp and duration the port has stored is bounded -/
def Bnd (p : Port) : Prop :=
  StBnd p.st ∧ PeerBnd p.peer ∧ (∀ m, p.meanDelay = some m → absLt m BD) ∧ absLt p.cfg.delayAsymmetry BA

/-- the call returns normally and leaves the port bounded -/
def Good (x : R (Port × List Out)) : Prop := ∃ p' o, x = .ok (p', o) ∧ Bnd p'

theorem good_ok (p : Port) (o : List Out) (h : Bnd p) : Good (.ok (p, o)) := ⟨p, o, rfl, h⟩

theorem bnd_setState (p : Port) (st : PState) (h : Bnd p) (hs : StBnd st) : Bnd (p.setState st).1 :=
  ⟨hs, h.2.1, h.2.2.1, h.2.2.2⟩

theorem bnd_withSlave (p : Port) (remote : PortId) (sy : SyncSt) (dl : DelaySt) (last : Option Int) (h : Bnd p)
    (h1 : SyBnd sy) (h2 : DlBnd dl) (h3 : ∀ x, last = some x → absLt x BD) : Bnd (p.withSlave remote sy dl last) :=
  ⟨⟨h1, h2, h3⟩, h.2.1, h.2.2.1, h.2.2.2⟩

theorem bnd_withPeer (p : Port) (ps : PeerSt) (h : Bnd p) (hp : PeerBnd ps) : Bnd ({ p with peer := ps } : Port) :=
  ⟨h.1, hp, h.2.2.1, h.2.2.2⟩

theorem extract_good (p : Port) (h : Bnd p) :
    ∃ p' m o, p.extract = .ok (p', m, o) ∧ Bnd p' ∧ ∀ mm, m = some mm → ∀ d, filterMeanDelay mm = some d → absLt d BD := by
  obtain ⟨hst, hpeer, hmd, hasym⟩ := h
  unfold Port.extract
  split
  · rename_i id resp t1 t2 t3 t4 hp
    rw [hp] at hpeer
    obtain ⟨b1, b2, b3, b4⟩ := hpeer
    obtain ⟨m, hm, hd, hnd⟩ := peerMeasurement_total t1 t2 t3 t4 (b1 t1 rfl) (b2 t2 rfl) (b3 t3 rfl) (b4 t4 rfl)
    rw [hm, orOv_some]
    have hfm : ∀ d, filterMeanDelay m = some d → absLt d BD := by
      intro d hdd
      unfold filterMeanDelay at hdd
      rw [hnd] at hdd
      exact hd d (by simpa using hdd)
    split
    · refine ⟨_, _, _, rfl, ?_, ?_⟩
      · exact ⟨trivial, trivial, hmd, hasym⟩
      · intro mm e; cases e; exact hfm
    · refine ⟨_, _, _, rfl, ?_, ?_⟩
      · exact ⟨hst, trivial, hmd, hasym⟩
      · intro mm e; cases e; exact hfm
  · unfold Port.extractSlave
    cases hs : p.st with
    | slave remote sy dl last =>
      rw [hs] at hst
      obtain ⟨hsy, hdl, hlast⟩ := hst
      simp only
      split
      · rename_i id send recv
        obtain ⟨rm, hrm, hb, hn1, hn2⟩ := syncMeasurement_total send recv p.cfg.delayAsymmetry p.meanDelay
          (hsy.1 send rfl) (hsy.2 recv rfl) hasym hmd
        rw [hrm, orOv_some]
        refine ⟨_, _, _, rfl, ?_, ?_⟩
        · exact ⟨⟨trivial, hdl, by intro x e; cases e; exact hb⟩, by assumption, hmd, hasym⟩
        · intro mm e; cases e
          intro d hdd
          unfold filterMeanDelay at hdd
          rw [hn1, hn2] at hdd; cases hdd
      · split
        · rename_i id send recv
          obtain ⟨m, hm, hd, hnp⟩ := delayMeasurement_total send recv p.cfg.delayAsymmetry last
            (hdl.1 send rfl) (hdl.2 recv rfl) hasym hlast
          rw [hm, orOv_some]
          refine ⟨_, _, _, rfl, ?_, ?_⟩
          · exact ⟨⟨hsy, trivial, hlast⟩, by assumption, hmd, hasym⟩
          · intro mm e; cases e
            intro d hdd
            unfold filterMeanDelay at hdd
            rw [hnp] at hdd
            cases hdm : m.delay with
            | none => rw [hdm] at hdd; cases hdd
            | some dd => rw [hdm] at hdd; cases hdd; exact hd _ hdm
        · refine ⟨_, _, _, rfl, ?_, ?_⟩
          · exact ⟨by rw [hs]; exact ⟨hsy, hdl, hlast⟩, by assumption, hmd, hasym⟩
          · intro mm e; cases e
    | faulty | listening | master | passive =>
      simp only
      refine ⟨_, _, _, rfl, ?_, ?_⟩
      · exact ⟨by rw [hs]; trivial, by assumption, hmd, hasym⟩
      · intro mm e; cases e

theorem timeMeasurement_good (p : Port) (h : Bnd p) : Good p.timeMeasurement := by
  obtain ⟨p1, m, o, he, hb, hm⟩ := extract_good p h
  unfold Port.timeMeasurement
  rw [he]
  cases m with
  | none => exact good_ok _ _ hb
  | some mm =>
    simp only [bind, Except.bind]
    cases hf : filterMeanDelay mm with
    | none => exact ⟨_, _, rfl, hb⟩
    | some md => exact ⟨_, _, rfl, hb.1, hb.2.1, by intro x e; cases e; exact hm mm rfl md hf, hb.2.2.2⟩

/-! ### the slave-side handlers on bounded state and bounded inputs -/


theorem bh_lt_bt (ts : Nat) (h : ts < BH) : ts < BT := by unfold BH at h; unfold BT; omega
theorem bh_lt_w (ts : Nat) (h : ts < BH) : ts < 2596148429267413814265248164610048 := by unfold BH at h; omega

theorem handleSync_good (p : Port) (h : Header) (o : WireTs) (ts : Nat) (hb : Bnd p) (hts : ts < BH)
    (ho : o.WF) (hc : inI64 h.correction = true) : Good (p.handleSync h o ts) := by
  unfold Port.handleSync
  cases hst : p.st with
  | slave remote sy dl last =>
    have hsb := hb.1
    rw [hst] at hsb
    obtain ⟨hsy, hdl, hlast⟩ := hsb
    simp only
    split
    · exact good_ok _ _ hb
    · obtain ⟨c, hcc, hcb⟩ := timeSubDur_total ts h.correction (bh_lt_w ts hts) hc
      rw [hcc, orOv_some]
      unfold Port.syncStore
      obtain ⟨s0, hs0, hsb0⟩ := wireToTime_total o ho
      have hs0b : s0 < BT := by unfold BT; omega
      split
      · split
        · rename_i id send recv
          split
          · split
            · exact good_ok _ _ hb
            · exact timeMeasurement_good _ (bnd_withSlave p _ _ _ _ hb ⟨hsy.1, optLt_some _ _ hcb⟩ hdl hlast)
          · exact good_ok _ _ (bnd_withSlave p _ _ _ _ hb ⟨optLt_none _, optLt_some _ _ hcb⟩ hdl hlast)
        · exact good_ok _ _ (bnd_withSlave p _ _ _ _ hb ⟨optLt_none _, optLt_some _ _ hcb⟩ hdl hlast)
      · split
        · split
          · exact good_ok _ _ hb
          · rw [hs0, orOv_some]
            exact timeMeasurement_good _ (bnd_withSlave p _ _ _ _ hb ⟨optLt_some _ _ hs0b, optLt_some _ _ hcb⟩ hdl hlast)
        · rw [hs0, orOv_some]
          exact timeMeasurement_good _ (bnd_withSlave p _ _ _ _ hb ⟨optLt_some _ _ hs0b, optLt_some _ _ hcb⟩ hdl hlast)
  | faulty | listening | master | passive => exact good_ok _ _ hb

theorem handleFollowUp_good (p : Port) (h : Header) (o : WireTs) (hb : Bnd p) (ho : o.WF)
    (hc : inI64 h.correction = true) : Good (p.handleFollowUp h o) := by
  unfold Port.handleFollowUp
  cases hst : p.st with
  | slave remote sy dl last =>
    have hsb := hb.1
    rw [hst] at hsb
    obtain ⟨hsy, hdl, hlast⟩ := hsb
    simp only
    split
    · exact good_ok _ _ hb
    · obtain ⟨t0, ht0, ht0b⟩ := wireToTime_total o ho
      obtain ⟨s, hs, hsb'⟩ := timeAddDur_total t0 h.correction ht0b hc
      rw [ht0, orOv_some, hs, orOv_some]
      unfold Port.followUpStore
      split
      · rename_i id s0 recv
        split
        · split
          · exact good_ok _ _ hb
          · exact timeMeasurement_good _ (bnd_withSlave p _ _ _ _ hb ⟨optLt_some _ _ hsb', hsy.2⟩ hdl hlast)
        · exact timeMeasurement_good _ (bnd_withSlave p _ _ _ _ hb ⟨optLt_some _ _ hsb', optLt_none _⟩ hdl hlast)
      · exact timeMeasurement_good _ (bnd_withSlave p _ _ _ _ hb ⟨optLt_some _ _ hsb', optLt_none _⟩ hdl hlast)
  | faulty | listening | master | passive => exact good_ok _ _ hb

theorem handleDelayResp_good (p : Port) (h : Header) (rx : WireTs) (req : PortId) (hb : Bnd p) (ho : rx.WF)
    (hc : inI64 h.correction = true) : Good (p.handleDelayResp h rx req) := by
  unfold Port.handleDelayResp
  cases hst : p.st with
  | slave remote sy dl last =>
    have hsb := hb.1
    rw [hst] at hsb
    obtain ⟨hsy, hdl, hlast⟩ := hsb
    simp only
    split
    · exact good_ok _ _ hb
    · split
      · rename_i id send recv
        split
        · split
          · exact good_ok _ _ hb
          · obtain ⟨t0, ht0, ht0b⟩ := wireToTime_total rx ho
            obtain ⟨r, hr, hrb⟩ := timeSubDur_total t0 h.correction ht0b hc
            rw [ht0, orOv_some, hr, orOv_some]
            exact timeMeasurement_good _ (bnd_withSlave p _ _ _ _ hb hsy ⟨hdl.1, optLt_some _ _ hrb⟩ hlast)
        · exact good_ok _ _ hb
      · exact good_ok _ _ hb
  | faulty | listening | master | passive => exact good_ok _ _ hb

theorem handleDelayTs_good (p : Port) (id ts : Nat) (hb : Bnd p) (hts : ts < BH) : Good (p.handleDelayTs id ts) := by
  unfold Port.handleDelayTs
  split
  · rename_i remote sy i send recv last hst
    have hsb := hb.1
    rw [hst] at hsb
    obtain ⟨hsy, hdl, hlast⟩ := hsb
    split
    · split
      · exact good_ok _ _ hb
      · exact timeMeasurement_good _ (bnd_withSlave p _ _ _ _ hb hsy ⟨optLt_some _ _ (bh_lt_bt ts hts), hdl.2⟩ hlast)
    · exact good_ok _ _ hb
  · exact good_ok _ _ hb

theorem handlePdelayTs_good (p : Port) (id ts : Nat) (hb : Bnd p) (hts : ts < BH) : Good (p.handlePdelayTs id ts) := by
  unfold Port.handlePdelayTs
  split
  · rename_i i resp a b c d hp
    have hpb := hb.2.1
    rw [hp] at hpb
    split
    · split
      · exact good_ok _ _ hb
      · exact timeMeasurement_good _ (bnd_withPeer p _ hb ⟨optLt_some _ _ (bh_lt_bt ts hts), hpb.2.1, hpb.2.2.1, hpb.2.2.2⟩)
    · exact good_ok _ _ hb
  · exact good_ok _ _ hb

theorem handlePdelayResp_good (p : Port) (h : Header) (rx : WireTs) (req : PortId) (ts : Nat) (hb : Bnd p)
    (hts : ts < BH) (ho : rx.WF) (hc : inI64 h.correction = true) : Good (p.handlePdelayResp h rx req ts) := by
  unfold Port.handlePdelayResp
  split
  · exact good_ok _ _ hb
  · split
    · exact good_ok _ _ hb
    · exact ⟨_, _, rfl, bnd_setState p .faulty hb trivial⟩
    · split
      · rename_i i resp a b c d hp
        have hpb := hb.2.1
        rw [hp] at hpb
        split
        · exact good_ok _ _ hb
        · obtain ⟨rr, hrr, hrrb⟩ := timeSubDur_total ts h.correction (bh_lt_w ts hts) hc
          obtain ⟨rq, hrq, hrqb⟩ := wireToTime_total rx ho
          have hrqb' : rq < BT := by unfold BT; omega
          rw [hrr, orOv_some, hrq, orOv_some]
          apply timeMeasurement_good
          refine bnd_withPeer p _ hb ⟨hpb.1, optLt_some _ _ hrqb', ?_, optLt_some _ _ hrrb⟩
          split
          · exact optLt_some _ _ hrqb'
          · exact hpb.2.2.1
      · exact good_ok _ _ hb

theorem handlePdelayRespFu_good (p : Port) (h : Header) (o : WireTs) (req : PortId) (hb : Bnd p)
    (ho : o.WF) (hc : inI64 h.correction = true) : Good (p.handlePdelayRespFu h o req) := by
  unfold Port.handlePdelayRespFu
  split
  · exact good_ok _ _ hb
  · split
    · exact good_ok _ _ hb
    · exact ⟨_, _, rfl, bnd_setState p .faulty hb trivial⟩
    · split
      · rename_i i resp a b c d hp
        have hpb := hb.2.1
        rw [hp] at hpb
        split
        · exact good_ok _ _ hb
        · obtain ⟨t0, ht0, ht0b⟩ := wireToTime_total o ho
          obtain ⟨s, hs, hsb⟩ := timeAddDur_total t0 h.correction ht0b hc
          rw [ht0, orOv_some, hs, orOv_some]
          exact timeMeasurement_good _ (bnd_withPeer p _ hb ⟨hpb.1, hpb.2.1, optLt_some _ _ hsb, hpb.2.2.2⟩)
      · exact good_ok _ _ hb

end Statime
