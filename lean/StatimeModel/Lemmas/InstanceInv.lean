import StatimeModel.Lemmas.Roles
import StatimeModel.Lemmas.Fml
import StatimeModel.Model.Instance
/-
Instance-level lemmas: what the BMCA loops of `PtpInstanceState::bmca` preserve (C08, C01).
-/
namespace Statime

theorem applyParent_dflt (s s1 : InstState) (a : Ann) (h : s.applyParent a = .ok s1) :
    s1.dflt = s.dflt ∧ s1.pathEnable = s.pathEnable := by
  unfold InstState.applyParent at h
  simp only [Except.ok.injEq] at h; rw [← h]; exact ⟨rfl, rfl⟩

theorem applyParentS1_dflt (s s1 : InstState) (a : Ann) (h : s.applyParentS1 a = .ok s1) :
    s1.dflt = s.dflt ∧ s1.pathEnable = s.pathEnable := by
  unfold InstState.applyParentS1 at h
  split at h
  · cases h
  · simp only [Except.ok.injEq] at h; rw [← h]; exact ⟨rfl, rfl⟩

/-- the state after a BMCA decision: as before, or not Slave, or Slave with nothing measured yet -/
def FreshOrSame (st st' : PState) : Prop :=
  st' = st ∨ st'.isSlave = false ∨ ∃ r, st' = .slave r .empty .empty none

theorem portMove_fresh (p : Port) (r : Recommended) (d : DefaultDS) (st : PState) (pd : Option (List Out))
    (h : portMove p r d = some (st, pd)) : FreshOrSame p.st st := by
  cases r <;> cases hst : p.st <;> cases hso : d.slaveOnly <;> cases hmp : p.multiportDisable <;>
    simp [portMove, hst, hso, hmp] at h <;>
    (try (obtain ⟨rfl, rfl⟩ := h)) <;>
    (try (obtain ⟨_, rfl, rfl⟩ := h)) <;>
    first
    | exact Or.inr (Or.inl rfl)
    | exact Or.inr (Or.inr ⟨_, rfl⟩)

/-- only S1 makes a port Slave; only an M decision on a non-slave-only instance makes it Master -/
theorem portMove_spec (p : Port) (r : Recommended) (d : DefaultDS) (st : PState) (pd : Option (List Out))
    (h : portMove p r d = some (st, pd)) :
    (st.isSlave = true → ∃ a, r = .s1 a) ∧ (st = .master → d.slaveOnly = false ∧ r.isS1 = false) ∧
    (∀ l, pd = some l → ∀ o ∈ l, o.plain) ∧ p.st ≠ .faulty := by
  cases r <;> cases hst : p.st <;> cases hso : d.slaveOnly <;> cases hmp : p.multiportDisable <;>
    simp [portMove, hst, hso, hmp] at h <;>
    (try (obtain ⟨rfl, rfl⟩ := h)) <;>
    (try (obtain ⟨_, rfl, rfl⟩ := h)) <;>
    simp_all [PState.isSlave, Recommended.isS1, Out.plain]

theorem portMove_none_spec (p : Port) (r : Recommended) (d : DefaultDS) (h : portMove p r d = none)
    (hso : d.slaveOnly = true) : p.st ≠ .master := by
  cases r <;> cases hst : p.st <;> cases hmp : p.multiportDisable <;>
    simp [portMove, hst, hso, hmp] at h <;> simp_all

theorem portMove_none_slave (p : Port) (r : Recommended) (d : DefaultDS) (h : portMove p r d = none)
    (hs : p.st.isSlave = true) : ∃ a, r = .s1 a := by
  cases r <;> cases hst : p.st <;> cases hso : d.slaveOnly <;> cases hmp : p.multiportDisable <;>
    simp [portMove, hst, hso, hmp] at h <;> simp_all [PState.isSlave]

/-- `set_recommended_port_state` -/
theorem setRecommendedPortState_spec (p p1 : Port) (r : Recommended) (d : DefaultDS) (e : List Out) (pd : Option (List Out))
    (h : p.setRecommendedPortState r d = .ok (p1, e, pd)) :
    p1.id = p.id ∧ p1.cfg = p.cfg ∧ p1.fml = p.fml ∧ p1.multiportDisable = p.multiportDisable ∧
    (p1.st.isSlave = true → ∃ a, r = .s1 a) ∧
    (p1.st = .master → p.st = .master ∨ (d.slaveOnly = false ∧ r.isS1 = false)) ∧
    (∀ o ∈ e, o.plain) ∧ (∀ l, pd = some l → ∀ o ∈ l, o.plain) ∧
    (p.st = .faulty → p1.st = .faulty) ∧ (r.isS1 = true → p.cfg.masterOnly = false) ∧
    (d.slaveOnly = true → p1.st ≠ .master) ∧ p1.inert = p.inert := by
  unfold Port.setRecommendedPortState at h
  split at h
  · cases h
  · rename_i hmo
    have hmo' : r.isS1 = true → p.cfg.masterOnly = false := by
      intro hr
      cases hb : p.cfg.masterOnly
      · rfl
      · exact absurd ⟨hr, hb⟩ hmo
    cases hm : portMove p r d with
    | none =>
      rw [hm] at h
      simp only [Except.ok.injEq, Prod.mk.injEq] at h
      obtain ⟨e1, e2, e3⟩ := h
      subst e1 e2 e3
      exact ⟨rfl, rfl, rfl, rfl, (fun hs => portMove_none_slave p r d hm hs), (by intro hh; exact Or.inl hh),
        (by intro o ho; cases ho), (by intro l hl; cases hl), (fun hh => hh), hmo', portMove_none_spec p r d hm, rfl⟩
    | some v =>
      obtain ⟨st, pd'⟩ := v
      rw [hm] at h
      simp only [Except.ok.injEq, Prod.mk.injEq] at h
      obtain ⟨e1, e2, e3⟩ := h
      subst e1 e2 e3
      obtain ⟨a1, a2, a3, a4⟩ := portMove_spec p r d st pd' hm
      exact ⟨rfl, rfl, rfl, rfl, (by intro hs; exact a1 hs), (by intro hh; exact Or.inr (a2 hh)),
        setState_plain _ _, a3, (by intro hf; exact absurd hf a4), hmo',
        (by intro hso hmm; have := (a2 hmm).1; rw [hso] at this; cases this), rfl⟩

theorem setRecommendedState_spec (p p1 : Port) (r : Recommended) (s s1 : InstState) (e : List Out) (pd : Option (List Out))
    (h : p.setRecommendedState r s = .ok (p1, s1, e, pd)) :
    p1.id = p.id ∧ p1.cfg = p.cfg ∧ p1.fml = p.fml ∧ p1.multiportDisable = p.multiportDisable ∧ s1.dflt = s.dflt ∧
    (p1.st.isSlave = true → ∃ a, r = .s1 a) ∧
    (p1.st = .master → p.st = .master ∨ (s.dflt.slaveOnly = false ∧ r.isS1 = false)) ∧
    (∀ o ∈ e, o.plain) ∧ (∀ l, pd = some l → ∀ o ∈ l, o.plain) ∧
    (p.st = .faulty → p1.st = .faulty) ∧ (r.isS1 = true → p.cfg.masterOnly = false) ∧
    (s.dflt.slaveOnly = true → p1.st ≠ .master) ∧ p1.inert = p.inert := by
  unfold Port.setRecommendedState at h
  simp only [bind, Except.bind] at h
  cases hps : p.setRecommendedPortState r s.dflt with
  | error er => rw [hps] at h; cases h
  | ok v =>
    obtain ⟨pp, ev, pend⟩ := v
    rw [hps] at h
    simp only at h
    obtain ⟨b1, b2, b3, b4, b5, b6, b7, b8, b9, b10, b11, b12⟩ := setRecommendedPortState_spec p pp r s.dflt ev pend hps
    cases r with
    | m1 dd | m2 dd =>
      simp only [Except.ok.injEq, Prod.mk.injEq] at h
      obtain ⟨e1, e2, e3, e4⟩ := h
      subst e1 e2 e3 e4
      exact ⟨b1, b2, b3, b4, rfl, b5, b6, b7, b8, b9, b10, b11, b12⟩
    | m3 aa | p1 aa | p2 aa =>
      simp only [Except.ok.injEq, Prod.mk.injEq] at h
      obtain ⟨e1, e2, e3, e4⟩ := h
      subst e1 e2 e3 e4
      exact ⟨b1, b2, b3, b4, rfl, b5, b6, b7, b8, b9, b10, b11, b12⟩
    | s1 a =>
      simp only at h
      cases hap : s.applyParentS1 a with
      | error er => rw [hap] at h; cases h
      | ok s2 =>
        rw [hap] at h
        simp only [Except.ok.injEq, Prod.mk.injEq] at h
        obtain ⟨e1, e2, e3, e4⟩ := h
        subst e1 e2 e3 e4
        refine ⟨b1, b2, b3, b4, (applyParentS1_dflt s s2 a hap).1, b5, b6, ?_, b8, b9, b10, b11, b12⟩
        intro o ho
        rcases List.mem_append.1 ho with hh | hh
        · exact b7 o hh
        · simp only [List.mem_singleton] at hh; subst hh; trivial

end Statime

namespace Statime

/-- everything about a port that the BMCA bookkeeping loops leave alone -/
def SameRole (p p' : Port) : Prop :=
  p'.id = p.id ∧ p'.cfg = p.cfg ∧ p'.st = p.st ∧ p'.fml.own = p.fml.own ∧ p'.inert = p.inert

theorem sameRole_refl (p : Port) : SameRole p p := ⟨rfl, rfl, rfl, rfl, rfl⟩
theorem sameRole_trans {a b c : Port} (h1 : SameRole a b) (h2 : SameRole b c) : SameRole a c :=
  ⟨h2.1.trans h1.1, h2.2.1.trans h1.2.1, h2.2.2.1.trans h1.2.2.1, h2.2.2.2.1.trans h1.2.2.2.1,
   h2.2.2.2.2.trans h1.2.2.2.2⟩

theorem portAt_some {ports : List Port} {k : Nat} {p : Port} (h : portAt ports k = some p) :
    1 ≤ k ∧ k - 1 < ports.length ∧ ports[k - 1]? = some p := by
  unfold portAt at h
  split at h
  · cases h
  · rename_i hk
    refine ⟨by omega, ?_, h⟩
    by_cases hl : k - 1 < ports.length
    · exact hl
    · rw [List.getElem?_eq_none (Nat.le_of_not_lt hl)] at h; cases h

theorem portAt_succ (ports : List Port) (j : Nat) : portAt ports (j + 1) = ports[j]? := by
  simp [portAt]

theorem getElem?_setPort (ports : List Port) (k : Nat) (p : Port) (j : Nat) (hk : 1 ≤ k) (hl : k - 1 < ports.length) :
    (setPort ports k p)[j]? = if j + 1 = k then some p else ports[j]? := by
  unfold setPort
  by_cases h : j + 1 = k
  · have : j = k - 1 := by omega
    subst this
    simp [h, hl]
  · have : k - 1 ≠ j := by omega
    simp [h, List.getElem?_set_ne this]

theorem takeBest_own (l : FML) (acc : Option (List Nat)) : (takeBest l acc).1.own = l.own := by
  unfold takeBest
  cases hq : l.takeQualified with
  | mk l1 qs =>
    have h1 : l1.own = l.own := by have := (takeQualified_own l).1; rw [hq] at this; exact this
    simp only
    split
    · exact h1
    · split
      · rw [(register_own _ _ _).1]; exact h1
      · exact h1

/-- phase 1: only the foreign master lists change; every recorded Erbest belongs to the port it is recorded for -/
theorem bmcaTakeBest_spec : ∀ (order : List Nat) (ports : List Port) (acc : List (Nat × Option Best)),
    (bmcaTakeBest order ports acc).1.length = ports.length ∧
    (∀ (j : Nat) (p : Port), ports[j]? = some p → ∃ p', (bmcaTakeBest order ports acc).1[j]? = some p' ∧ SameRole p p') ∧
    (∀ (k : Nat) (ob : Option Best), (k, ob) ∈ (bmcaTakeBest order ports acc).2 → (k, ob) ∈ acc ∨
      ∃ p, portAt ports k = some p ∧ ∀ b, ob = some b → b.identity = p.fml.own) := by
  intro order
  induction order with
  | nil =>
    intro ports acc
    exact ⟨rfl, fun j p h => ⟨p, h, sameRole_refl p⟩, fun k ob h => Or.inl h⟩
  | cons k rest ih =>
    intro ports acc
    simp only [bmcaTakeBest]
    cases hk : portAt ports k with
    | none => simp only; exact ih ports acc
    | some p =>
      simp only
      obtain ⟨k1, hkl, hkg⟩ := portAt_some hk
      obtain ⟨i1, i2, i3⟩ := ih (setPort ports k { p with fml := (takeBest p.fml p.cfg.acceptable).1 })
        (acc ++ [(k, (takeBest p.fml p.cfg.acceptable).2)])
      have hlen : (setPort ports k { p with fml := (takeBest p.fml p.cfg.acceptable).1 }).length = ports.length := by
        simp [setPort]
      refine ⟨i1.trans hlen, ?_, ?_⟩
      · intro j q hq
        have hg := getElem?_setPort ports k { p with fml := (takeBest p.fml p.cfg.acceptable).1 } j k1 hkl
        by_cases hj : j + 1 = k
        · rw [if_pos hj] at hg
          have hjj : j = k - 1 := by omega
          rw [hjj, hkg] at hq; cases hq
          obtain ⟨p', hp', hs⟩ := i2 j _ hg
          exact ⟨p', hp', sameRole_trans (show SameRole p { p with fml := (takeBest p.fml p.cfg.acceptable).1 } from
            ⟨rfl, rfl, rfl, takeBest_own _ _, rfl⟩) hs⟩
        · rw [if_neg hj] at hg
          exact i2 j q (by rw [hg]; exact hq)
      · intro k' ob hmem
        rcases i3 k' ob hmem with h | ⟨q, hq, hb⟩
        · rcases List.mem_append.1 h with h1 | h1
          · exact Or.inl h1
          · simp only [List.mem_singleton, Prod.mk.injEq] at h1
            obtain ⟨rfl, rfl⟩ := h1
            right
            exact ⟨p, hk, fun b hb => (takeBest_spec p.fml p.cfg.acceptable b hb).1⟩
        · right
          obtain ⟨q1, ql, qg⟩ := portAt_some hq
          have hg := getElem?_setPort ports k { p with fml := (takeBest p.fml p.cfg.acceptable).1 } (k' - 1) k1 hkl
          by_cases hj : k' - 1 + 1 = k
          · rw [if_pos hj] at hg
            rw [hg] at qg; cases qg
            have : k' = k := by omega
            subst this
            exact ⟨p, hk, fun b hb' => by rw [hb b hb']; exact takeBest_own _ _⟩
          · rw [if_neg hj] at hg
            refine ⟨q, ?_, hb⟩
            unfold portAt
            rw [if_neg (by omega), ← hg]; exact qg

theorem lookup_mem {α} (l : List (Nat × α)) (k : Nat) (v : α) (h : l.lookup k = some v) : (k, v) ∈ l := by
  induction l with
  | nil => simp [List.lookup] at h
  | cons x xs ih =>
    obtain ⟨a, b⟩ := x
    simp only [List.lookup] at h
    by_cases e : k = a
    · subst e
      simp only [beq_self_eq_true] at h
      cases h
      exact List.mem_cons_self
    · have : (k == a) = false := by simp [e]
      rw [this] at h
      exact List.mem_cons_of_mem _ (ih h)

/-- what phase 2 guarantees for every port, in terms of the port as it was before the phase -/
def AppliedTo (dflt : DefaultDS) (ebest : Option Best) (lbs : List (Nat × Option Best)) (order : List Nat)
    (j : Nat) (p p' : Port) : Prop :=
  p'.id = p.id ∧ p'.cfg = p.cfg ∧ p'.fml = p.fml ∧
  (p'.st.isSlave = true →
    (j + 1 ∈ order ∧ ∃ a, recommend dflt ebest ((lbs.lookup (j + 1)).getD none) (decide (p.st = .listening)) = some (.s1 a) ∧
        p.cfg.masterOnly = false)
    ∨ (j + 1 ∉ order ∧ p'.st = p.st)) ∧
  (p'.st = .master → p.st = .master ∨ dflt.slaveOnly = false) ∧
  (j + 1 ∈ order → dflt.slaveOnly = true → p'.st ≠ .master) ∧
  (j + 1 ∉ order → p'.st = p.st) ∧ p'.inert = p.inert

theorem recommend_none_listening (own : DefaultDS) (e er : Option Best) (l : Bool)
    (h : recommend own e er l = none) : l = true := by
  unfold recommend at h
  split at h
  · rename_i hh; simp only [Bool.and_eq_true] at hh; exact hh.2
  · split at h <;> cases h

/-- phase 2 -/
theorem bmcaApply_spec (ebest : Option Best) (lbs : List (Nat × Option Best)) :
    ∀ (order : List Nat), order.Nodup → ∀ (ports : List Port) (s : InstState) (ev : Obs) (pend : List (Nat × List Out))
      (ports' : List Port) (s' : InstState) (ev' : Obs) (pend' : List (Nat × List Out)),
      bmcaApply ebest lbs order ports s ev pend = .ok (ports', s', ev', pend') →
      ports'.length = ports.length ∧ s'.dflt = s.dflt ∧
      (∀ (j : Nat) (p : Port), ports[j]? = some p → ∃ p', ports'[j]? = some p' ∧ AppliedTo s.dflt ebest lbs order j p p') ∧
      ((∀ x ∈ ev, x.2.plain) → ∀ x ∈ ev', x.2.plain) ∧
      ((∀ x ∈ pend, ∀ o ∈ x.2, o.plain) → ∀ x ∈ pend', ∀ o ∈ x.2, o.plain) := by
  intro order
  induction order with
  | nil =>
    intro _ ports s ev pend ports' s' ev' pend' h
    simp only [bmcaApply, Except.ok.injEq, Prod.mk.injEq] at h
    obtain ⟨rfl, rfl, rfl, rfl⟩ := h
    refine ⟨rfl, rfl, ?_, fun h => h, fun h => h⟩
    intro j p hp
    exact ⟨p, hp, rfl, rfl, rfl, fun _ => Or.inr ⟨(by intro h; cases h), rfl⟩, fun h => Or.inl h, (by intro h; cases h), (fun _ => rfl), rfl⟩
  | cons k rest ih =>
    intro hnd ports s ev pend ports' s' ev' pend' h
    have hnd' : rest.Nodup := (List.nodup_cons.1 hnd).2
    have hk_notin : k ∉ rest := (List.nodup_cons.1 hnd).1
    simp only [bmcaApply] at h
    -- how a result for `rest` lifts to `k :: rest` for a port other than k
    have lift : ∀ (d : DefaultDS) (j : Nat) (p p' : Port), j + 1 ≠ k → AppliedTo d ebest lbs rest j p p' →
        AppliedTo d ebest lbs (k :: rest) j p p' := by
      intro d j p p' hjk ⟨b1, b2, b3, b4, b5, b6, b7, b8⟩
      refine ⟨b1, b2, b3, ?_, b5, ?_, ?_, b8⟩
      · intro hs
        rcases b4 hs with ⟨m1, m2⟩ | ⟨m0, m⟩
        · exact Or.inl ⟨List.mem_cons_of_mem _ m1, m2⟩
        · refine Or.inr ⟨?_, m⟩
          intro hm
          rcases List.mem_cons.1 hm with e | e
          · exact hjk e
          · exact m0 e
      · intro hm
        rcases List.mem_cons.1 hm with e | e
        · exact absurd e hjk
        · exact b6 e
      · intro hm
        exact b7 (fun hh => hm (List.mem_cons_of_mem _ hh))
    cases hk : portAt ports k with
    | none =>
      rw [hk] at h
      simp only at h
      obtain ⟨a1, a2, a3, a4, a5⟩ := ih hnd' ports s ev pend ports' s' ev' pend' h
      refine ⟨a1, a2, ?_, a4, a5⟩
      intro j p hp
      obtain ⟨p', hp', hap⟩ := a3 j p hp
      have hjk : j + 1 ≠ k := by
        intro e
        subst e
        rw [portAt_succ, hp] at hk; cases hk
      exact ⟨p', hp', lift _ j p p' hjk hap⟩
    | some p0 =>
      rw [hk] at h
      simp only at h
      obtain ⟨k1, hkl, hkg⟩ := portAt_some hk
      cases hrec : recommend s.dflt ebest ((lbs.lookup k).getD none) (decide (p0.st = .listening)) with
      | none =>
        rw [hrec] at h
        simp only at h
        obtain ⟨a1, a2, a3, a4, a5⟩ := ih hnd' ports s ev pend ports' s' ev' pend' h
        refine ⟨a1, a2, ?_, a4, a5⟩
        intro j p hp
        obtain ⟨p', hp', hap⟩ := a3 j p hp
        by_cases hjk : j + 1 = k
        · have hj : j = k - 1 := by omega
          have hpe : p = p0 := by rw [hj, hkg] at hp; cases hp; rfl
          subst hpe
          have hnotin : j + 1 ∉ rest := by rw [hjk]; exact hk_notin
          obtain ⟨b1, b2, b3, b4, b5, b6, b7, b8⟩ := hap
          have hsame := b7 hnotin
          have hlis : p.st = .listening := by
            have := recommend_none_listening _ _ _ _ hrec
            simpa using this
          refine ⟨p', hp', b1, b2, b3, ?_, b5, ?_, ?_, b8⟩
          · intro hs; rw [hsame, hlis] at hs; cases hs
          · intro _ _ hm; rw [hsame, hlis] at hm; cases hm
          · intro _; exact hsame
        · exact ⟨p', hp', lift _ j p p' hjk hap⟩
      | some r =>
        rw [hrec] at h
        simp only [bind, Except.bind] at h
        cases hset : p0.setRecommendedState r s with
        | error er => rw [hset] at h; cases h
        | ok v =>
          obtain ⟨p1, s1, e1, pd1⟩ := v
          rw [hset] at h
          simp only at h
          obtain ⟨c1, c2, c3, c4, c5, c6, c7, c8, c9, c10, c11, c12, c13⟩ := setRecommendedState_spec p0 p1 r s s1 e1 pd1 hset
          obtain ⟨a1, a2, a3, a4, a5⟩ := ih hnd' (setPort ports k p1) s1 _ _ ports' s' ev' pend' h
          have hlen : (setPort ports k p1).length = ports.length := by simp [setPort]
          refine ⟨a1.trans hlen, a2.trans c5, ?_, ?_, ?_⟩
          · intro j p hp
            have hg := getElem?_setPort ports k p1 j k1 hkl
            by_cases hjk : j + 1 = k
            · have hj : j = k - 1 := by omega
              have hpe : p = p0 := by rw [hj, hkg] at hp; cases hp; rfl
              subst hpe
              have hnotin : j + 1 ∉ rest := by rw [hjk]; exact hk_notin
              rw [if_pos hjk] at hg
              obtain ⟨p', hp', b1, b2, b3, b4, b5, b6, b7, b8⟩ := a3 j p1 hg
              have hsame : p'.st = p1.st := b7 hnotin
              refine ⟨p', hp', b1.trans c1, b2.trans c2, b3.trans c3, ?_, ?_, ?_, ?_, b8.trans c13⟩
              · intro hs
                obtain ⟨a, ha⟩ := c6 (by rw [← hsame]; exact hs)
                subst ha
                exact Or.inl ⟨(by rw [hjk]; exact List.mem_cons_self), a, (by rw [hjk]; exact hrec), c11 rfl⟩
              · intro hm
                rcases c7 (by rw [← hsame]; exact hm) with e2 | e2
                · exact Or.inl e2
                · exact Or.inr e2.1
              · intro _ hso hm
                exact c12 hso (by rw [← hsame]; exact hm)
              · intro hni
                exact absurd (by rw [hjk]; exact List.mem_cons_self) hni
            · rw [if_neg hjk] at hg
              obtain ⟨p', hp', hap⟩ := a3 j p (by rw [hg]; exact hp)
              rw [c5] at hap
              exact ⟨p', hp', lift _ j p p' hjk hap⟩
          · intro hev
            apply a4
            intro x hx
            rcases List.mem_append.1 hx with h1 | h1
            · exact hev x h1
            · simp only [tag, List.mem_map] at h1
              obtain ⟨o, ho, rfl⟩ := h1
              exact c8 o ho
          · intro hpend
            apply a5
            intro x hx
            cases pd1 with
            | none => exact hpend x hx
            | some l =>
              simp only at hx
              rcases List.mem_append.1 hx with h1 | h1
              · exact hpend x (List.mem_filter.1 h1).1
              · simp only [List.mem_singleton] at h1; subst h1
                exact c9 l rfl

theorem Port.new_spec (cfg : PortCfg) (id : PortId) (pn : Port) (h : Port.new cfg id = .ok pn) :
    pn.id = id ∧ pn.fml.own = pn.id ∧ pn.st = .listening := by
  unfold Port.new at h
  obtain ⟨ai, _, h2⟩ := orOv_ok _ _ _ h
  rw [Except.ok.injEq] at h2
  rw [← h2]
  exact ⟨rfl, rfl, rfl⟩

theorem addPort_ok (i i' : Inst) (cfg : PortCfg) (obs : Obs) (q : Nat)
    (h : i.addPort cfg = .ok (i', obs, q)) :
    ∃ pn, Port.new cfg ⟨i.st.dflt.clockIdentity, i.st.dflt.numberPorts + 1⟩ = .ok pn ∧
      i'.ports = i.ports ++ [pn] ∧ i'.st.dflt.numberPorts = i.st.dflt.numberPorts + 1 ∧
      i'.st.dflt.clockIdentity = i.st.dflt.clockIdentity ∧ i'.st.dflt.slaveOnly = i.st.dflt.slaveOnly ∧
      obs = tag (i.st.dflt.numberPorts + 1) [.reset .receipt .rand] := by
  unfold Inst.addPort at h
  obtain ⟨pn, hn, he⟩ := map_ok _ _ _ h
  refine ⟨pn, hn, ?_⟩
  unfold Inst.withNewPort at he
  rw [Prod.mk.injEq, Prod.mk.injEq] at he
  rw [← he.1, ← he.2.1]
  exact ⟨rfl, rfl, rfl, rfl, rfl⟩

theorem freshOrSame_trans {a b c : PState} (h1 : FreshOrSame a b) (h2 : FreshOrSame b c) : FreshOrSame a c := by
  rcases h2 with h | h | h
  · rw [h]; exact h1
  · exact Or.inr (Or.inl h)
  · exact Or.inr (Or.inr h)

theorem setRecommendedState_fresh (p p1 : Port) (r : Recommended) (s s1 : InstState) (e : List Out) (pd : Option (List Out))
    (h : p.setRecommendedState r s = .ok (p1, s1, e, pd)) : FreshOrSame p.st p1.st := by
  unfold Port.setRecommendedState at h
  simp only [bind, Except.bind] at h
  cases hps : p.setRecommendedPortState r s.dflt with
  | error er => rw [hps] at h; cases h
  | ok v =>
    obtain ⟨pp, ev, pend⟩ := v
    rw [hps] at h
    simp only at h
    have hpp : FreshOrSame p.st pp.st := by
      unfold Port.setRecommendedPortState at hps
      split at hps
      · cases hps
      · cases hm : portMove p r s.dflt with
        | none =>
          rw [hm] at hps
          simp only [Except.ok.injEq, Prod.mk.injEq] at hps
          rw [← hps.1]; exact Or.inl rfl
        | some v2 =>
          obtain ⟨st, pd'⟩ := v2
          rw [hm] at hps
          simp only [Except.ok.injEq, Prod.mk.injEq] at hps
          rw [← hps.1]; exact portMove_fresh p r s.dflt st pd' hm
    cases r with
    | m1 dd | m2 dd | m3 dd | p1 dd | p2 dd =>
      simp only [Except.ok.injEq, Prod.mk.injEq] at h
      rw [← h.1]; exact hpp
    | s1 a =>
      simp only at h
      cases hap : s.applyParentS1 a with
      | error er => rw [hap] at h; cases h
      | ok s2 =>
        rw [hap] at h
        simp only [Except.ok.injEq, Prod.mk.injEq] at h
        rw [← h.1]; exact hpp

theorem bmcaApply_fresh (ebest : Option Best) (lbs : List (Nat × Option Best)) :
    ∀ (order : List Nat) (ports : List Port) (s : InstState) (ev : Obs) (pend : List (Nat × List Out))
      (ports' : List Port) (s' : InstState) (ev' : Obs) (pend' : List (Nat × List Out)),
      bmcaApply ebest lbs order ports s ev pend = .ok (ports', s', ev', pend') →
      ∀ (j : Nat) (p : Port), ports[j]? = some p → ∃ p', ports'[j]? = some p' ∧ FreshOrSame p.st p'.st := by
  intro order
  induction order with
  | nil =>
    intro ports s ev pend ports' s' ev' pend' h
    simp only [bmcaApply, Except.ok.injEq, Prod.mk.injEq] at h
    obtain ⟨rfl, _⟩ := h
    exact fun j p hp => ⟨p, hp, Or.inl rfl⟩
  | cons k rest ih =>
    intro ports s ev pend ports' s' ev' pend' h
    simp only [bmcaApply] at h
    cases hk : portAt ports k with
    | none => rw [hk] at h; exact ih ports s ev pend ports' s' ev' pend' h
    | some p0 =>
      rw [hk] at h
      simp only at h
      obtain ⟨k1, hkl, hkg⟩ := portAt_some hk
      cases hrec : recommend s.dflt ebest ((lbs.lookup k).getD none) (decide (p0.st = .listening)) with
      | none => rw [hrec] at h; exact ih ports s ev pend ports' s' ev' pend' h
      | some r =>
        rw [hrec] at h
        simp only [bind, Except.bind] at h
        cases hset : p0.setRecommendedState r s with
        | error er => rw [hset] at h; cases h
        | ok v =>
          obtain ⟨p1, s1, e1, pd1⟩ := v
          rw [hset] at h
          simp only at h
          have hf := setRecommendedState_fresh p0 p1 r s s1 e1 pd1 hset
          have a := ih (setPort ports k p1) s1 _ _ ports' s' ev' pend' h
          intro j p hp
          have hg := getElem?_setPort ports k p1 j k1 hkl
          by_cases hjk : j + 1 = k
          · have hj : j = k - 1 := by omega
            have hpe : p = p0 := by rw [hj, hkg] at hp; cases hp; rfl
            subst hpe
            rw [if_pos hjk] at hg
            obtain ⟨p', hp', hfo⟩ := a j p1 hg
            exact ⟨p', hp', freshOrSame_trans hf hfo⟩
          · rw [if_neg hjk] at hg
            exact a j p (by rw [hg]; exact hp)

end Statime
