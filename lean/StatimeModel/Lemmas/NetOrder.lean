import StatimeModel.Lemmas.NetL
import StatimeModel.Lemmas.Order
/-
Order-theoretic lemmas for the abstract network model: on data that is grandmaster-consistent and
not received by its own sender, `bestOf` / `ebestOf` return a minimum of the comparison key.
-/
namespace Statime.Net
open Statime

/-- a fold that keeps the smaller key ends on a minimum -/
theorem foldl_pick_min {α : Type} (key : α → List Int) (L : Nat) (pick : α → α → α) (S : List α)
    (hlen : ∀ a ∈ S, (key a).length = L)
    (hpick : ∀ a ∈ S, ∀ b ∈ S, (keyCmp (key a) (key b) = .lt → pick a b = a) ∧ (keyCmp (key a) (key b) ≠ .lt → pick a b = b)) :
    ∀ (ys : List α) (acc : α), acc ∈ S → (∀ y ∈ ys, y ∈ S) →
      ys.foldl pick acc ∈ S ∧ keyCmp (key (ys.foldl pick acc)) (key acc) ≠ .gt ∧
      ∀ y ∈ ys, keyCmp (key (ys.foldl pick acc)) (key y) ≠ .gt := by
  intro ys
  induction ys with
  | nil =>
    intro acc hacc _
    refine ⟨hacc, by simp [keyCmp_refl], fun y hy => by cases hy⟩
  | cons y ys ih =>
    intro acc hacc hys
    have hy : y ∈ S := hys y (by simp)
    simp only [List.foldl_cons]
    -- the new accumulator is one of the two and below both
    have hp := hpick acc hacc y hy
    have hacc' : pick acc y ∈ S ∧ keyCmp (key (pick acc y)) (key acc) ≠ .gt ∧ keyCmp (key (pick acc y)) (key y) ≠ .gt := by
      by_cases hlt : keyCmp (key acc) (key y) = .lt
      · rw [hp.1 hlt]
        exact ⟨hacc, by simp [keyCmp_refl], by simp [hlt]⟩
      · rw [hp.2 hlt]
        refine ⟨hy, ?_, by simp [keyCmp_refl]⟩
        rw [keyCmp_swap (key acc) (key y)]
        cases hk : keyCmp (key acc) (key y) with
        | lt => exact absurd hk hlt
        | eq => simp [Ordering.swap]
        | gt => simp [Ordering.swap]
    obtain ⟨hm, h1, h2⟩ := ih (pick acc y) hacc'.1 (fun z hz => hys z (by simp [hz]))
    refine ⟨hm, ?_, ?_⟩
    · exact keyCmp_le_trans _ _ _ (by rw [hlen _ hm, hlen _ hacc'.1]) (by rw [hlen _ hacc'.1, hlen _ hacc]) h1 hacc'.2.1
    · intro z hz
      rcases List.mem_cons.mp hz with e | e
      · subst e
        exact keyCmp_le_trans _ _ _ (by rw [hlen _ hm, hlen _ hacc'.1]) (by rw [hlen _ hacc'.1, hlen _ hy]) h1 hacc'.2.2
      · exact h2 z e

theorem key_length (d : CmpDS) : d.key.length = 9 := by
  simp [CmpDS.key, CmpDS.gmKey, CmpDS.topoKey]

/-- received data: never from the receiving clock itself, and pairwise grandmaster-consistent -/
def GoodAdvs (rc : Nat) (l : List Adv) : Prop :=
  (∀ a ∈ l, a.sender ≠ rc) ∧ ∀ a ∈ l, ∀ b ∈ l, a.gm.id = b.gm.id → a.gm = b.gm

theorem cmpDS_law (rc rp rp' : Nat) (a b : Adv) (ha : a.sender ≠ rc) (hb : b.sender ≠ rc) (hc : a.gm.id = b.gm.id → a.gm = b.gm) :
    ((a.cmpDS rc rp).compare (b.cmpDS rc rp')).asOrdering =
      (keyCmp (a.cmpDS rc rp).key (b.cmpDS rc rp').key).swap := by
  apply compare_asOrdering_key
  · unfold CmpDS.NoSelf Adv.cmpDS; simp; exact fun h => ha h.symm
  · unfold CmpDS.NoSelf Adv.cmpDS; simp; exact fun h => hb h.symm
  · unfold CmpDS.GMCons Adv.cmpDS
    simp only
    intro h
    have := hc h
    rw [this]
    exact ⟨rfl, rfl, rfl, rfl, rfl⟩

/-- `bestOf` returns an element whose key is minimal -/
theorem bestOf_min (rc rp : Nat) (l : List Adv) (hg : GoodAdvs rc l) (b : Adv) (h : bestOf rc rp l = some b) :
    b ∈ l ∧ ∀ a ∈ l, keyCmp (b.cmpDS rc rp).key (a.cmpDS rc rp).key ≠ .gt := by
  cases l with
  | nil => simp [bestOf] at h
  | cons x xs =>
    simp only [bestOf, Option.some.injEq] at h
    subst h
    have hpick : ∀ a ∈ x :: xs, ∀ b ∈ x :: xs,
        (keyCmp (a.cmpDS rc rp).key (b.cmpDS rc rp).key = .lt → better rc rp a b = a) ∧
        (keyCmp (a.cmpDS rc rp).key (b.cmpDS rc rp).key ≠ .lt → better rc rp a b = b) := by
      intro a ha b hb
      have law := cmpDS_law rc rp rp a b (hg.1 a ha) (hg.1 b hb) (hg.2 a ha b hb)
      unfold better
      rw [law]
      constructor
      · intro hlt; rw [hlt]; rfl
      · intro hn
        cases hk : keyCmp (a.cmpDS rc rp).key (b.cmpDS rc rp).key with
        | lt => exact absurd hk hn
        | eq => rfl
        | gt => rfl
    obtain ⟨hm, h1, h2⟩ := foldl_pick_min (fun a => (a.cmpDS rc rp).key) 9 (better rc rp) (x :: xs)
      (fun a _ => key_length _) hpick xs x (by simp) (fun y hy => by simp [hy])
    refine ⟨hm, ?_⟩
    intro a ha
    rcases List.mem_cons.mp ha with e | e
    · subst e; exact h1
    · exact h2 a e

/-- `ebestOf` returns a candidate whose key (with its own receiving port) is minimal among the candidates -/
theorem ebestOf_min (c : NodeCfg) (erbests : List (Option Adv)) (hg : GoodAdvs c.id ((candsOf c erbests).map (·.1)))
    (g : Adv) (gj : Nat) (h : ebestOf c erbests = some (g, gj)) :
    (g, gj) ∈ candsOf c erbests ∧
    ∀ y ∈ candsOf c erbests, keyCmp (g.cmpDS c.id (gj + 1)).key (y.1.cmpDS c.id (y.2 + 1)).key ≠ .gt := by
  unfold ebestOf at h
  split at h
  · cases h
  · rename_i x xs heq
    simp only [Option.some.injEq] at h
    have hmemS : ∀ y ∈ x :: xs, y.1 ∈ (candsOf c erbests).map (·.1) := by
      intro y hy; rw [heq]; exact List.mem_map_of_mem hy
    have hpick : ∀ a ∈ x :: xs, ∀ b ∈ x :: xs,
        (keyCmp (a.1.cmpDS c.id (a.2 + 1)).key (b.1.cmpDS c.id (b.2 + 1)).key = .lt → betterCand c a b = a) ∧
        (keyCmp (a.1.cmpDS c.id (a.2 + 1)).key (b.1.cmpDS c.id (b.2 + 1)).key ≠ .lt → betterCand c a b = b) := by
      intro a ha b hb
      have law := cmpDS_law c.id (a.2 + 1) (b.2 + 1) a.1 b.1 (hg.1 _ (hmemS a ha)) (hg.1 _ (hmemS b hb))
        (hg.2 _ (hmemS a ha) _ (hmemS b hb))
      unfold betterCand
      rw [law]
      constructor
      · intro hlt; rw [hlt]; rfl
      · intro hn
        cases hk : keyCmp (a.1.cmpDS c.id (a.2 + 1)).key (b.1.cmpDS c.id (b.2 + 1)).key with
        | lt => exact absurd hk hn
        | eq => rfl
        | gt => rfl
    obtain ⟨hm, h1, h2⟩ := foldl_pick_min (fun a : Adv × Nat => (a.1.cmpDS c.id (a.2 + 1)).key) 9 (betterCand c) (x :: xs)
      (fun a _ => key_length _) hpick xs x (by simp) (fun y hy => by simp [hy])
    rw [h] at hm h1 h2
    rw [heq]
    refine ⟨hm, ?_⟩
    intro y hy
    rcases List.mem_cons.mp hy with e | e
    · subst e; exact h1
    · exact h2 y e

end Statime.Net
