import StatimeModel.Lemmas.Roles
/-
Frame discipline of the port-level handlers (C10, C12, C15): which handler emits a frame at all,
and that the per-type sequence counters move only with an emitted frame of that type.
-/
namespace Statime

/-- the frame carried by an action -/
def Out.frame : Out → Option (List UInt8)
  | .sendEvent _ b _ => some b
  | .sendGeneral b _ => some b
  | _ => none

def Out.isEvent : Out → Bool
  | .sendEvent .. => true
  | _ => false

/-- a handler call that emitted no frame and left the sequence counters, identity and configuration alone -/
def Quiet (p p' : Port) (outs : List Out) : Prop :=
  (∀ o ∈ outs, o.frame = none) ∧ p'.seqs = p.seqs ∧ p'.id = p.id ∧ p'.cfg = p.cfg

theorem quiet_refl (p : Port) : Quiet p p [] := ⟨(by intro o ho; cases ho), rfl, rfl, rfl⟩

theorem setState_quiet (p : Port) (st : PState) : Quiet p (p.setState st).1 (p.setState st).2 := by
  refine ⟨?_, rfl, rfl, rfl⟩
  intro o ho
  simp only [Port.setState] at ho
  split at ho
  · simp only [List.mem_singleton] at ho; subst ho; rfl
  · cases ho

theorem extract_seqs (p p' : Port) (m : Option Measurement) (o : List Out) (h : p.extract = .ok (p', m, o)) :
    p'.seqs = p.seqs := by
  unfold Port.extract at h
  split at h
  · obtain ⟨mm, h1, h2⟩ := orOv_ok _ _ _ h
    split at h2
    · simp only [Port.setState, Except.ok.injEq, Prod.mk.injEq] at h2
      rw [← h2.1]; rfl
    · simp only [Except.ok.injEq, Prod.mk.injEq] at h2
      rw [← h2.1]; rfl
  · unfold Port.extractSlave at h
    cases hst : p.st with
    | slave remote sy dl last =>
      rw [hst] at h
      simp only at h
      split at h
      · obtain ⟨rm, _, h2⟩ := orOv_ok _ _ _ h
        simp only [Except.ok.injEq, Prod.mk.injEq] at h2
        rw [← h2.1]; rfl
      · split at h
        · obtain ⟨rm, _, h2⟩ := orOv_ok _ _ _ h
          simp only [Except.ok.injEq, Prod.mk.injEq] at h2
          rw [← h2.1]; rfl
        · simp only [Except.ok.injEq, Prod.mk.injEq] at h
          rw [← h.1]
    | faulty | listening | master | passive =>
      rw [hst] at h
      simp only [Except.ok.injEq, Prod.mk.injEq] at h
      rw [← h.1]

theorem timeMeasurement_quiet (p p' : Port) (outs : List Out) (h : p.timeMeasurement = .ok (p', outs)) :
    Quiet p p' outs := by
  obtain ⟨p1, m, o1, hex, hm⟩ := timeMeasurement_spec p p' outs h
  obtain ⟨_, _, r3, r4, r5, _⟩ := extract_roles p p1 m o1 hex
  have r7 := extract_seqs p p1 m o1 hex
  have g1 : ∀ o ∈ o1, o.frame = none := by intro o ho; rw [r3 o ho]; rfl
  cases m with
  | none =>
    simp only at hm
    obtain ⟨rfl, rfl⟩ := hm
    exact ⟨g1, r7, r5, r4⟩
  | some mm =>
    simp only at hm
    obtain ⟨rfl, hp'⟩ := hm
    refine ⟨?_, ?_⟩
    · intro o ho
      rcases List.mem_append.1 ho with h1 | h1
      · exact g1 o h1
      · simp only [List.mem_singleton] at h1; subst h1; rfl
    · rw [hp']
      split
      · exact ⟨r7, r5, r4⟩
      · exact ⟨r7, r5, r4⟩

theorem timeMeasurement_withSlave_quiet (p p' : Port) (remote : PortId) (sy : SyncSt) (dl : DelaySt) (last : Option Int)
    (outs : List Out) (h : (p.withSlave remote sy dl last).timeMeasurement = .ok (p', outs)) : Quiet p p' outs := by
  have := timeMeasurement_quiet _ _ _ h
  exact ⟨this.1, this.2.1, this.2.2.1, this.2.2.2⟩

theorem timeMeasurement_withPeer_quiet (p p' : Port) (ps : PeerSt) (outs : List Out)
    (h : ({ p with peer := ps } : Port).timeMeasurement = .ok (p', outs)) : Quiet p p' outs := by
  have := timeMeasurement_quiet ({ p with peer := ps } : Port) p' outs h
  exact ⟨this.1, this.2.1, this.2.2.1, this.2.2.2⟩

theorem handleSync_quiet (p p' : Port) (h : Header) (o : WireTs) (ts : Nat) (outs : List Out)
    (hr : p.handleSync h o ts = .ok (p', outs)) : Quiet p p' outs := by
  unfold Port.handleSync at hr
  cases hst : p.st with
  | slave remote sy dl last =>
    have hs : p.st.isSlave = true := by rw [hst]; rfl
    rw [hst] at hr
    simp only at hr
    split at hr
    · simp only [Except.ok.injEq, Prod.mk.injEq] at hr; rw [← hr.1, ← hr.2]; exact quiet_refl _
    · obtain ⟨c, _, hs2⟩ := orOv_ok _ _ _ hr
      unfold Port.syncStore at hs2
      have stay : (p', outs) = (p, []) → Quiet p p' outs := by
        intro e; simp only [Prod.mk.injEq] at e; rw [e.1, e.2]; exact quiet_refl _
      have store : ∀ sy1, (p', outs) = (p.withSlave remote sy1 dl last, []) →
          Quiet p p' outs := by
        intro sy1 e; simp only [Prod.mk.injEq] at e; rw [e.1, e.2]
        exact ⟨(by intro o ho; cases ho), rfl, rfl, rfl⟩
      split at hs2
      · split at hs2
        · split at hs2
          · split at hs2
            · exact stay (Except.ok.inj hs2).symm
            · exact timeMeasurement_withSlave_quiet p p' _ _ _ _ outs hs2
          · exact store _ (Except.ok.inj hs2).symm
        · exact store _ (Except.ok.inj hs2).symm
      · split at hs2
        · split at hs2
          · exact stay (Except.ok.inj hs2).symm
          · obtain ⟨s, _, hm⟩ := orOv_ok _ _ _ hs2
            exact timeMeasurement_withSlave_quiet p p' _ _ _ _ outs hm
        · obtain ⟨s, _, hm⟩ := orOv_ok _ _ _ hs2
          exact timeMeasurement_withSlave_quiet p p' _ _ _ _ outs hm
  | faulty | listening | master | passive =>
    rw [hst] at hr
    simp only [Except.ok.injEq, Prod.mk.injEq] at hr
    rw [← hr.1, ← hr.2]; exact quiet_refl _

theorem handleFollowUp_quiet (p p' : Port) (h : Header) (o : WireTs) (outs : List Out)
    (hr : p.handleFollowUp h o = .ok (p', outs)) : Quiet p p' outs := by
  unfold Port.handleFollowUp at hr
  cases hst : p.st with
  | slave remote sy dl last =>
    have hs : p.st.isSlave = true := by rw [hst]; rfl
    rw [hst] at hr
    simp only at hr
    split at hr
    · simp only [Except.ok.injEq, Prod.mk.injEq] at hr; rw [← hr.1, ← hr.2]; exact quiet_refl _
    · obtain ⟨t0, _, hr1⟩ := orOv_ok _ _ _ hr
      obtain ⟨s, _, hs2⟩ := orOv_ok _ _ _ hr1
      unfold Port.followUpStore at hs2
      split at hs2
      · split at hs2
        · split at hs2
          · simp only [Except.ok.injEq, Prod.mk.injEq] at hs2; rw [← hs2.1, ← hs2.2]; exact quiet_refl _
          · exact timeMeasurement_withSlave_quiet p p' _ _ _ _ outs hs2
        · exact timeMeasurement_withSlave_quiet p p' _ _ _ _ outs hs2
      · exact timeMeasurement_withSlave_quiet p p' _ _ _ _ outs hs2
  | faulty | listening | master | passive =>
    rw [hst] at hr
    simp only [Except.ok.injEq, Prod.mk.injEq] at hr
    rw [← hr.1, ← hr.2]; exact quiet_refl _

theorem handleDelayResp_quiet (p p' : Port) (h : Header) (rx : WireTs) (req : PortId) (outs : List Out)
    (hr : p.handleDelayResp h rx req = .ok (p', outs)) : Quiet p p' outs := by
  unfold Port.handleDelayResp at hr
  have stay : (p', outs) = (p, []) → Quiet p p' outs := by
    intro e; simp only [Prod.mk.injEq] at e; rw [e.1, e.2]; exact quiet_refl _
  cases hst : p.st with
  | slave remote sy dl last =>
    have hs : p.st.isSlave = true := by rw [hst]; rfl
    rw [hst] at hr
    simp only at hr
    split at hr
    · exact stay (Except.ok.inj hr).symm
    · split at hr
      · split at hr
        · split at hr
          · exact stay (Except.ok.inj hr).symm
          · obtain ⟨t0, _, hr1⟩ := orOv_ok _ _ _ hr
            obtain ⟨r, _, hm⟩ := orOv_ok _ _ _ hr1
            exact timeMeasurement_withSlave_quiet p p' _ _ _ _ outs hm
        · exact stay (Except.ok.inj hr).symm
      · exact stay (Except.ok.inj hr).symm
  | faulty | listening | master | passive =>
    rw [hst] at hr
    exact (by rw [← hst] at *; exact stay (Except.ok.inj hr).symm)

theorem handleDelayTs_quiet (p p' : Port) (id ts : Nat) (outs : List Out)
    (hr : p.handleDelayTs id ts = .ok (p', outs)) : Quiet p p' outs := by
  unfold Port.handleDelayTs at hr
  have stay : (p', outs) = (p, []) → Quiet p p' outs := by
    intro e; simp only [Prod.mk.injEq] at e; rw [e.1, e.2]; exact quiet_refl _
  split at hr
  · rename_i remote sy i send recv last hst
    have hs : p.st.isSlave = true := by rw [hst]; rfl
    split at hr
    · split at hr
      · exact stay (Except.ok.inj hr).symm
      · exact timeMeasurement_withSlave_quiet p p' _ _ _ _ outs hr
    · exact stay (Except.ok.inj hr).symm
  · exact stay (Except.ok.inj hr).symm

theorem handlePdelayTs_quiet (p p' : Port) (id ts : Nat) (outs : List Out)
    (hr : p.handlePdelayTs id ts = .ok (p', outs)) : Quiet p p' outs := by
  unfold Port.handlePdelayTs at hr
  have stay : (p', outs) = (p, []) → Quiet p p' outs := by
    intro e; simp only [Prod.mk.injEq] at e; rw [e.1, e.2]; exact quiet_refl _
  split at hr
  · split at hr
    · split at hr
      · exact stay (Except.ok.inj hr).symm
      · exact timeMeasurement_withPeer_quiet p p' _ outs hr
    · exact stay (Except.ok.inj hr).symm
  · exact stay (Except.ok.inj hr).symm

theorem handlePdelayResp_quiet (p p' : Port) (h : Header) (rx : WireTs) (req : PortId) (ts : Nat) (outs : List Out)
    (hr : p.handlePdelayResp h rx req ts = .ok (p', outs)) : Quiet p p' outs := by
  unfold Port.handlePdelayResp at hr
  have stay : (p', outs) = (p, []) → Quiet p p' outs := by
    intro e; simp only [Prod.mk.injEq] at e; rw [e.1, e.2]; exact quiet_refl _
  split at hr
  · exact stay (Except.ok.inj hr).symm
  · split at hr
    · exact stay (Except.ok.inj hr).symm
    · simp only [Except.ok.injEq] at hr
      have e1 : p' = (p.setState .faulty).1 := by rw [hr]
      have e2 : outs = (p.setState .faulty).2 := by rw [hr]
      rw [e1, e2]
      exact setState_quiet p .faulty
    · split at hr
      · split at hr
        · exact stay (Except.ok.inj hr).symm
        · obtain ⟨rr, _, hr1⟩ := orOv_ok _ _ _ hr
          obtain ⟨rq, _, hm⟩ := orOv_ok _ _ _ hr1
          exact timeMeasurement_withPeer_quiet p p' _ outs hm
      · exact stay (Except.ok.inj hr).symm

theorem handlePdelayRespFu_quiet (p p' : Port) (h : Header) (o : WireTs) (req : PortId) (outs : List Out)
    (hr : p.handlePdelayRespFu h o req = .ok (p', outs)) : Quiet p p' outs := by
  unfold Port.handlePdelayRespFu at hr
  have stay : (p', outs) = (p, []) → Quiet p p' outs := by
    intro e; simp only [Prod.mk.injEq] at e; rw [e.1, e.2]; exact quiet_refl _
  split at hr
  · exact stay (Except.ok.inj hr).symm
  · split at hr
    · exact stay (Except.ok.inj hr).symm
    · simp only [Except.ok.injEq] at hr
      have e1 : p' = (p.setState .faulty).1 := by rw [hr]
      have e2 : outs = (p.setState .faulty).2 := by rw [hr]
      rw [e1, e2]
      exact setState_quiet p .faulty
    · split at hr
      · split at hr
        · exact stay (Except.ok.inj hr).symm
        · obtain ⟨t0, _, hr1⟩ := orOv_ok _ _ _ hr
          obtain ⟨s, _, hm⟩ := orOv_ok _ _ _ hr1
          exact timeMeasurement_withPeer_quiet p p' _ outs hm
      · exact stay (Except.ok.inj hr).symm


/-! ### message constructors -/

theorem bindR_ok {α β : Type} (x : R α) (f : α → R β) (b : β) (h : (x >>= f) = .ok b) : ∃ a, x = .ok a ∧ f a = .ok b := by
  cases x with
  | error e => cases h
  | ok a => exact ⟨a, rfl, h⟩

theorem msgFollowUp_ok (d : DefaultDS) (pid : PortId) (seq ts minor : Nat) (m : Msg)
    (h : msgFollowUp d pid seq ts minor = .ok m) :
    ∃ w, timeToWire ts = some w ∧
      m = { header := { baseHeader d pid seq minor with correction := timeSubnano ts }, body := .followUp w, suffix := [] } := by
  unfold msgFollowUp at h
  obtain ⟨w, hw, h2⟩ := bindR_ok _ _ _ h
  exact ⟨w, (liftOv_ok _ _).1 hw, (Except.ok.inj h2).symm⟩

theorem msgDelayResp_ok (req : Header) (pid : PortId) (delayLog : Int) (ts : Nat) (m : Msg)
    (h : msgDelayResp req pid delayLog ts = .ok m) :
    ∃ w, timeToWire ts = some w ∧
      m = { header := { req with flags := { req.flags with twoStep := false }, src := pid,
                                 correction := clampI64 (req.correction + timeSubnano ts), logInterval := delayLog },
            body := .delayResp w req.src, suffix := [] } := by
  unfold msgDelayResp at h
  obtain ⟨w, hw, h2⟩ := bindR_ok _ _ _ h
  exact ⟨w, (liftOv_ok _ _).1 hw, (Except.ok.inj h2).symm⟩

theorem msgPdelayResp_ok (d : DefaultDS) (pid : PortId) (req : Header) (ts minor : Nat) (m : Msg)
    (h : msgPdelayResp d pid req ts minor = .ok m) :
    ∃ w, timeToWire ts = some w ∧
      m = { header := { baseHeader d pid req.seq minor with flags := { twoStep := true : Flags }, correction := req.correction },
            body := .pdelayResp w req.src, suffix := [] } := by
  unfold msgPdelayResp at h
  obtain ⟨w, hw, h2⟩ := bindR_ok _ _ _ h
  exact ⟨w, (liftOv_ok _ _).1 hw, (Except.ok.inj h2).symm⟩

theorem msgPdelayRespFu_ok (d : DefaultDS) (pid requestor : PortId) (seq ts minor : Nat) (m : Msg)
    (h : msgPdelayRespFu d pid requestor seq ts minor = .ok m) :
    ∃ w, timeToWire ts = some w ∧
      m = { header := baseHeader d pid seq minor, body := .pdelayRespFu w requestor, suffix := [] } := by
  unfold msgPdelayRespFu at h
  obtain ⟨w, hw, h2⟩ := bindR_ok _ _ _ h
  exact ⟨w, (liftOv_ok _ _).1 hw, (Except.ok.inj h2).symm⟩

/-! ### what the emitting handlers return, exactly -/

theorem sendSync_shape (p p' : Port) (s : InstState) (outs : List Out) (h : p.sendSync s = .ok (p', outs)) :
    (p.st = .master ∧ p' = { p with syncSeq := nextSeq p.syncSeq } ∧
      outs = [.reset .sync (.exact (intervalNs p.cfg.syncLog)),
              .sendEvent (.sync p.syncSeq) (encode (msgSync s.dflt p.id p.syncSeq p.cfg.minorVersion)) false]) ∨
    (p.st ≠ .master ∧ p' = p ∧ outs = []) := by
  unfold Port.sendSync at h
  split at h
  · rename_i hm
    simp only [Except.ok.injEq, Prod.mk.injEq] at h
    exact Or.inl ⟨hm, h.1.symm, h.2.symm⟩
  · rename_i hm
    simp only [Except.ok.injEq, Prod.mk.injEq] at h
    exact Or.inr ⟨hm, h.1.symm, h.2.symm⟩

theorem handleSyncTs_shape (p p' : Port) (s : InstState) (id ts : Nat) (outs : List Out)
    (h : p.handleSyncTs s id ts = .ok (p', outs)) :
    (p.st = .master ∧ p' = p ∧ ∃ m, msgFollowUp s.dflt p.id id ts p.cfg.minorVersion = .ok m ∧
      outs = [.sendGeneral (encode m) false]) ∨
    (p.st ≠ .master ∧ p' = p ∧ outs = []) := by
  unfold Port.handleSyncTs at h
  split at h
  · rename_i hm
    obtain ⟨m, h1, h2⟩ := bindR_ok _ _ _ h
    simp only [Except.ok.injEq, Prod.mk.injEq] at h2
    exact Or.inl ⟨hm, h2.1.symm, m, h1, h2.2.symm⟩
  · rename_i hm
    simp only [Except.ok.injEq, Prod.mk.injEq] at h
    exact Or.inr ⟨hm, h.1.symm, h.2.symm⟩

theorem handleDelayReq_shape (p p' : Port) (hd : Header) (ts : Nat) (outs : List Out)
    (h : p.handleDelayReq hd ts = .ok (p', outs)) :
    (p.st = .master ∧ p' = p ∧ ∃ m, msgDelayResp hd p.id p.cfg.delayLog ts = .ok m ∧
      outs = [.sendGeneral (encode m) false]) ∨
    (p.st ≠ .master ∧ p' = p ∧ outs = []) := by
  unfold Port.handleDelayReq at h
  split at h
  · rename_i hm
    obtain ⟨m, h1, h2⟩ := bindR_ok _ _ _ h
    simp only [Except.ok.injEq, Prod.mk.injEq] at h2
    exact Or.inl ⟨hm, h2.1.symm, m, h1, h2.2.symm⟩
  · rename_i hm
    simp only [Except.ok.injEq, Prod.mk.injEq] at h
    exact Or.inr ⟨hm, h.1.symm, h.2.symm⟩

theorem handlePdelayReq_shape (p p' : Port) (s : InstState) (hd : Header) (ts : Nat) (outs : List Out)
    (h : p.handlePdelayReq s hd ts = .ok (p', outs)) :
    p' = p ∧ ∃ m, msgPdelayResp s.dflt p.id hd ts p.cfg.minorVersion = .ok m ∧
      outs = [.sendEvent (.pdelayResp hd.seq hd.src) (encode m) true] := by
  unfold Port.handlePdelayReq at h
  obtain ⟨m, h1, h2⟩ := bindR_ok _ _ _ h
  simp only [Except.ok.injEq, Prod.mk.injEq] at h2
  exact ⟨h2.1.symm, m, h1, h2.2.symm⟩

theorem handlePdelayRespTs_shape (p p' : Port) (s : InstState) (id : Nat) (req : PortId) (ts : Nat) (outs : List Out)
    (h : p.handlePdelayRespTs s id req ts = .ok (p', outs)) :
    p' = p ∧ ∃ m, msgPdelayRespFu s.dflt p.id req id ts p.cfg.minorVersion = .ok m ∧
      outs = [.sendGeneral (encode m) true] := by
  unfold Port.handlePdelayRespTs at h
  obtain ⟨m, h1, h2⟩ := bindR_ok _ _ _ h
  simp only [Except.ok.injEq, Prod.mk.injEq] at h2
  exact ⟨h2.1.symm, m, h1, h2.2.symm⟩

theorem sendDelayRequest_shape (p p' : Port) (s : InstState) (outs : List Out) (h : p.sendDelayRequest s = .ok (p', outs)) :
    (p.cfg.p2p = true ∧ p' = { p with pdelaySeq := nextSeq p.pdelaySeq, peer := .measuring p.pdelaySeq none none none none none } ∧
      outs = [.reset .delay .rand,
              .sendEvent (.pdelayReq p.pdelaySeq) (encode (msgPdelayReq s.dflt p.id p.pdelaySeq p.cfg.minorVersion)) true]) ∨
    (p.cfg.p2p = false ∧ ∃ remote sy dl last, p.st = .slave remote sy dl last ∧
      p' = { p with delaySeq := nextSeq p.delaySeq, st := .slave remote sy (.measuring p.delaySeq none none) last } ∧
      outs = [.reset .delay .rand,
              .sendEvent (.delayReq p.delaySeq) (encode (msgDelayReq s.dflt p.id p.delaySeq p.cfg.minorVersion)) false]) ∨
    (p.cfg.p2p = false ∧ p.st.isSlave = false ∧ p' = p ∧ outs = []) := by
  unfold Port.sendDelayRequest at h
  split at h
  · rename_i hp
    simp only [Except.ok.injEq, Prod.mk.injEq] at h
    exact Or.inl ⟨hp, h.1.symm, h.2.symm⟩
  · rename_i hp
    have hp' : p.cfg.p2p = false := by cases hh : p.cfg.p2p with
      | true => exact absurd hh hp
      | false => rfl
    cases hst : p.st with
    | slave remote sy dl last =>
      rw [hst] at h
      simp only [Except.ok.injEq, Prod.mk.injEq] at h
      exact Or.inr (Or.inl ⟨hp', remote, sy, dl, last, rfl, h.1.symm, h.2.symm⟩)
    | faulty | listening | master | passive =>
      rw [hst] at h
      simp only [Except.ok.injEq, Prod.mk.injEq] at h
      exact Or.inr (Or.inr ⟨hp', rfl, h.1.symm, h.2.symm⟩)

/-! ### the frame discipline of one handler call -/

/-- the counter a message type is numbered from (`none`: the number echoes a request or a Sync) -/
def Port.seqOf (p : Port) : MsgType → Option Nat
  | .announce => some p.annSeq
  | .sync => some p.syncSeq
  | .delayReq => some p.delaySeq
  | .pdelayReq => some p.pdelaySeq
  | _ => none

/-- an emitted frame is the encoding of a message that bears the port's identity and the instance's
domain and sdoId, and is numbered from the port's counter for its type -/
def FrameOK (p : Port) (s : InstState) (o : Out) : Prop :=
  ∀ b, o.frame = some b → ∃ m, b = encode m ∧ m.header.src = p.id ∧ m.header.domain = s.dflt.domain ∧
    m.header.sdoId = s.dflt.sdoId ∧ (∀ n, p.seqOf m.body.type = some n → m.header.seq = n)

/-- the counters after emitting one frame of the given type -/
def Port.bump (p : Port) : Option MsgType → Nat × Nat × Nat × Nat
  | some .announce => (nextSeq p.annSeq, p.syncSeq, p.delaySeq, p.pdelaySeq)
  | some .sync => (p.annSeq, nextSeq p.syncSeq, p.delaySeq, p.pdelaySeq)
  | some .delayReq => (p.annSeq, p.syncSeq, nextSeq p.delaySeq, p.pdelaySeq)
  | some .pdelayReq => (p.annSeq, p.syncSeq, p.delaySeq, nextSeq p.pdelaySeq)
  | _ => p.seqs

def sentFrames (outs : List Out) : List (List UInt8) := outs.filterMap Out.frame

def frameType (b : List UInt8) : Option MsgType := MsgType.ofNibble (byteAt b 0 % 16)

/-- one handler call: every frame is well-formed for the port, at most one frame is emitted, and a
sequence counter moves exactly when a frame of its type is emitted -/
def Frames (p : Port) (s : InstState) (p' : Port) (outs : List Out) : Prop :=
  (∀ o ∈ outs, FrameOK p s o) ∧
  ((sentFrames outs = [] ∧ p'.seqs = p.seqs) ∨ ∃ b, sentFrames outs = [b] ∧ p'.seqs = p.bump (frameType b)) ∧
  p'.id = p.id ∧ p'.cfg = p.cfg

theorem sentFrames_nil_of (outs : List Out) (h : ∀ o ∈ outs, o.frame = none) : sentFrames outs = [] := by
  induction outs with
  | nil => rfl
  | cons o os ih =>
    unfold sentFrames
    rw [List.filterMap_cons, h o List.mem_cons_self]
    exact ih (fun x hx => h x (List.mem_cons_of_mem _ hx))

theorem frames_of_quiet (p p' : Port) (s : InstState) (outs : List Out) (h : Quiet p p' outs) : Frames p s p' outs := by
  obtain ⟨h1, h2, h3, h4⟩ := h
  refine ⟨?_, Or.inl ⟨sentFrames_nil_of outs h1, h2⟩, h3, h4⟩
  intro o ho b hb
  rw [h1 o ho] at hb; cases hb

/-- a (possibly empty) list of timer resets followed by one frame -/
theorem frames_one (p p' : Port) (s : InstState) (pre : List Out) (o : Out) (m : Msg)
    (hpre : ∀ x ∈ pre, x.frame = none) (ho : o.frame = some (encode m))
    (h1 : m.header.src = p.id) (h2 : m.header.domain = s.dflt.domain) (h3 : m.header.sdoId = s.dflt.sdoId)
    (h4 : ∀ n, p.seqOf m.body.type = some n → m.header.seq = n)
    (hs : p'.seqs = p.bump (some m.body.type)) (hid : p'.id = p.id) (hcfg : p'.cfg = p.cfg) :
    Frames p s p' (pre ++ [o]) := by
  refine ⟨?_, Or.inr ⟨encode m, ?_, ?_⟩, hid, hcfg⟩
  · intro x hx b hb
    rcases List.mem_append.1 hx with hh | hh
    · rw [hpre x hh] at hb; cases hb
    · simp only [List.mem_singleton] at hh
      subst hh
      rw [ho] at hb; cases hb
      exact ⟨m, rfl, h1, h2, h3, h4⟩
  · unfold sentFrames
    rw [List.filterMap_append]
    have : List.filterMap Out.frame pre = [] := sentFrames_nil_of pre hpre
    rw [this]
    simp only [List.filterMap_cons, ho, List.filterMap_nil, List.nil_append]
  · rw [hs]; unfold frameType; rw [encode_type]

theorem sendSync_frames (p p' : Port) (s : InstState) (outs : List Out) (h : p.sendSync s = .ok (p', outs)) :
    Frames p s p' outs := by
  rcases sendSync_shape p p' s outs h with ⟨_, hp, ho⟩ | ⟨_, hp, ho⟩
  · rw [ho, hp]
    exact frames_one p _ s [.reset .sync (.exact (intervalNs p.cfg.syncLog))] _ (msgSync s.dflt p.id p.syncSeq p.cfg.minorVersion)
      (by intro x hx; simp only [List.mem_singleton] at hx; subst hx; rfl) rfl rfl rfl rfl
      (by intro n hn; cases hn; rfl) rfl rfl rfl
  · rw [ho, hp]; exact frames_of_quiet _ _ _ _ (quiet_refl p)

theorem handleSyncTs_frames (p p' : Port) (s : InstState) (id ts : Nat) (outs : List Out)
    (h : p.handleSyncTs s id ts = .ok (p', outs)) : Frames p s p' outs := by
  rcases handleSyncTs_shape p p' s id ts outs h with ⟨_, hp, m, hm, ho⟩ | ⟨_, hp, ho⟩
  · obtain ⟨w, _, hmm⟩ := msgFollowUp_ok _ _ _ _ _ _ hm
    rw [ho, hp]
    have := frames_one p p s [] (.sendGeneral (encode m) false) m (by intro x hx; cases hx) rfl
      (by rw [hmm]; rfl) (by rw [hmm]; rfl) (by rw [hmm]; rfl) (by rw [hmm]; intro n hn; cases hn)
      (by rw [hmm]; rfl) rfl rfl
    exact this
  · rw [ho, hp]; exact frames_of_quiet _ _ _ _ (quiet_refl p)

theorem handleDelayReq_frames (p p' : Port) (s : InstState) (hd : Header) (ts : Nat) (outs : List Out)
    (hdom : hd.domain = s.dflt.domain) (hsdo : hd.sdoId = s.dflt.sdoId)
    (h : p.handleDelayReq hd ts = .ok (p', outs)) : Frames p s p' outs := by
  rcases handleDelayReq_shape p p' hd ts outs h with ⟨_, hp, m, hm, ho⟩ | ⟨_, hp, ho⟩
  · obtain ⟨w, _, hmm⟩ := msgDelayResp_ok _ _ _ _ _ hm
    rw [ho, hp]
    exact frames_one p p s [] (.sendGeneral (encode m) false) m (by intro x hx; cases hx) rfl
      (by rw [hmm]) (by rw [hmm]; exact hdom) (by rw [hmm]; exact hsdo) (by rw [hmm]; intro n hn; cases hn)
      (by rw [hmm]; rfl) rfl rfl
  · rw [ho, hp]; exact frames_of_quiet _ _ _ _ (quiet_refl p)

theorem handlePdelayReq_frames (p p' : Port) (s : InstState) (hd : Header) (ts : Nat) (outs : List Out)
    (h : p.handlePdelayReq s hd ts = .ok (p', outs)) : Frames p s p' outs := by
  obtain ⟨hp, m, hm, ho⟩ := handlePdelayReq_shape p p' s hd ts outs h
  obtain ⟨w, _, hmm⟩ := msgPdelayResp_ok _ _ _ _ _ _ hm
  rw [ho, hp]
  exact frames_one p p s [] (.sendEvent (.pdelayResp hd.seq hd.src) (encode m) true) m (by intro x hx; cases hx) rfl
    (by rw [hmm]; rfl) (by rw [hmm]; rfl) (by rw [hmm]; rfl) (by rw [hmm]; intro n hn; cases hn)
    (by rw [hmm]; rfl) rfl rfl

theorem handlePdelayRespTs_frames (p p' : Port) (s : InstState) (id : Nat) (req : PortId) (ts : Nat) (outs : List Out)
    (h : p.handlePdelayRespTs s id req ts = .ok (p', outs)) : Frames p s p' outs := by
  obtain ⟨hp, m, hm, ho⟩ := handlePdelayRespTs_shape p p' s id req ts outs h
  obtain ⟨w, _, hmm⟩ := msgPdelayRespFu_ok _ _ _ _ _ _ _ hm
  rw [ho, hp]
  exact frames_one p p s [] (.sendGeneral (encode m) true) m (by intro x hx; cases hx) rfl
    (by rw [hmm]; rfl) (by rw [hmm]; rfl) (by rw [hmm]; rfl) (by rw [hmm]; intro n hn; cases hn)
    (by rw [hmm]; rfl) rfl rfl

theorem sendDelayRequest_frames (p p' : Port) (s : InstState) (outs : List Out) (h : p.sendDelayRequest s = .ok (p', outs)) :
    Frames p s p' outs := by
  rcases sendDelayRequest_shape p p' s outs h with ⟨_, hp, ho⟩ | ⟨_, remote, sy, dl, last, _, hp, ho⟩ | ⟨_, _, hp, ho⟩
  · rw [ho, hp]
    exact frames_one p _ s [.reset .delay .rand] _ (msgPdelayReq s.dflt p.id p.pdelaySeq p.cfg.minorVersion)
      (by intro x hx; simp only [List.mem_singleton] at hx; subst hx; rfl) rfl rfl rfl rfl
      (by intro n hn; cases hn; rfl) rfl rfl rfl
  · rw [ho, hp]
    exact frames_one p _ s [.reset .delay .rand] _ (msgDelayReq s.dflt p.id p.delaySeq p.cfg.minorVersion)
      (by intro x hx; simp only [List.mem_singleton] at hx; subst hx; rfl) rfl rfl rfl rfl
      (by intro n hn; cases hn; rfl) rfl rfl rfl
  · rw [ho, hp]; exact frames_of_quiet _ _ _ _ (quiet_refl p)

theorem sendAnnounce_shape (p p' : Port) (s : InstState) (q q' : List FwdTlv) (loose : Bool) (outs : List Out)
    (h : p.sendAnnounce s q loose = .ok (p', outs, q')) :
    (p.st = .master ∧ p' = { p with annSeq := nextSeq p.annSeq } ∧ q' = (p.announceFwd s q loose).2 ∧
      outs = [.reset .announce (.exact (intervalNs p.cfg.announceLog)),
              .sendGeneral (encode (p.announceMsg s (p.announceFwd s q loose).1)) false]) ∨
    (p.st ≠ .master ∧ p' = p ∧ outs = [] ∧ q' = q) := by
  unfold Port.sendAnnounce at h
  split at h
  · rename_i hm
    simp only [Except.ok.injEq, Prod.mk.injEq] at h
    exact Or.inl ⟨hm, h.1.symm, h.2.2.symm, h.2.1.symm⟩
  · rename_i hm
    simp only [Except.ok.injEq, Prod.mk.injEq] at h
    exact Or.inr ⟨hm, h.1.symm, h.2.1.symm, h.2.2.symm⟩

theorem sendAnnounce_frames (p p' : Port) (s : InstState) (q q' : List FwdTlv) (loose : Bool) (outs : List Out)
    (h : p.sendAnnounce s q loose = .ok (p', outs, q')) : Frames p s p' outs := by
  rcases sendAnnounce_shape p p' s q q' loose outs h with ⟨_, hp, _, ho⟩ | ⟨_, hp, ho, _⟩
  · rw [ho, hp]
    exact frames_one p _ s [.reset .announce (.exact (intervalNs p.cfg.announceLog))] _ (p.announceMsg s (p.announceFwd s q loose).1)
      (by intro x hx; simp only [List.mem_singleton] at hx; subst hx; rfl) rfl rfl rfl rfl
      (by intro n hn; cases hn; rfl) rfl rfl rfl
  · rw [ho, hp]; exact frames_of_quiet _ _ _ _ (quiet_refl p)

/-! ### receive paths and timers -/

theorem announceRegister_quiet (p : Port) (m : Msg) (a : Ann) :
    Quiet p (p.announceRegister m a).1 (p.announceRegister m a).2 := by
  unfold Port.announceRegister
  have hf : ∀ o ∈ ((tlvs m.suffix).filter (fun t => tlvPropagates t.ty)).map (fun t => Out.forward t m.header.src), o.frame = none := by
    intro o ho
    simp only [List.mem_map] at ho
    obtain ⟨t, _, rfl⟩ := ho
    rfl
  split
  · simp only
    split
    · split
      · refine ⟨?_, rfl, rfl, rfl⟩
        intro o ho
        rcases List.mem_append.1 ho with h | h
        · simp only [List.mem_singleton] at h; subst h; rfl
        · exact hf o h
      · refine ⟨?_, rfl, rfl, rfl⟩
        intro o ho
        rcases List.mem_append.1 ho with h | h
        · rcases List.mem_append.1 h with h1 | h1
          · exact (setState_quiet _ _).1 o h1
          · simp only [List.mem_singleton] at h1; subst h1; rfl
        · exact hf o h
    · refine ⟨?_, rfl, rfl, rfl⟩
      intro o ho
      rcases List.mem_append.1 ho with h | h
      · simp only [List.mem_singleton] at h; subst h; rfl
      · exact hf o h
  · exact quiet_refl p

theorem handleAnnounce_quiet (p p' : Port) (s s' : InstState) (m : Msg) (ab : AnnounceBody) (outs : List Out)
    (hr : p.handleAnnounce s m ab = .ok (p', s', outs)) : Quiet p p' outs := by
  unfold Port.handleAnnounce at hr
  split at hr
  · cases hr
  · split at hr
    · simp only [Except.ok.injEq, Prod.mk.injEq] at hr
      rw [← hr.1, ← hr.2.2]; exact quiet_refl p
    · simp only [Except.ok.injEq, Prod.mk.injEq] at hr
      rw [← hr.1, ← hr.2.2]; exact announceRegister_quiet p m _

theorem handleGeneralInternal_quiet (p p' : Port) (s s' : InstState) (m : Msg) (outs : List Out)
    (hr : p.handleGeneralInternal s m = .ok (p', s', outs)) : Quiet p p' outs := by
  unfold Port.handleGeneralInternal at hr
  split at hr
  · exact handleAnnounce_quiet _ _ _ _ _ _ _ hr
  · obtain ⟨⟨q, o⟩, hx, he⟩ := map_ok _ _ _ hr
    simp only [Prod.mk.injEq] at he
    rw [← he.1, ← he.2.2]; exact handleFollowUp_quiet _ _ _ _ _ hx
  · obtain ⟨⟨q, o⟩, hx, he⟩ := map_ok _ _ _ hr
    simp only [Prod.mk.injEq] at he
    rw [← he.1, ← he.2.2]; exact handleDelayResp_quiet _ _ _ _ _ _ hx
  · obtain ⟨⟨q, o⟩, hx, he⟩ := map_ok _ _ _ hr
    simp only [Prod.mk.injEq] at he
    rw [← he.1, ← he.2.2]; exact handlePdelayRespFu_quiet _ _ _ _ _ _ hx
  · simp only [Except.ok.injEq, Prod.mk.injEq] at hr
    rw [← hr.1, ← hr.2.2]; exact quiet_refl p

/-- frames arriving on the general interface never make the port send -/
theorem handleGeneralReceive_quiet (p p' : Port) (s s' : InstState) (data : List UInt8) (outs : List Out)
    (hr : p.handleGeneralReceive s data = .ok (p', s', outs)) : Quiet p p' outs := by
  unfold Port.handleGeneralReceive at hr
  split at hr
  · simp only [Except.ok.injEq, Prod.mk.injEq] at hr
    rw [← hr.1, ← hr.2.2]; exact quiet_refl p
  · exact handleGeneralInternal_quiet _ _ _ _ _ _ hr

theorem parseAndFilter_spec (s : InstState) (data : List UInt8) (m : Msg) (h : parseAndFilter s data = some m) :
    decode data = .ok m ∧ m.header.sdoId = s.dflt.sdoId ∧ m.header.domain = s.dflt.domain := by
  unfold parseAndFilter at h
  split at h
  · cases h
  · split at h
    · cases h
    · rename_i m' hd
      split at h
      · rename_i hc
        cases h
        exact ⟨hd, hc.1, hc.2⟩
      · cases h

theorem handleEventReceive_frames (p p' : Port) (s s' : InstState) (data : List UInt8) (ts : Nat) (outs : List Out)
    (hr : p.handleEventReceive s data ts = .ok (p', s', outs)) : Frames p s p' outs := by
  unfold Port.handleEventReceive at hr
  split at hr
  · simp only [Except.ok.injEq, Prod.mk.injEq] at hr
    rw [← hr.1, ← hr.2.2]; exact frames_of_quiet _ _ _ _ (quiet_refl p)
  · rename_i m hpf
    obtain ⟨_, hsdo, hdom⟩ := parseAndFilter_spec s data m hpf
    split at hr
    · obtain ⟨⟨q, o⟩, hx, he⟩ := map_ok _ _ _ hr
      simp only [Prod.mk.injEq] at he
      rw [← he.1, ← he.2.2]; exact frames_of_quiet _ _ _ _ (handleSync_quiet _ _ _ _ _ _ hx)
    · obtain ⟨⟨q, o⟩, hx, he⟩ := map_ok _ _ _ hr
      simp only [Prod.mk.injEq] at he
      rw [← he.1, ← he.2.2]; exact handleDelayReq_frames _ _ s _ _ _ hdom hsdo hx
    · obtain ⟨⟨q, o⟩, hx, he⟩ := map_ok _ _ _ hr
      simp only [Prod.mk.injEq] at he
      rw [← he.1, ← he.2.2]; exact handlePdelayReq_frames _ _ _ _ _ _ hx
    · obtain ⟨⟨q, o⟩, hx, he⟩ := map_ok _ _ _ hr
      simp only [Prod.mk.injEq] at he
      rw [← he.1, ← he.2.2]; exact frames_of_quiet _ _ _ _ (handlePdelayResp_quiet _ _ _ _ _ _ _ hx)
    · exact frames_of_quiet _ _ _ _ (handleGeneralInternal_quiet _ _ _ _ _ _ hr)

theorem handleSendTimestamp_frames (p p' : Port) (s : InstState) (ctx : TsCtx) (ts : Nat) (outs : List Out)
    (hr : p.handleSendTimestamp s ctx ts = .ok (p', outs)) : Frames p s p' outs := by
  unfold Port.handleSendTimestamp at hr
  split at hr
  · exact handleSyncTs_frames _ _ _ _ _ _ hr
  · exact frames_of_quiet _ _ _ _ (handleDelayTs_quiet _ _ _ _ _ hr)
  · exact frames_of_quiet _ _ _ _ (handlePdelayTs_quiet _ _ _ _ _ hr)
  · exact handlePdelayRespTs_frames _ _ _ _ _ _ _ hr

theorem handleReceiptTimer_quiet (p : Port) (s : InstState) :
    Quiet p (p.handleReceiptTimer s).1 (p.handleReceiptTimer s).2 := by
  unfold Port.handleReceiptTimer
  have one : ∀ (k : Timer) (d : Dur), ∀ o ∈ [Out.reset k d], o.frame = none := by
    intro k d o ho; simp only [List.mem_singleton] at ho; subst ho; rfl
  have two : ∀ o ∈ [Out.reset .announce (.exact 0), Out.reset .sync (.exact 0)], o.frame = none := by
    intro o ho
    simp only [List.mem_cons, List.mem_nil_iff, or_false] at ho
    rcases ho with rfl | rfl <;> rfl
  split
  · exact ⟨one _ _, rfl, rfl, rfl⟩
  · split
    · split
      · refine ⟨?_, rfl, rfl, rfl⟩
        intro o ho
        rcases List.mem_append.1 ho with h | h
        · exact (setState_quiet _ _).1 o h
        · exact one _ _ o h
      · exact ⟨one _ _, rfl, rfl, rfl⟩
    · split
      · refine ⟨?_, rfl, rfl, rfl⟩
        intro o ho
        rcases List.mem_append.1 ho with h | h
        · exact (setState_quiet _ _).1 o h
        · exact two o h
      · exact ⟨two, rfl, rfl, rfl⟩

end Statime
