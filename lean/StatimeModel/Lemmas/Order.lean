import StatimeModel.Model.Bmca
/-
Order-theoretic lemmas about the data set comparison:
`lexCmp`, its swap law, and the key characterisation that makes the comparison a
strict weak order on GM-consistent data.
-/
namespace Statime

def DOrd.flip : DOrd → DOrd
  | .better => .worse | .betterTopo => .worseTopo | .error1 => .error1 | .error2 => .error2
  | .worseTopo => .betterTopo | .worse => .better

theorem lexCmp_swap (l : List (Nat × Nat)) : lexCmp (l.map Prod.swap) = (lexCmp l).swap := by
  induction l with
  | nil => rfl
  | cons p rest ih =>
    obtain ⟨a, b⟩ := p
    simp only [List.map_cons, Prod.swap, lexCmp]
    by_cases h1 : a < b
    · have h2 : ¬ b < a := by omega
      simp [h1, h2, Ordering.swap]
    · by_cases h2 : b < a
      · simp [h1, h2, Ordering.swap]
      · simp [h1, h2, ih]

/-- lexicographic comparison of two key lists (position-wise); smaller key = `.lt` -/
def keyCmp : List Int → List Int → Ordering
  | a :: as, b :: bs => if a < b then .lt else if b < a then .gt else keyCmp as bs
  | _, _ => .eq

theorem keyCmp_refl (k : List Int) : keyCmp k k = .eq := by
  induction k with
  | nil => rfl
  | cons a as ih => simp [keyCmp, ih]

theorem keyCmp_swap (x y : List Int) : keyCmp y x = (keyCmp x y).swap := by
  induction x generalizing y with
  | nil => cases y <;> rfl
  | cons a as ih =>
    cases y with
    | nil => rfl
    | cons b bs =>
      simp only [keyCmp]
      by_cases h1 : a < b
      · have h2 : ¬ b < a := by omega
        simp [h1, h2, Ordering.swap]
      · by_cases h2 : b < a
        · simp [h1, h2, Ordering.swap]
        · simp [h1, h2, ih]

/-- `≤` on keys is transitive (for keys of equal length) -/
theorem keyCmp_le_trans (x y z : List Int) (hxy : x.length = y.length) (hyz : y.length = z.length)
    (h1 : keyCmp x y ≠ .gt) (h2 : keyCmp y z ≠ .gt) : keyCmp x z ≠ .gt := by
  induction x generalizing y z with
  | nil => cases z <;> simp [keyCmp]
  | cons a as ih =>
    cases y with
    | nil => simp at hxy
    | cons b bs =>
      cases z with
      | nil => simp at hyz
      | cons c cs =>
        simp only [keyCmp] at h1 h2 ⊢
        simp only [List.length_cons, Nat.add_right_cancel_iff] at hxy hyz
        by_cases hab : a < b
        · by_cases hbc : b < c
          · have : a < c := by omega
            simp [this]
          · by_cases hcb : c < b
            · simp [hbc, hcb] at h2
            · have : a < c := by omega
              simp [this]
        · by_cases hba : b < a
          · simp [hab, hba] at h1
          · have hab' : a = b := by omega
            subst hab'
            by_cases hac : a < c
            · simp [hac]
            · by_cases hca : c < a
              · simp [hac, hca] at h2
              · simp only [hab, hba, if_false] at h1
                simp only [hac, hca, if_false] at h2 ⊢
                exact ih bs cs hxy hyz h1 h2

/-- strict part is transitive too -/
theorem keyCmp_lt_of_lt_of_le (x y z : List Int) (hxy : x.length = y.length) (hyz : y.length = z.length)
    (h1 : keyCmp x y = .lt) (h2 : keyCmp y z ≠ .gt) : keyCmp x z = .lt := by
  induction x generalizing y z with
  | nil => cases y <;> simp [keyCmp] at h1
  | cons a as ih =>
    cases y with
    | nil => simp at hxy
    | cons b bs =>
      cases z with
      | nil => simp at hyz
      | cons c cs =>
        simp only [keyCmp] at h1 h2 ⊢
        simp only [List.length_cons, Nat.add_right_cancel_iff] at hxy hyz
        by_cases hab : a < b
        · by_cases hbc : b < c
          · have : a < c := by omega
            simp [this]
          · by_cases hcb : c < b
            · simp [hbc, hcb] at h2
            · have : a < c := by omega
              simp [this]
        · by_cases hba : b < a
          · simp [hab, hba] at h1
          · have hab' : a = b := by omega
            subst hab'
            by_cases hac : a < c
            · simp [hac]
            · by_cases hca : c < a
              · simp [hac, hca] at h2
              · simp only [hab, hba, if_false] at h1
                simp only [hac, hca, if_false] at h2 ⊢
                exact ih bs cs hxy hyz h1 h2

end Statime

namespace Statime

theorem keyCmp_append (k1 k2 r1 r2 : List Int) (h : k1.length = k2.length) :
    keyCmp (k1 ++ r1) (k2 ++ r2) = (match keyCmp k1 k2 with | .eq => keyCmp r1 r2 | o => o) := by
  induction k1 generalizing k2 with
  | nil =>
    cases k2 with
    | nil => simp [keyCmp]
    | cons b bs => simp at h
  | cons a as ih =>
    cases k2 with
    | nil => simp at h
    | cons b bs =>
      simp only [List.length_cons, Nat.add_right_cancel_iff] at h
      simp only [List.cons_append, keyCmp]
      by_cases h1 : a < b
      · simp [h1]
      · by_cases h2 : b < a
        · simp [h1, h2]
        · simp only [h1, h2, if_false]
          exact ih bs h

theorem lexCmp_eq_keyCmp (l : List (Nat × Nat)) :
    lexCmp l = keyCmp (l.map (fun p => (p.1 : Int))) (l.map (fun p => (p.2 : Int))) := by
  induction l with
  | nil => rfl
  | cons p rest ih =>
    obtain ⟨a, b⟩ := p
    simp only [lexCmp, List.map_cons, keyCmp, ih]
    by_cases h1 : a < b
    · have : (a : Int) < b := by omega
      simp [h1, this]
    · by_cases h2 : b < a
      · have h1' : ¬ (a : Int) < b := by omega
        have h2' : (b : Int) < a := by omega
        simp [h1, h2, h1', h2']
      · have h1' : ¬ (a : Int) < b := by omega
        have h2' : ¬ (b : Int) < a := by omega
        simp [h1, h2, h1', h2']

/-- the grandmaster part of the comparison key -/
def CmpDS.gmKey (d : CmpDS) : List Int := [d.gmP1, d.gmClass, d.gmAcc, d.gmVar, d.gmP2, d.gmId]
/-- the topology part -/
def CmpDS.topoKey (d : CmpDS) : List Int := [d.steps, d.sender, d.receiver.port]
def CmpDS.key (d : CmpDS) : List Int := d.gmKey ++ d.topoKey

/-- the receiver is not the sender (own Announces are never stored) -/
def CmpDS.NoSelf (d : CmpDS) : Prop := d.receiver.clock ≠ d.sender
/-- two data sets naming the same grandmaster identity agree on its attributes -/
def CmpDS.GMCons (a b : CmpDS) : Prop :=
  a.gmId = b.gmId → a.gmP1 = b.gmP1 ∧ a.gmClass = b.gmClass ∧ a.gmAcc = b.gmAcc ∧ a.gmVar = b.gmVar ∧ a.gmP2 = b.gmP2

/-- **Key characterisation.** On GM-consistent data sets whose receivers are not their
senders, `as_ordering ∘ compare` is the lexicographic order on
(priority1, class, accuracy, variance, priority2, gmIdentity, stepsRemoved, sender, receiving port),
smaller = better. -/
theorem compare_asOrdering_key (a b : CmpDS) (ha : a.NoSelf) (hb : b.NoSelf) (hc : a.GMCons b) :
    (a.compare b).asOrdering = (keyCmp a.key b.key).swap := by
  unfold CmpDS.compare
  by_cases hg : a.gmId = b.gmId
  · obtain ⟨e1, e2, e3, e4, e5⟩ := hc hg
    rw [if_pos hg]
    have hk : keyCmp a.gmKey b.gmKey = .eq := by
      simp [CmpDS.gmKey, keyCmp, e1, e2, e3, e4, e5, hg]
    unfold CmpDS.key
    rw [keyCmp_append _ _ _ _ (by simp [CmpDS.gmKey]), hk]
    unfold CmpDS.NoSelf at ha hb
    simp only [compareSame, CmpDS.topoKey, keyCmp, lexCmp]
    by_cases h1 : (a.steps : Int) - b.steps ≥ 2
    · have : ¬ ((a.steps : Int) < b.steps) := by omega
      have : (b.steps : Int) < a.steps := by omega
      simp [*, DOrd.asOrdering, Ordering.swap]
    · by_cases h2 : (a.steps : Int) - b.steps ≤ -2
      · have : (a.steps : Int) < b.steps := by omega
        simp [*, DOrd.asOrdering, Ordering.swap]
      · by_cases h3 : (a.steps : Int) - b.steps = 1
        · have s1 : ¬ ((a.steps : Int) < b.steps) := by omega
          have s2 : (b.steps : Int) < a.steps := by omega
          simp only [h1, h2, h3, if_true, if_false, s1, s2]
          by_cases r1 : a.receiver.clock < a.sender
          · simp [r1, DOrd.asOrdering, Ordering.swap]
          · have : ¬ a.receiver.clock = a.sender := ha
            simp [r1, this, DOrd.asOrdering, Ordering.swap]
        · by_cases h4 : (a.steps : Int) - b.steps = -1
          · have s1 : (a.steps : Int) < b.steps := by omega
            simp only [h1, h2, h3, h4, if_true, if_false, s1]
            by_cases r1 : b.receiver.clock < b.sender
            · simp [r1, DOrd.asOrdering, Ordering.swap]
            · have : ¬ b.receiver.clock = b.sender := hb
              simp [r1, this, DOrd.asOrdering, Ordering.swap]
          · have s0 : (a.steps : Int) = b.steps := by omega
            have s1 : ¬ ((a.steps : Int) < b.steps) := by omega
            have s2 : ¬ ((b.steps : Int) < a.steps) := by omega
            simp only [h1, h2, h3, h4, if_false, s1, s2]
            by_cases q1 : a.sender < b.sender
            · have : (a.sender : Int) < b.sender := by omega
              simp [q1, this, DOrd.asOrdering, Ordering.swap]
            · by_cases q2 : b.sender < a.sender
              · have q1' : ¬ (a.sender : Int) < b.sender := by omega
                have q2' : (b.sender : Int) < a.sender := by omega
                simp [q1, q2, q1', q2', DOrd.asOrdering, Ordering.swap]
              · have q1' : ¬ (a.sender : Int) < b.sender := by omega
                have q2' : ¬ (b.sender : Int) < a.sender := by omega
                simp only [q1, q2, q1', q2', if_false]
                by_cases p1 : a.receiver.port < b.receiver.port
                · have : (a.receiver.port : Int) < b.receiver.port := by omega
                  simp [p1, this, DOrd.asOrdering, Ordering.swap]
                · by_cases p2 : b.receiver.port < a.receiver.port
                  · have p1' : ¬ (a.receiver.port : Int) < b.receiver.port := by omega
                    have p2' : (b.receiver.port : Int) < a.receiver.port := by omega
                    simp [p1, p2, p1', p2', DOrd.asOrdering, Ordering.swap]
                  · have p1' : ¬ (a.receiver.port : Int) < b.receiver.port := by omega
                    have p2' : ¬ (b.receiver.port : Int) < a.receiver.port := by omega
                    simp [p1, p2, p1', p2', DOrd.asOrdering, Ordering.swap]
  · rw [if_neg hg]
    unfold CmpDS.key
    rw [keyCmp_append _ _ _ _ (by simp [CmpDS.gmKey])]
    have hl : compareDifferent a b = (match keyCmp a.gmKey b.gmKey with
        | .lt => some DOrd.better | .gt => some DOrd.worse | .eq => none) := by
      unfold compareDifferent
      rw [lexCmp_eq_keyCmp]
      rfl
    rw [hl]
    -- the gm keys differ in the last component, so keyCmp is not eq
    have hne : keyCmp a.gmKey b.gmKey ≠ .eq := by
      have hsplit : ∀ d : CmpDS, d.gmKey = [(d.gmP1 : Int), d.gmClass, d.gmAcc, d.gmVar, d.gmP2] ++ [(d.gmId : Int)] := by
        intro d; rfl
      rw [hsplit a, hsplit b, keyCmp_append _ _ _ _ (by simp)]
      have hx : keyCmp [(a.gmId : Int)] [(b.gmId : Int)] ≠ .eq := by
        simp only [keyCmp]
        by_cases h1 : (a.gmId : Int) < b.gmId
        · simp [h1]
        · have h2 : (b.gmId : Int) < a.gmId := by omega
          simp [h1, h2]
      cases h5 : keyCmp [(a.gmP1 : Int), a.gmClass, a.gmAcc, a.gmVar, a.gmP2] [(b.gmP1 : Int), b.gmClass, b.gmAcc, b.gmVar, b.gmP2] with
      | lt => simp
      | gt => simp
      | eq => simpa using hx
    cases hk : keyCmp a.gmKey b.gmKey with
    | lt => simp [DOrd.asOrdering, Ordering.swap]
    | gt => simp [DOrd.asOrdering, Ordering.swap]
    | eq => exact absurd hk hne

end Statime
