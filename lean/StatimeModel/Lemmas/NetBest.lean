import StatimeModel.Lemmas.NetOrder
/-
Towards "the best clock is the only grandmaster": fixed points of *plain* networks — every instance
alive and relaying (clockClass ≥ 128, not slave-only, no master-only port), all ports attached, distinct
clock identities, at most one port of an instance per segment, stepsRemoved below the cut-off.
-/
namespace Statime.Net
open Statime

structure Plain (net : Net) : Prop where
  relay : ∀ (x : Nat) (c : NodeCfg) (s : NodeSt), net[x]? = some (c, s) →
    c.alive = true ∧ c.slaveOnly = false ∧ 128 ≤ c.cls ∧ c.ports ≠ [] ∧ ∀ p ∈ c.ports, p.masterOnly = false ∧ p.attached = true
  ids : ∀ (x y : Nat) (cx : NodeCfg) (sx : NodeSt) (cy : NodeCfg) (sy : NodeSt),
    net[x]? = some (cx, sx) → net[y]? = some (cy, sy) → cx.id = cy.id → x = y
  simple : ∀ (x : Nat) (c : NodeCfg) (s : NodeSt) (i j : Nat) (pi pj : PortCfg),
    net[x]? = some (c, s) → c.ports[i]? = some pi → c.ports[j]? = some pj → pi.seg = pj.seg → i = j
  small : ∀ (x : Nat) (c : NodeCfg) (s : NodeSt), net[x]? = some (c, s) → s.steps < STEPS_CUTOFF

/-- what port (`x`, `j`) hears comes from a Master port of another instance on its segment, and is qualified -/
theorem heard_from_other (net : Net) (hp : Plain net) (x : Nat) (c : NodeCfg) (s : NodeSt) (j : Nat) (pc : PortCfg)
    (hx : net[x]? = some (c, s)) (hj : c.ports[j]? = some pc) (a : Adv) (ha : a ∈ advsOn net pc.seg x j) :
    ∃ (n : Nat) (cn : NodeCfg) (sn : NodeSt) (k : Nat) (pcn : PortCfg), n ≠ x ∧ net[n]? = some (cn, sn) ∧
      cn.ports[k]? = some pcn ∧ pcn.seg = pc.seg ∧ sn.ports.getD k .listening = .master ∧
      a = { gm := sn.gm, steps := sn.steps, sender := cn.id, senderPort := k + 1 } ∧ a.sender ≠ c.id ∧ qualified c a = true := by
  obtain ⟨n, cn, sn, k, pcn, hn, _, hk, hseg, _, hm, hne, hae⟩ := advsOn_spec net pc.seg x j a ha
  have hnx : n ≠ x := by
    intro e
    subst e
    rw [hx] at hn
    simp only [Option.some.injEq, Prod.mk.injEq] at hn
    obtain ⟨rfl, rfl⟩ := hn
    have := hp.simple n c s k j pcn pc hx hk hj hseg
    exact hne ⟨rfl, this⟩
  have hid : cn.id ≠ c.id := fun e => hnx (hp.ids n x cn sn c s hn hx e)
  refine ⟨n, cn, sn, k, pcn, hnx, hn, hk, hseg, hm, hae, by rw [hae]; exact hid, ?_⟩
  unfold qualified
  rw [hae]
  simp only [Bool.and_eq_true, bne_iff_ne, ne_eq, decide_eq_true_eq]
  exact ⟨hid, hp.small n cn sn hn⟩

/-- in a plain network every heard advertisement is qualified, so `Erbest` is the best of all that is heard -/
theorem erbest_of_heard (net : Net) (hp : Plain net) (x : Nat) (c : NodeCfg) (s : NodeSt) (j : Nat) (pc : PortCfg)
    (hx : net[x]? = some (c, s)) (hj : c.ports[j]? = some pc) :
    (erbestsOf net x c)[j]? = some (bestOf c.id (j + 1) (advsOn net pc.seg x j)) := by
  unfold erbestsOf
  simp only [List.getElem?_map, List.getElem?_zipIdx, hj, Option.map_some, Nat.zero_add]
  have hatt : pc.attached = true := ((hp.relay x c s hx).2.2.2.2 pc (List.mem_of_getElem? hj)).2
  simp only [hatt, Bool.not_true, Bool.false_eq_true, if_false, Option.some.injEq]
  congr 1
  apply List.filter_eq_self.mpr
  intro a ha
  obtain ⟨_, _, _, _, _, _, _, _, _, _, _, _, hq⟩ := heard_from_other net hp x c s j pc hx hj a ha
  exact hq

theorem bestOf_isSome (rc rp : Nat) (l : List Adv) (h : l ≠ []) : (bestOf rc rp l).isSome = true := by
  cases l with
  | nil => exact absurd rfl h
  | cons a rest => simp [bestOf]

theorem erbestsOf_length (net : Net) (x : Nat) (c : NodeCfg) : (erbestsOf net x c).length = c.ports.length := by
  unfold erbestsOf; simp

/-- in a fixed point of a plain network no port is Listening, and every port has a decision -/
theorem all_decided (net : Net) (hp : Plain net) (x : Nat) (c : NodeCfg) (s : NodeSt) (h : StableAt net x c s)
    (j : Nat) (st : PSt) (hj : s.ports[j]? = some st) :
    st ≠ .listening ∧ ∃ d : Dec, (decsOf c s (erbestsOf net x c))[j]? = some (some d) ∧ portOf net x c s (some d) j = st := by
  obtain ⟨d, hd, hpo⟩ := port_decision net x c s h j st hj
  obtain ⟨hx, _, _⟩ := h
  obtain ⟨_, hso, _, _, _⟩ := hp.relay x c s hx
  cases d with
  | none =>
    exfalso
    obtain ⟨e, he, hde⟩ := decsOf_get c s _ j _ hd
    have hjl : j < c.ports.length := by
      rw [← erbestsOf_length net x c]
      rcases Nat.lt_or_ge j (erbestsOf net x c).length with h1 | h1
      · exact h1
      · rw [List.getElem?_eq_none h1] at he; cases he
    have hpc : c.ports[j]? = some c.ports[j] := List.getElem?_eq_getElem hjl
    split at hde
    · rename_i hl
      have hen : e = none := by cases e <;> simp_all
      subst hen
      unfold portOf at hpo
      simp only [hso, Bool.false_eq_true, false_or] at hpo
      split at hpo
      · -- it hears something: then Erbest exists
        rename_i hh
        unfold hears at hh
        simp only [Bool.and_eq_true, Bool.not_eq_true'] at hh
        have hgd : c.ports.getD j default = c.ports[j] := by simp [List.getD, hpc]
        rw [hgd] at hh
        have hne : advsOn net c.ports[j].seg x j ≠ [] := by
          intro e; rw [e] at hh; simp at hh
        have := erbest_of_heard net hp x c s j c.ports[j] hx hpc
        rw [he] at this
        simp only [Option.some.injEq] at this
        have hs := bestOf_isSome c.id (j + 1) _ hne
        rw [← this] at hs
        cases hs
      · -- it hears nothing: the re-evaluation makes it Master, but it is Listening
        have : s.ports.getD j .listening = st := by simp [List.getD, hj]
        rw [this] at hl
        rw [hl.1] at hpo
        cases hpo
    · cases hde
  | some d' =>
    refine ⟨?_, d', hd, hpo⟩
    intro hst
    rw [hst] at hpo
    unfold portOf at hpo
    cases d' with
    | s a => cases hpo
    | p => cases hpo
    | gm => simp only [hso, Bool.false_eq_true, if_false] at hpo; split at hpo <;> cases hpo
    | m3 => simp only [hso, Bool.false_eq_true, if_false] at hpo; split at hpo <;> cases hpo

/-- high class, `Ebest` better than the instance's own data set: the port `Ebest` was heard on decides Slave -/
theorem ebest_port_slave (c : NodeCfg) (s : NodeSt) (erbests : List (Option Adv)) (g : Adv) (gj : Nat)
    (hcls : ¬(1 ≤ c.cls ∧ c.cls ≤ 127)) (hg : ebestOf c erbests = some (g, gj))
    (hw : ((ownCmpDS c).compare (g.cmpDS c.id (gj + 1))).asOrdering = .lt) :
    (decsOf c s erbests)[gj]? = some (some (Dec.s g)) := by
  have hmem := ebestOf_mem c erbests (g, gj) hg
  have hgj := candsOf_spec c erbests g gj hmem
  unfold decsOf
  simp only [List.getElem?_map, List.getElem?_zipIdx, hgj, Option.map_some, Nat.zero_add]
  have : ¬(s.ports.getD gj .listening = .listening ∧ (some g).isNone = true) := by simp
  simp only [this, if_false, Option.some.injEq]
  unfold Net.decide
  simp only [hcls, if_false, hg, hw]
  simp

/-- a decision other than M1 / M2 of a high-class instance means `Ebest` exists and beats the own data set -/
theorem decide_not_gm (c : NodeCfg) (eb : Option (Adv × Nat)) (e : Option Adv) (j : Nat)
    (hcls : ¬(1 ≤ c.cls ∧ c.cls ≤ 127)) (h : Net.decide c eb e j ≠ .gm) :
    ∃ (g : Adv) (gj : Nat), eb = some (g, gj) ∧ ((ownCmpDS c).compare (g.cmpDS c.id (gj + 1))).asOrdering = .lt := by
  unfold Net.decide at h
  simp only [hcls, if_false] at h
  cases eb with
  | none => simp at h
  | some v =>
    obtain ⟨g, gj⟩ := v
    refine ⟨g, gj, rfl, ?_⟩
    simp only at h
    cases hk : ((ownCmpDS c).compare (g.cmpDS c.id (gj + 1))).asOrdering with
    | lt => rfl
    | eq => rw [hk] at h; simp at h
    | gt => rw [hk] at h; simp at h

theorem state_ports_length (net : Net) (x : Nat) (c : NodeCfg) (s : NodeSt) (h : StableAt net x c s) :
    s.ports.length = c.ports.length := by
  obtain ⟨hx, ha, hs⟩ := h
  have := stepNode_ports net x c s hx ha
  rw [hs] at this
  rw [this]
  simp [decsOf, erbestsOf_length]

/-- in a fixed point of a plain network, an instance without a Slave port is in the grandmaster state -/
theorem no_slave_is_gm (net : Net) (hp : Plain net) (x : Nat) (c : NodeCfg) (s : NodeSt) (h : StableAt net x c s)
    (hns : ¬ ∃ j : Nat, s.ports[j]? = some PSt.slave) : IsGm c s := by
  have hx := h.1
  obtain ⟨ha, _, hcls, hne, _⟩ := hp.relay x c s hx
  have hcl : ¬(1 ≤ c.cls ∧ c.cls ≤ 127) := by omega
  have hlen := state_ports_length net x c s h
  have h0 : 0 < s.ports.length := by
    rw [hlen]; exact List.length_pos_iff.mpr hne
  have hj : s.ports[0]? = some s.ports[0] := List.getElem?_eq_getElem h0
  obtain ⟨_, d, hd, hpo⟩ := all_decided net hp x c s h 0 _ hj
  have hs := h.2.2
  have he := stepNode_eq net x c s hx ha
  rw [hs] at he
  have hports := stepNode_ports net x c s hx ha
  rw [hs] at hports
  -- any Slave decision would show as a Slave port
  have nos : slaveDec (decsOf c s (erbestsOf net x c)) = none := by
    cases hsd : slaveDec (decsOf c s (erbestsOf net x c)) with
    | none => rfl
    | some b =>
      exfalso
      obtain ⟨j, hjb⟩ := slaveDec_some _ b hsd
      apply hns
      refine ⟨j, ?_⟩
      rw [hports]
      simp only [List.getElem?_map, List.getElem?_zipIdx, hjb, Option.map_some, Nat.zero_add]
      rfl
  -- the decision on port 0 is M1 / M2: anything else needs an Ebest that beats us, whose port would be Slave
  have hgm : d = .gm := by
    obtain ⟨e, _, hde⟩ := decsOf_get c s _ 0 _ hd
    split at hde
    · cases hde
    · simp only [Option.some.injEq] at hde
      cases hdd : d with
      | gm => rfl
      | _ =>
        exfalso
        have hneq : Net.decide c (ebestOf c (erbestsOf net x c)) e 0 ≠ .gm := by rw [← hde, hdd]; simp
        obtain ⟨g, gj, hg, hw⟩ := decide_not_gm c _ e 0 hcl hneq
        have := ebest_port_slave c s _ g gj hcl hg hw
        obtain ⟨b, hb⟩ := slaveDec_of_mem _ gj g this
        rw [nos] at hb; cases hb
  subst hgm
  rw [nos] at he
  have hany : (decsOf c s (erbestsOf net x c)).any (· = some .gm) = true := by
    rw [List.any_eq_true]
    exact ⟨some .gm, List.mem_of_getElem? hd, by simp⟩
  simp only [hany, if_true] at he
  unfold IsGm
  rw [he]
  exact ⟨rfl, rfl, rfl⟩

/-- every instance's grandmaster attributes are the own attributes of some instance of the network -/
theorem gm_is_someones_own (net : Net) (hst : Stable net) (hp : Plain net) (x : Nat) (c : NodeCfg) (s : NodeSt)
    (hx : net[x]? = some (c, s)) : ∃ (r : Nat) (cr : NodeCfg) (sr : NodeSt), net[r]? = some (cr, sr) ∧ s.gm = cr.ownGm := by
  have ha := (hp.relay x c s hx).1
  by_cases hsl : ∃ j : Nat, s.ports[j]? = some PSt.slave
  · obtain ⟨r, cr, sr, hr, _, _, hg, _⟩ := slave_reaches_live_grandmaster net hst s.steps x c s hx ha hsl rfl
    exact ⟨r, cr, sr, hr, hg⟩
  · have := no_slave_is_gm net hp x c s ⟨hx, ha, hst x c s hx ha⟩ hsl
    exact ⟨x, c, s, hx, this.2.1⟩

def Gm.key (g : Gm) : List Int := [g.p1, g.cls, g.acc, g.var, g.p2, g.id]

theorem cmpDS_gmKey (a : Adv) (rc rp : Nat) : (a.cmpDS rc rp).gmKey = a.gm.key := rfl

theorem ownCmpDS_gmKey (c : NodeCfg) : (ownCmpDS c).gmKey = c.ownGm.key := rfl

/-- keys that compare equal are equal (same length) -/
theorem keyCmp_eq_imp (x y : List Int) (hl : x.length = y.length) (h : keyCmp x y = .eq) : x = y := by
  induction x generalizing y with
  | nil => cases y with
    | nil => rfl
    | cons b bs => simp at hl
  | cons a as ih =>
    cases y with
    | nil => simp at hl
    | cons b bs =>
      simp only [keyCmp] at h
      by_cases h1 : a < b
      · simp [h1] at h
      · by_cases h2 : b < a
        · simp [h1, h2] at h
        · simp only [h1, h2, if_false] at h
          have : a = b := by omega
          subst this
          rw [ih bs (by simpa using hl) h]

theorem gm_key_inj (a b : Gm) (h : a.key = b.key) : a = b := by
  unfold Gm.key at h
  simp only [List.cons.injEq, Int.natCast_inj, and_true] at h
  obtain ⟨h1, h2, h3, h4, h5, h6⟩ := h
  cases a; cases b; simp_all

/-- the network is grandmaster-consistent: equal grandmaster identity, equal attributes -/
theorem gm_consistent (net : Net) (hst : Stable net) (hp : Plain net) (x y : Nat) (cx : NodeCfg) (sx : NodeSt)
    (cy : NodeCfg) (sy : NodeSt) (hx : net[x]? = some (cx, sx)) (hy : net[y]? = some (cy, sy))
    (h : sx.gm.id = sy.gm.id) : sx.gm = sy.gm := by
  obtain ⟨r, cr, sr, hr, hgr⟩ := gm_is_someones_own net hst hp x cx sx hx
  obtain ⟨r', cr', sr', hr', hgr'⟩ := gm_is_someones_own net hst hp y cy sy hy
  rw [hgr, hgr'] at h ⊢
  have : cr.id = cr'.id := h
  have e := hp.ids r r' cr sr cr' sr' hr hr' this
  subst e
  rw [hr] at hr'
  simp only [Option.some.injEq, Prod.mk.injEq] at hr'
  rw [hr'.1]

/-- what port (`x`, `j`) of a plain fixed point hears is good data for the comparison -/
theorem heard_good (net : Net) (hst : Stable net) (hp : Plain net) (x : Nat) (c : NodeCfg) (s : NodeSt) (j : Nat)
    (pc : PortCfg) (hx : net[x]? = some (c, s)) (hj : c.ports[j]? = some pc) :
    GoodAdvs c.id (advsOn net pc.seg x j) := by
  constructor
  · intro a ha
    obtain ⟨_, _, _, _, _, _, _, _, _, _, _, hne, _⟩ := heard_from_other net hp x c s j pc hx hj a ha
    exact hne
  · intro a ha b hb hid
    obtain ⟨n, cn, sn, _, _, _, hn, _, _, _, hae, _, _⟩ := heard_from_other net hp x c s j pc hx hj a ha
    obtain ⟨n', cn', sn', _, _, _, hn', _, _, _, hbe, _, _⟩ := heard_from_other net hp x c s j pc hx hj b hb
    rw [hae, hbe] at hid ⊢
    exact gm_consistent net hst hp n n' cn sn cn' sn' hn hn' hid

/-- different grandmaster identities: the comparison is decided by the grandmaster attributes alone -/
theorem compare_different_gmKey (a b : CmpDS) (hg : a.gmId ≠ b.gmId) :
    (a.compare b).asOrdering = (keyCmp a.gmKey b.gmKey).swap ∧ keyCmp a.gmKey b.gmKey ≠ .eq := by
  have hne : keyCmp a.gmKey b.gmKey ≠ .eq := by
    intro he
    have := keyCmp_eq_imp _ _ (by simp [CmpDS.gmKey]) he
    simp only [CmpDS.gmKey, List.cons.injEq, Int.natCast_inj, and_true] at this
    exact hg this.2.2.2.2.2
  refine ⟨?_, hne⟩
  unfold CmpDS.compare
  rw [if_neg hg]
  have hl : compareDifferent a b = (match keyCmp a.gmKey b.gmKey with
      | .lt => some DOrd.better | .gt => some DOrd.worse | .eq => none) := by
    unfold compareDifferent
    rw [lexCmp_eq_keyCmp]
    rfl
  rw [hl]
  cases hk : keyCmp a.gmKey b.gmKey with
  | lt => simp [DOrd.asOrdering, Ordering.swap]
  | gt => simp [DOrd.asOrdering, Ordering.swap]
  | eq => exact absurd hk hne

/-- a rank-minimal instance: no instance of the network has a better own data set -/
def IsBest (net : Net) (b : Nat) (cb : NodeCfg) (sb : NodeSt) : Prop :=
  net[b]? = some (cb, sb) ∧
  ∀ (y : Nat) (cy : NodeCfg) (sy : NodeSt), net[y]? = some (cy, sy) → keyCmp cb.ownGm.key cy.ownGm.key ≠ .gt

theorem ownGm_key_length (c : NodeCfg) : c.ownGm.key.length = 6 := rfl

/-- the best instance's own data set beats every other instance's strictly -/
theorem best_strict (net : Net) (hp : Plain net) (b : Nat) (cb : NodeCfg) (sb : NodeSt) (hb : IsBest net b cb sb)
    (y : Nat) (cy : NodeCfg) (sy : NodeSt) (hy : net[y]? = some (cy, sy)) (hne : y ≠ b) :
    keyCmp cb.ownGm.key cy.ownGm.key = .lt := by
  cases hk : keyCmp cb.ownGm.key cy.ownGm.key with
  | lt => rfl
  | gt => exact absurd hk (hb.2 y cy sy hy)
  | eq =>
    exfalso
    have := keyCmp_eq_imp cb.ownGm.key cy.ownGm.key (by rw [ownGm_key_length, ownGm_key_length]) hk
    have := gm_key_inj _ _ this
    have hid : cb.id = cy.id := by
      have : cb.ownGm.id = cy.ownGm.id := by rw [this]
      exact this
    exact hne (hp.ids y b cy sy cb sb hy hb.1 hid.symm)

/-- an advertisement naming the instance itself as grandmaster, at least one step away, never beats the own data set -/
theorem own_vs_same_gm (c : NodeCfg) (g : Adv) (rp : Nat) (hid : g.gm.id = c.id) (hs : 1 ≤ g.steps) :
    ((ownCmpDS c).compare (g.cmpDS c.id rp)).asOrdering ≠ .lt := by
  unfold CmpDS.compare
  have e : (ownCmpDS c).gmId = (g.cmpDS c.id rp).gmId := by simp [ownCmpDS, Adv.cmpDS, hid]
  rw [if_pos e]
  have h0 : ((ownCmpDS c).steps : Int) = 0 := rfl
  have h1 : ((g.cmpDS c.id rp).steps : Int) = (g.steps : Int) := rfl
  have hs' : (1 : Int) ≤ (g.steps : Int) := by omega
  unfold compareSame
  simp only []
  split
  · rename_i hh; rw [h0, h1] at hh; omega
  · split
    · simp [DOrd.asOrdering]
    · split
      · rename_i hh; rw [h0, h1] at hh; omega
      · split
        · split
          · simp [DOrd.asOrdering]
          · split <;> simp [DOrd.asOrdering]
        · rename_i n1 n2 n3 n4
          rw [h0, h1] at n1 n2 n3 n4
          omega

/-- a slave decision on port `j`: the decision, its source and the data set it installs -/
theorem slave_port_source (net : Net) (x : Nat) (c : NodeCfg) (s : NodeSt) (h : StableAt net x c s)
    (j : Nat) (hj : s.ports[j]? = some PSt.slave) :
    ∃ (g : Adv) (pc : PortCfg), ebestOf c (erbestsOf net x c) = some (g, j) ∧ c.ports[j]? = some pc ∧
      g ∈ advsOn net pc.seg x j ∧ s.gm = g.gm ∧ s.steps = g.steps + 1 := by
  obtain ⟨d, hd, hpo⟩ := port_decision net x c s h j .slave hj
  obtain ⟨g, rfl⟩ := portOf_slave net x c s d j hpo
  obtain ⟨e, _, hde⟩ := decsOf_get c s _ j _ hd
  split at hde
  · cases hde
  · simp only [Option.some.injEq] at hde
    obtain ⟨heb, _⟩ := decide_slave c _ e j g hde.symm
    obtain ⟨pc, hpc, _, hmem, _⟩ := slave_decision_source net x c s j g hd
    -- the data set installed is that of the (only) slave decision
    obtain ⟨b, hb⟩ := slaveDec_of_mem _ j g hd
    obtain ⟨j', hj'⟩ := slaveDec_some _ b hb
    obtain ⟨e', _, hde'⟩ := decsOf_get c s _ j' _ hj'
    have hbg : b = g := by
      split at hde'
      · cases hde'
      · simp only [Option.some.injEq] at hde'
        obtain ⟨heb', _⟩ := decide_slave c _ e' j' b hde'.symm
        rw [heb] at heb'
        simp only [Option.some.injEq, Prod.mk.injEq] at heb'
        exact heb'.1.symm
    subst hbg
    obtain ⟨hx, ha, hs⟩ := h
    have he := stepNode_eq net x c s hx ha
    rw [hs, hb] at he
    exact ⟨b, pc, heb, hpc, hmem, by rw [he], by rw [he]⟩

/-- **The best instance is in the grandmaster state.** -/
theorem best_is_gm (net : Net) (hst : Stable net) (hp : Plain net) (b : Nat) (cb : NodeCfg) (sb : NodeSt)
    (hb : IsBest net b cb sb) : IsGm cb sb := by
  have hx := hb.1
  obtain ⟨ha, _, hcls, _, _⟩ := hp.relay b cb sb hx
  have hsb : StableAt net b cb sb := ⟨hx, ha, hst b cb sb hx ha⟩
  apply no_slave_is_gm net hp b cb sb hsb
  rintro ⟨j, hj⟩
  obtain ⟨g, pc, heb, hpc, hmem, _, _⟩ := slave_port_source net b cb sb hsb j hj
  -- the own data set is worse than g …
  obtain ⟨d, hd, hpo⟩ := port_decision net b cb sb hsb j .slave hj
  obtain ⟨g0, rfl⟩ := portOf_slave net b cb sb d j hpo
  obtain ⟨e, _, hde⟩ := decsOf_get cb sb _ j _ hd
  have hcl : ¬(1 ≤ cb.cls ∧ cb.cls ≤ 127) := by omega
  have hw : ((ownCmpDS cb).compare (g.cmpDS cb.id (j + 1))).asOrdering = .lt := by
    split at hde
    · cases hde
    · simp only [Option.some.injEq] at hde
      have hneq : Net.decide cb (ebestOf cb (erbestsOf net b cb)) e j ≠ .gm := by rw [← hde]; simp
      obtain ⟨g', gj, hg', hw⟩ := decide_not_gm cb _ e j hcl hneq
      rw [heb] at hg'
      simp only [Option.some.injEq, Prod.mk.injEq] at hg'
      rw [← hg'.1, ← hg'.2] at hw
      exact hw
  -- … but g carries some instance's own data set, and none beats the best
  obtain ⟨n, cn, sn, k, _, hnb, hn, _, _, hm, hge, _, _⟩ := heard_from_other net hp b cb sb j pc hx hpc g hmem
  obtain ⟨r, cr, sr, hr, hgr⟩ := gm_is_someones_own net hst hp n cn sn hn
  have hgg : g.gm = cr.ownGm := by rw [hge]; exact hgr
  by_cases hrb : r = b
  · -- the sender names the best instance itself as grandmaster: then it is at least one step away
    subst hrb
    rw [hx] at hr
    simp only [Option.some.injEq, Prod.mk.injEq] at hr
    have hcr : cr = cb := hr.1.symm
    subst hcr
    have han := (hp.relay n cn sn hn).1
    have hsn : StableAt net n cn sn := ⟨hn, han, hst n cn sn hn han⟩
    have hsteps : 1 ≤ g.steps := by
      rw [hge]
      simp only
      rcases master_port_node net n cn sn hsn k hm with hgm | ⟨j', hj'⟩
      · exfalso
        have : cn.ownGm = cr.ownGm := by rw [← hgm.2.1, hgr]
        have hid : cn.id = cr.id := by
          have : cn.ownGm.id = cr.ownGm.id := by rw [this]
          exact this
        exact hnb (hp.ids n r cn sn cr sb hn hx hid)
      · obtain ⟨_, _, _, _, _, _, hst1⟩ := slave_port_source net n cn sn hsn j' hj'
        omega
    exact own_vs_same_gm cr g (j + 1) (by rw [hgg]; rfl) hsteps hw
  · have hid : (ownCmpDS cb).gmId ≠ (g.cmpDS cb.id (j + 1)).gmId := by
      simp only [ownCmpDS, Adv.cmpDS, hgg]
      intro e
      exact hrb (hp.ids r b cr sr cb sb hr hx e.symm)
    obtain ⟨hord, _⟩ := compare_different_gmKey _ _ hid
    rw [hord, ownCmpDS_gmKey, cmpDS_gmKey, hgg, best_strict net hp b cb sb hb r cr sr hr hrb] at hw
    cases hw

/-- a Master port of a live instance is heard by every other port of its segment -/
theorem advsOn_mem (net : Net) (seg x j n k : Nat) (cn : NodeCfg) (sn : NodeSt) (pcn : PortCfg)
    (hn : net[n]? = some (cn, sn)) (hal : cn.alive = true) (hk : cn.ports[k]? = some pcn) (hseg : pcn.seg = seg)
    (hat : pcn.attached = true) (hm : sn.ports.getD k .listening = .master) (hne : ¬(n = x ∧ k = j)) :
    ({ gm := sn.gm, steps := sn.steps, sender := cn.id, senderPort := k + 1 } : Adv) ∈ advsOn net seg x j := by
  unfold advsOn
  simp only [List.mem_flatMap]
  refine ⟨((cn, sn), n), List.mem_zipIdx_iff_getElem?.mpr hn, ?_⟩
  simp only [hal, Bool.not_true, Bool.false_eq_true, if_false, List.mem_filterMap]
  refine ⟨(pcn, k), List.mem_zipIdx_iff_getElem?.mpr hk, ?_⟩
  simp only
  rw [if_pos]
  refine ⟨hseg, hat, ?_, hm⟩
  simp only [Bool.not_eq_true', decide_eq_false_iff_not]
  exact hne

theorem betterTopo_same_gm (a b : CmpDS) (h : a.compare b = .betterTopo) : a.gmId = b.gmId := by
  unfold CmpDS.compare at h
  split at h
  · assumption
  · exfalso
    unfold compareDifferent at h
    split at h <;> simp at h

/-- the Passive decision of a high-class instance: `Ebest` is better by topology than the port's `Erbest` -/
theorem decide_passive (c : NodeCfg) (eb : Option (Adv × Nat)) (e : Option Adv) (j : Nat)
    (hcls : ¬(1 ≤ c.cls ∧ c.cls ≤ 127)) (h : Net.decide c eb e j = .p) :
    ∃ (g : Adv) (gj : Nat) (e' : Adv), eb = some (g, gj) ∧ e = some e' ∧
      ((ownCmpDS c).compare (g.cmpDS c.id (gj + 1))).asOrdering = .lt ∧
      (g.cmpDS c.id (gj + 1)).compare (e'.cmpDS c.id (j + 1)) = .betterTopo := by
  unfold Net.decide at h
  simp only [hcls, if_false] at h
  cases eb with
  | none => simp at h
  | some v =>
    obtain ⟨g, gj⟩ := v
    simp only at h
    cases hk : ((ownCmpDS c).compare (g.cmpDS c.id (gj + 1))).asOrdering with
    | eq => rw [hk] at h; simp at h
    | gt => rw [hk] at h; simp at h
    | lt =>
      rw [hk] at h
      simp only at h
      cases e with
      | none => simp at h
      | some e' =>
        simp only at h
        split at h
        · cases h
        · split at h
          · rename_i hbt
            exact ⟨g, gj, e', rfl, rfl, hk, hbt⟩
          · cases h

theorem not_shadowed (net : Net) (hp : Plain net) (x : Nat) (c : NodeCfg) (s : NodeSt) (hx : net[x]? = some (c, s))
    (j : Nat) (pc : PortCfg) (hj : c.ports[j]? = some pc) : shadowed c s j = false := by
  unfold shadowed
  rw [Bool.eq_false_iff]
  intro h
  rw [List.any_eq_true] at h
  obtain ⟨⟨pi, i⟩, hmem, hcond⟩ := h
  have hi := List.mem_zipIdx_iff_getElem?.mp hmem
  simp only [decide_eq_true_eq] at hcond
  have hgd : c.ports.getD j default = pc := by simp [List.getD, hj]
  rw [hgd] at hcond
  have := hp.simple x c s i j pi pc hx hi hj hcond.2.2.1
  omega

theorem candsOf_mem (c : NodeCfg) (erbests : List (Option Adv)) (j : Nat) (pc : PortCfg) (a : Adv)
    (hj : c.ports[j]? = some pc) (hmo : pc.masterOnly = false) (he : erbests[j]? = some (some a)) :
    (a, j) ∈ candsOf c erbests := by
  unfold candsOf
  simp only [List.mem_filterMap]
  refine ⟨((pc, some a), j), ?_, by simp [hmo]⟩
  apply List.mem_zipIdx_iff_getElem?.mpr
  simp only
  rw [List.getElem?_zip_eq_some]
  exact ⟨hj, he⟩

theorem key_le_gmKey_le (d1 d2 : CmpDS) (h : keyCmp d1.key d2.key ≠ .gt) : keyCmp d1.gmKey d2.gmKey ≠ .gt := by
  unfold CmpDS.key at h
  rw [keyCmp_append _ _ _ _ (by simp [CmpDS.gmKey])] at h
  intro hg
  rw [hg] at h
  exact h rfl

theorem keyCmp_antisymm (x y : List Int) (hl : x.length = y.length) (h1 : keyCmp x y ≠ .gt) (h2 : keyCmp y x ≠ .gt) : x = y := by
  apply keyCmp_eq_imp x y hl
  rw [keyCmp_swap x y] at h2
  cases hk : keyCmp x y with
  | eq => rfl
  | gt => exact absurd hk h1
  | lt => rw [hk] at h2; exact absurd rfl h2

/-- the state of port `i` read off the fixed point -/
theorem port_state_exists (net : Net) (x : Nat) (c : NodeCfg) (s : NodeSt) (h : StableAt net x c s) (i : Nat) (pc : PortCfg)
    (hi : c.ports[i]? = some pc) : ∃ st, s.ports[i]? = some st := by
  have hlen := state_ports_length net x c s h
  have : i < s.ports.length := by
    rw [hlen]
    rcases Nat.lt_or_ge i c.ports.length with h1 | h1
    · exact h1
    · rw [List.getElem?_eq_none h1] at hi; cases hi
  exact ⟨s.ports[i], List.getElem?_eq_getElem this⟩

/-- **On every segment an instance is attached to, some Master port advertises the instance's grandmaster.** -/
theorem master_on_segment (net : Net) (hst : Stable net) (hp : Plain net) (u : Nat) (cu : NodeCfg) (su : NodeSt)
    (hu : net[u]? = some (cu, su)) (i : Nat) (pi : PortCfg) (hi : cu.ports[i]? = some pi) :
    ∃ (n : Nat) (cn : NodeCfg) (sn : NodeSt) (k : Nat) (pcn : PortCfg), net[n]? = some (cn, sn) ∧ cn.ports[k]? = some pcn ∧
      pcn.seg = pi.seg ∧ sn.ports.getD k .listening = .master ∧ sn.gm = su.gm := by
  obtain ⟨hal, hso, hcls, _, _⟩ := hp.relay u cu su hu
  have hcl : ¬(1 ≤ cu.cls ∧ cu.cls ≤ 127) := by omega
  have hsu : StableAt net u cu su := ⟨hu, hal, hst u cu su hu hal⟩
  obtain ⟨st, hst_i⟩ := port_state_exists net u cu su hsu i pi hi
  obtain ⟨hnl, d, hd, hpo⟩ := all_decided net hp u cu su hsu i st hst_i
  cases hstc : st with
  | listening => exact absurd hstc hnl
  | master =>
    subst hstc
    exact ⟨u, cu, su, i, pi, hu, hi, rfl, by simp [List.getD, hst_i], rfl⟩
  | slave =>
    subst hstc
    obtain ⟨g, pc, _, hpc, hmem, hgm, _⟩ := slave_port_source net u cu su hsu i hst_i
    rw [hi] at hpc
    simp only [Option.some.injEq] at hpc
    subst hpc
    obtain ⟨n, cn, sn, k, pcn, _, hn, hk, hseg, hm, hge, _, _⟩ := heard_from_other net hp u cu su i pi hu hi g hmem
    exact ⟨n, cn, sn, k, pcn, hn, hk, hseg, hm, by rw [hgm, hge]⟩
  | passive =>
    subst hstc
    -- the decision is P2 (the port is not shadowed in a plain network)
    have hdp : d = .p := by
      unfold portOf at hpo
      cases d with
      | p => rfl
      | s a => cases hpo
      | gm => simp only [hso, Bool.false_eq_true, if_false, not_shadowed net hp u cu su hu i pi hi] at hpo; cases hpo
      | m3 => simp only [hso, Bool.false_eq_true, if_false, not_shadowed net hp u cu su hu i pi hi] at hpo; cases hpo
    subst hdp
    obtain ⟨e, he, hde⟩ := decsOf_get cu su _ i _ hd
    split at hde
    · cases hde
    · simp only [Option.some.injEq] at hde
      obtain ⟨g, gj, e', heb, hee, hw, hbt⟩ := decide_passive cu _ e i hcl hde.symm
      subst hee
      -- Ebest's port is Slave, so the instance carries g's grandmaster
      have hsl := ebest_port_slave cu su _ g gj hcl heb hw
      have hports := stepNode_ports net u cu su hu hal
      rw [hsu.2.2] at hports
      have hgj : su.ports[gj]? = some PSt.slave := by
        rw [hports]
        simp only [List.getElem?_map, List.getElem?_zipIdx, hsl, Option.map_some, Nat.zero_add]
        rfl
      obtain ⟨g', _, heb', _, _, hgm, _⟩ := slave_port_source net u cu su hsu gj hgj
      rw [heb] at heb'
      simp only [Option.some.injEq, Prod.mk.injEq, and_true] at heb'
      subst heb'
      -- Erbest of port i names the same grandmaster
      obtain ⟨pc, hpc, _, hmem, _⟩ := erbestsOf_spec net u cu i e' he
      rw [hi] at hpc
      simp only [Option.some.injEq] at hpc
      subst hpc
      obtain ⟨n, cn, sn, k, pcn, _, hn, hk, hseg, hm, hge, _, _⟩ := heard_from_other net hp u cu su i pi hu hi e' hmem
      have hid := betterTopo_same_gm _ _ hbt
      have hid' : sn.gm.id = su.gm.id := by
        have : e'.gm.id = g.gm.id := by
          simp only [Adv.cmpDS] at hid
          exact hid.symm
        rw [hge] at this
        rw [hgm]
        exact this
      exact ⟨n, cn, sn, k, pcn, hn, hk, hseg, hm, gm_consistent net hst hp n u cn sn cu su hn hu hid'⟩

/-- two instances have ports on a common segment -/
def Linked (net : Net) (u v : Nat) : Prop :=
  ∃ (cu : NodeCfg) (su : NodeSt) (cv : NodeCfg) (sv : NodeSt) (i j : Nat) (pi pj : PortCfg),
    net[u]? = some (cu, su) ∧ net[v]? = some (cv, sv) ∧ cu.ports[i]? = some pi ∧ cv.ports[j]? = some pj ∧ pi.seg = pj.seg

/-- the candidates for `Ebest` are good data -/
theorem cands_good (net : Net) (hst : Stable net) (hp : Plain net) (x : Nat) (c : NodeCfg) (s : NodeSt)
    (hx : net[x]? = some (c, s)) : GoodAdvs c.id ((candsOf c (erbestsOf net x c)).map (·.1)) := by
  have src : ∀ a ∈ (candsOf c (erbestsOf net x c)).map (·.1),
      ∃ (n : Nat) (cn : NodeCfg) (sn : NodeSt), net[n]? = some (cn, sn) ∧ a.gm = sn.gm ∧ a.sender ≠ c.id := by
    intro a ha
    rw [List.mem_map] at ha
    obtain ⟨⟨a', j⟩, hmem, rfl⟩ := ha
    have he := candsOf_spec c _ a' j hmem
    obtain ⟨pc, hpc, _, hm, _⟩ := erbestsOf_spec net x c j a' he
    obtain ⟨n, cn, sn, _, _, _, hn, _, _, _, hae, hne, _⟩ := heard_from_other net hp x c s j pc hx hpc a' hm
    exact ⟨n, cn, sn, hn, by rw [hae], hne⟩
  constructor
  · intro a ha
    obtain ⟨_, _, _, _, _, hne⟩ := src a ha
    exact hne
  · intro a ha b hb hid
    obtain ⟨n, cn, sn, hn, hga, _⟩ := src a ha
    obtain ⟨n', cn', sn', hn', hgb, _⟩ := src b hb
    rw [hga, hgb] at hid ⊢
    exact gm_consistent net hst hp n n' cn sn cn' sn' hn hn' hid

/-- **The best clock's grandmaster attributes spread over every shared segment.** -/
theorem follows_best (net : Net) (hst : Stable net) (hp : Plain net) (b : Nat) (cb : NodeCfg) (sb : NodeSt)
    (hb : IsBest net b cb sb) (u v : Nat) (hl : Linked net u v) (cu : NodeCfg) (su : NodeSt) (hu : net[u]? = some (cu, su))
    (hgu : su.gm = cb.ownGm) : ∀ (cv : NodeCfg) (sv : NodeSt), net[v]? = some (cv, sv) → sv.gm = cb.ownGm := by
  intro cv sv hv
  obtain ⟨cu', su', cv', sv', i, j, pi, pj, hu', hv', hi, hj, hseg⟩ := hl
  rw [hu] at hu'; rw [hv] at hv'
  simp only [Option.some.injEq, Prod.mk.injEq] at hu' hv'
  obtain ⟨rfl, rfl⟩ := hu'
  obtain ⟨rfl, rfl⟩ := hv'
  by_cases hvb : v = b
  · subst hvb
    have := best_is_gm net hst hp v cb sb hb
    rw [hb.1] at hv
    simp only [Option.some.injEq, Prod.mk.injEq] at hv
    rw [← hv.2]; exact this.2.1
  · obtain ⟨n, cn, sn, k, pcn, hn, hk, hsegn, hm, hgn⟩ := master_on_segment net hst hp u cu su hu i pi hi
    by_cases hnv : n = v
    · subst hnv
      rw [hv] at hn
      simp only [Option.some.injEq, Prod.mk.injEq] at hn
      rw [hn.2, hgn, hgu]
    · -- v hears that Master port
      obtain ⟨halv, hsov, hclsv, _, hportsv⟩ := hp.relay v cv sv hv
      obtain ⟨haln, _, _, _, hportsn⟩ := hp.relay n cn sn hn
      have hcl : ¬(1 ≤ cv.cls ∧ cv.cls ≤ 127) := by omega
      have hsv : StableAt net v cv sv := ⟨hv, halv, hst v cv sv hv halv⟩
      have hatn := (hportsn pcn (List.mem_of_getElem? hk)).2
      have hmo := (hportsv pj (List.mem_of_getElem? hj)).1
      let a : Adv := { gm := sn.gm, steps := sn.steps, sender := cn.id, senderPort := k + 1 }
      have ha : a ∈ advsOn net pj.seg v j :=
        advsOn_mem net pj.seg v j n k cn sn pcn hn haln hk (by rw [hsegn, hseg]) hatn hm (fun h => hnv h.1)
      -- Erbest of port j is at least as good
      have herb := erbest_of_heard net hp v cv sv j pj hv hj
      have hsome := bestOf_isSome cv.id (j + 1) _ (List.ne_nil_of_mem ha)
      obtain ⟨e', he'⟩ := Option.isSome_iff_exists.mp hsome
      rw [he'] at herb
      obtain ⟨_, hmin⟩ := bestOf_min cv.id (j + 1) _ (heard_good net hst hp v cv sv j pj hv hj) e' he'
      have h1 := hmin a ha
      -- Ebest is at least as good as that
      have hcand := candsOf_mem cv _ j pj e' hj hmo herb
      have hebs : ∃ g gj, ebestOf cv (erbestsOf net v cv) = some (g, gj) := by
        unfold ebestOf
        split
        · rename_i heq; rw [heq] at hcand; cases hcand
        · exact ⟨_, _, rfl⟩
      obtain ⟨g, gj, heb⟩ := hebs
      obtain ⟨hgmem, hgmin⟩ := ebestOf_min cv _ (cands_good net hst hp v cv sv hv) g gj heb
      have h2 := hgmin (e', j) hcand
      have h3 := keyCmp_le_trans _ _ _ (by rw [key_length, key_length]) (by rw [key_length, key_length]) h2 h1
      have h4 := key_le_gmKey_le _ _ h3
      rw [cmpDS_gmKey, cmpDS_gmKey] at h4
      -- g's grandmaster is some instance's own, and none is better than the best's
      have hge := candsOf_spec cv _ g gj hgmem
      obtain ⟨pcg, hpcg, _, hgm', _⟩ := erbestsOf_spec net v cv gj g hge
      obtain ⟨ng, cng, sng, _, _, _, hng, _, _, _, hgeq, _, _⟩ := heard_from_other net hp v cv sv gj pcg hv hpcg g hgm'
      obtain ⟨r, cr, sr, hr, hgr⟩ := gm_is_someones_own net hst hp ng cng sng hng
      have hgg : g.gm = cr.ownGm := by rw [hgeq]; exact hgr
      have hagm : a.gm = cb.ownGm := by show sn.gm = cb.ownGm; rw [hgn, hgu]
      rw [hagm, hgg] at h4
      have h5 := hb.2 r cr sr hr
      have hkeq := keyCmp_antisymm _ _ (by rw [ownGm_key_length, ownGm_key_length]) h4 h5
      have hgb : g.gm = cb.ownGm := by rw [hgg]; exact gm_key_inj _ _ hkeq
      -- v is not the best, so its own data set is worse: Ebest's port is Slave and v takes g's grandmaster
      have hidv : (ownCmpDS cv).gmId ≠ (g.cmpDS cv.id (gj + 1)).gmId := by
        simp only [ownCmpDS, Adv.cmpDS, hgb]
        intro e
        exact hvb (hp.ids v b cv sv cb sb hv hb.1 e)
      obtain ⟨hord, _⟩ := compare_different_gmKey _ _ hidv
      have hw : ((ownCmpDS cv).compare (g.cmpDS cv.id (gj + 1))).asOrdering = .lt := by
        rw [hord, ownCmpDS_gmKey, cmpDS_gmKey, hgb]
        have := best_strict net hp b cb sb hb v cv sv hv hvb
        rw [keyCmp_swap cb.ownGm.key cv.ownGm.key, this]
        rfl
      have hsl := ebest_port_slave cv sv _ g gj hcl heb hw
      have hports := stepNode_ports net v cv sv hv halv
      rw [hsv.2.2] at hports
      have hgjs : sv.ports[gj]? = some PSt.slave := by
        rw [hports]
        simp only [List.getElem?_map, List.getElem?_zipIdx, hsl, Option.map_some, Nat.zero_add]
        rfl
      obtain ⟨g', _, heb', _, _, hgm2, _⟩ := slave_port_source net v cv sv hsv gj hgjs
      rw [heb] at heb'
      simp only [Option.some.injEq, Prod.mk.injEq, and_true] at heb'
      subst heb'
      rw [hgm2, hgb]

/-- `v` can be reached from `u` over shared segments -/
inductive Reach (net : Net) (u : Nat) : Nat → Prop
  | refl : Reach net u u
  | step {v w : Nat} : Reach net u v → Linked net v w → Reach net u w

/-- everything reachable from the best instance carries its grandmaster attributes -/
theorem reach_follows_best (net : Net) (hst : Stable net) (hp : Plain net) (b : Nat) (cb : NodeCfg) (sb : NodeSt)
    (hb : IsBest net b cb sb) (y : Nat) (hr : Reach net b y) :
    ∀ (cy : NodeCfg) (sy : NodeSt), net[y]? = some (cy, sy) → sy.gm = cb.ownGm := by
  induction hr with
  | refl =>
    intro cy sy hy
    have := best_is_gm net hst hp b cb sb hb
    rw [hb.1] at hy
    simp only [Option.some.injEq, Prod.mk.injEq] at hy
    rw [← hy.2]; exact this.2.1
  | @step v w _ hl ih =>
    intro cw sw hw
    have hl' := hl
    obtain ⟨cv, sv, _, _, _, _, _, _, hv, _, _, _, _⟩ := hl'
    exact follows_best net hst hp b cb sb hb v w hl cv sv hv (ih cv sv hv) cw sw hw

end Statime.Net
