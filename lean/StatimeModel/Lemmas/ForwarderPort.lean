import StatimeModel.Lemmas.ForwarderL
import StatimeModel.Model.Port
/-
Joining the two halves of C15: the forwarding loop of `send_announce` (port model, `fwdLoop`, which takes the
host's queue as a list) run against the daemon's `TlvForwarder` (queue model, `nextIfSmaller`).

Both are instances of one list function, `drainList`: take the head while it fits; keep it if the
port wants it, drop it otherwise; stop at the first head that does not fit.
-/
namespace Statime.Fwd

/-- take heads while they fit; returns (kept in order, what is left, room left) -/
def drainList {α} (size : α → Nat) (keep : α → Bool) : List α → Nat → List α → List α × List α × Nat
  | [], m, acc => (acc, [], m)
  | x :: xs, m, acc =>
    if size x ≤ m then
      if keep x then drainList size keep xs (m - size x) (acc ++ [x]) else drainList size keep xs m acc
    else (acc, x :: xs, m)

/-- the loop `while let Some(tlv) = provider.next_if_smaller(margin)` of `send_announce`, run against a forwarder -/
def drain (log : List Item) (keep : Item → Bool) : Nat → Rx → Nat → List Item → List Item × Rx × Nat
  | 0, r, m, acc => (acc, r, m)
  | fuel + 1, r, m, acc =>
    match nextIfSmaller log r m with
    | (some v, r') => if keep v then drain log keep fuel r' (m - v.size) (acc ++ [v]) else drain log keep fuel r' m acc
    | (none, r') => (acc, r', m)

theorem noLag_next (log : List Item) (r : Rx) (m : Nat) (h : Wf log r) (hn : NoLag log r) :
    NoLag log (nextIfSmaller log r m).2 := by
  have := readPos_next_le log r m h
  have hw := wf_next log r m h
  unfold NoLag at *
  -- the cursor never moves back
  have hpos : r.pos ≤ (nextIfSmaller log r m).2.pos := by
    unfold nextIfSmaller
    have hf : r.pos ≤ (fill log r).pos := by
      cases hp : r.peek with
      | some v => rw [fill_peeked log r v hp]; exact Nat.le_refl _
      | none =>
        cases hg : log[r.pos]? with
        | none => rw [fill_none log r hn hp hg]; exact Nat.le_refl _
        | some v => rw [fill_some log r v hn hp hg]; exact Nat.le_succ _
    cases hp : (fill log r).peek with
    | none => simpa using hf
    | some w =>
      simp only
      split
      · exact hf
      · exact hf
  omega

/-- **the port's loop over a forwarder is `drainList` over the forwarder's pending list**, and what the
forwarder still holds afterwards is what `drainList` left (no lag; enough fuel for the whole list) -/
theorem drain_eq_drainList (log : List Item) (keep : Item → Bool) :
    ∀ (fuel : Nat) (r : Rx) (m : Nat) (acc : List Item), Wf log r → NoLag log r →
      (pending log r).length < fuel →
      (drain log keep fuel r m acc).1 = (drainList Item.size keep (pending log r) m acc).1 ∧
      pending log (drain log keep fuel r m acc).2.1 = (drainList Item.size keep (pending log r) m acc).2.1 ∧
      (drain log keep fuel r m acc).2.2 = (drainList Item.size keep (pending log r) m acc).2.2 := by
  intro fuel
  induction fuel with
  | zero => intro r m acc _ _ hlen; omega
  | succ fuel ih =>
    intro r m acc hw hn hlen
    have hq := next_refines_queue log r m hw hn
    have hw' := wf_next log r m hw
    have hn' := noLag_next log r m hw hn
    cases hp : pending log r with
    | nil =>
      obtain ⟨ho, hpe⟩ := hq.1 hp
      unfold drain
      cases hnx : nextIfSmaller log r m with
      | mk o r' =>
        rw [hnx] at ho hpe
        simp only at ho hpe
        subst ho
        simp only [drainList]
        exact ⟨trivial, hpe, trivial⟩
    | cons v rest =>
      obtain ⟨hfit, hnofit⟩ := hq.2 v rest hp
      unfold drain
      cases hnx : nextIfSmaller log r m with
      | mk o r' =>
        rw [hnx] at hfit hnofit hw' hn'
        simp only at hfit hnofit hw' hn'
        by_cases hs : v.size ≤ m
        · obtain ⟨ho, hpe⟩ := hfit hs
          subst ho
          simp only [drainList, hs, ↓reduceIte]
          have hl : (pending log r').length < fuel := by rw [hpe]; rw [hp] at hlen; simp at hlen; omega
          by_cases hk : keep v
          · simp only [hk, ↓reduceIte]
            have := ih r' (m - v.size) (acc ++ [v]) hw' hn' hl
            rw [hpe] at this
            exact this
          · simp only [hk, Bool.false_eq_true, ↓reduceIte]
            have := ih r' m acc hw' hn' hl
            rw [hpe] at this
            exact this
        · obtain ⟨ho, hpe⟩ := hnofit hs
          subst ho
          simp only [drainList, hs, ↓reduceIte]
          exact ⟨trivial, hpe, trivial⟩

/-- `drainList` does not care what the elements are, only about their sizes and whether they are kept -/
theorem drainList_map {α β} (f : α → β) (sa : α → Nat) (ka : α → Bool) (sb : β → Nat) (kb : β → Bool)
    (hs : ∀ x, sb (f x) = sa x) (hk : ∀ x, kb (f x) = ka x) :
    ∀ (l : List α) (m : Nat) (acc : List α),
      drainList sb kb (l.map f) m (acc.map f) =
        ((drainList sa ka l m acc).1.map f, (drainList sa ka l m acc).2.1.map f, (drainList sa ka l m acc).2.2) := by
  intro l
  induction l with
  | nil => intro m acc; simp [drainList]
  | cons x xs ih =>
    intro m acc
    simp only [List.map_cons, drainList, hs, hk]
    by_cases h1 : sa x ≤ m
    · simp only [h1, ↓reduceIte]
      by_cases h2 : ka x
      · simp only [h2, ↓reduceIte]
        have := ih (m - sa x) (acc ++ [x])
        simp only [List.map_append, List.map_cons, List.map_nil] at this
        exact this
      · simp only [h2, Bool.false_eq_true, ↓reduceIte]
        exact ih m acc
    · simp only [h1, ↓reduceIte, List.map_cons]

end Statime.Fwd

namespace Statime

open Statime.Fwd in
/-- what `send_announce` keeps of a forwarded TLV it was handed: the parent's, and not a PATH_TRACE while the path
trace option is on -/
def keepFwd (parent : PortId) (pathTraceEnabled : Bool) (t : FwdTlv) : Bool :=
  decide (parent = t.sender) && !(pathTraceEnabled && decide (t.tlv.ty = TLV_PATH_TRACE))

open Statime.Fwd in
/-- **the forwarding loop of the port model, over the daemon's provider (`loose = true`), is `drainList`** -/
theorem fwdLoop_eq_drainList (parent : PortId) (pt : Bool) :
    ∀ (fuel : Nat) (q : List FwdTlv) (margin : Nat) (acc : List FwdTlv), q.length < fuel →
      fwdLoop parent pt true fuel q margin (acc.flatMap (·.tlv.bytes)) =
        ((drainList (·.tlv.wireSize) (keepFwd parent pt) q margin acc).1.flatMap (·.tlv.bytes),
         (drainList (·.tlv.wireSize) (keepFwd parent pt) q margin acc).2.1) := by
  intro fuel
  induction fuel with
  | zero => intro q _ _ h; omega
  | succ fuel ih =>
    intro q margin acc hlen
    cases q with
    | nil => simp [fwdLoop, drainList]
    | cons t rest =>
      have hl : rest.length < fuel := by simp at hlen; omega
      unfold fwdLoop drainList
      have hfit : fwdFits true t.tlv.wireSize margin = decide (t.tlv.wireSize ≤ margin) := by
        unfold fwdFits
        by_cases h1 : t.tlv.wireSize < margin
        · simp [h1, Nat.le_of_lt h1]
        · by_cases h2 : t.tlv.wireSize = margin
          · simp [h2]
          · have : ¬ t.tlv.wireSize ≤ margin := by omega
            simp [h1, h2, this]
      rw [hfit]
      by_cases hs : t.tlv.wireSize ≤ margin
      · simp only [hs, decide_true, ↓reduceIte]
        by_cases hp : parent = t.sender
        · by_cases hx : pt = true ∧ t.tlv.ty = TLV_PATH_TRACE
          · obtain ⟨hpt, hty⟩ := hx
            subst hpt
            have hk : keepFwd parent true t = false := by simp [keepFwd, hp, hty]
            have hne : ¬ parent ≠ t.sender := by simp [hp]
            simp only [hne, ↓reduceIte, hty, and_self, hk, Bool.false_eq_true]
            exact ih rest margin acc hl
          · have hk : keepFwd parent pt t = true := by
              simp only [keepFwd, hp, decide_true, Bool.true_and, Bool.not_eq_eq_eq_not, Bool.not_true,
                Bool.and_eq_false_imp, decide_eq_false_iff_not]
              intro h; exact fun h2 => hx ⟨h, h2⟩
            have hne : ¬ parent ≠ t.sender := by simp [hp]
            simp only [hne, ↓reduceIte, hx, hk]
            have := ih rest (margin - t.tlv.wireSize) (acc ++ [t]) hl
            simp only [List.flatMap_append, List.flatMap_cons, List.flatMap_nil, List.append_nil] at this
            exact this
        · have hk : keepFwd parent pt t = false := by simp [keepFwd, hp]
          simp only [ne_eq, hp, not_false_eq_true, ↓reduceIte, hk, Bool.false_eq_true]
          exact ih rest margin acc hl
      · simp only [hs, decide_false, Bool.false_eq_true, ↓reduceIte]

end Statime
