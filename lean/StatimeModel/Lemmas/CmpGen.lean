import StatimeModel.Model.Bmca
/-!
# An interpreter for the comparison tables the translator extracts

`translator/extract_cmp.py` reads `statime/src/bmc/dataset_comparison.rs` on
every run and writes `Generated/DatasetComparison.lean`: the `then_with` chain of
`compare_different_identity` as a list of fields, the arms of the `match` of
`compare_same_identity` as data (`Arm`), the dispatch of `compare`, the table of
`as_ordering` and the field assignments of the two constructors.  This file gives
those tables their meaning (`evalDifferent`, `evalArms`, …); `Props/C05.lean`
proves that the meaning of the tables extracted on this run is the model's
`CmpDS.compare` / `DOrd.asOrdering` / `CmpDS.ofAnnounce` / `CmpDS.ofOwn`
for all data sets.
-/
namespace Statime.CmpGen
open Statime

inductive Field | gmP1 | gmClass | gmAcc | gmVar | gmP2 | gmId | steps | sender | recvClock | recvPort
  deriving DecidableEq, Repr, Inhabited

def Field.get : Field → CmpDS → Nat
  | .gmP1, d => d.gmP1
  | .gmClass, d => d.gmClass
  | .gmAcc, d => d.gmAcc
  | .gmVar, d => d.gmVar
  | .gmP2, d => d.gmP2
  | .gmId, d => d.gmId
  | .steps, d => d.steps
  | .sender, d => d.sender
  | .recvClock, d => d.receiver.clock
  | .recvPort, d => d.receiver.port

inductive Side | self | other
  deriving DecidableEq, Repr, Inhabited

def Side.pick : Side → CmpDS → CmpDS → CmpDS
  | .self, a, _ => a
  | .other, _, b => b

def cmpNat (x y : Nat) : Ordering := if x < y then .lt else if y < x then .gt else .eq

def pick3 (o : Ordering) (lt eq gt : DOrd) : DOrd :=
  match o with
  | .lt => lt
  | .eq => eq
  | .gt => gt

/-- the right-hand side of one arm of `match steps_removed_difference` -/
inductive Body
  | const (r : DOrd)
  | cmp (ls : Side) (lf : Field) (rs : Side) (rf : Field) (lt eq gt : DOrd)
  | lex (keys : List Field) (lt eq gt : DOrd)
  deriving Repr, Inhabited

def lexKeys (keys : List Field) (a b : CmpDS) : Ordering :=
  lexCmp (keys.map (fun f => (f.get a, f.get b)))

def Body.eval : Body → CmpDS → CmpDS → DOrd
  | .const r, _, _ => r
  | .cmp ls lf rs rf lt eq gt, a, b => pick3 (cmpNat (lf.get (ls.pick a b)) (rf.get (rs.pick a b))) lt eq gt
  | .lex keys lt eq gt, a, b => pick3 (lexKeys keys a b) lt eq gt

/-- an arm: inclusive range of the difference (`none` = `i32::MIN` / `i32::MAX`) and its body -/
structure Arm where
  lo : Option Int
  hi : Option Int
  body : Body
  deriving Repr, Inhabited

def geLo : Option Int → Int → Bool
  | none, _ => true
  | some l, d => decide (l ≤ d)

def leHi : Option Int → Int → Bool
  | none, _ => true
  | some h, d => decide (d ≤ h)

/-- first matching arm, as Rust's `match` does; `none` would be a non-exhaustive match -/
def evalArms : List Arm → CmpDS → CmpDS → Option DOrd
  | [], _, _ => none
  | m :: ms, a, b =>
    if geLo m.lo ((a.steps : Int) - (b.steps : Int)) && leHi m.hi ((a.steps : Int) - (b.steps : Int))
    then some (m.body.eval a b) else evalArms ms a b

/-- `compare_different_identity` for an extracted chain and its two result arms -/
def evalDifferent (keys : List Field) (lt gt : DOrd) (a b : CmpDS) : Option DOrd :=
  match lexKeys keys a b with
  | .lt => some lt
  | .gt => some gt
  | .eq => none

/-- the whole `compare`: dispatch field, arms, chain -/
def evalCompare (dispatch : Field) (arms : List Arm) (keys : List Field) (lt gt : DOrd) (a b : CmpDS) : Option DOrd :=
  if dispatch.get a = dispatch.get b then evalArms arms a b
  else some ((evalDifferent keys lt gt a b).getD .error2)

inductive AnnF | p1 | gm | clockClass | accuracy | variance | p2 | steps
  deriving DecidableEq, Repr, Inhabited
inductive OwnF | p1 | p2 | clockIdentity | clockClass | accuracy | variance
  deriving DecidableEq, Repr, Inhabited

/-- where a constructor takes a field from -/
inductive Src
  | annBody (f : AnnF)           -- message.<field>
  | annSender                    -- message.header.source_port_identity.clock_identity
  | receiverClock | receiverPort -- *port_receiver_identity
  | own (f : OwnF)               -- data.<field> / data.clock_quality.<field>
  | zero
  deriving DecidableEq, Repr, Inhabited

def Src.ofAnn (a : Ann) (r : PortId) : Src → Option Nat
  | .annBody .p1 => some a.body.p1
  | .annBody .gm => some a.body.gm
  | .annBody .clockClass => some a.body.clockClass
  | .annBody .accuracy => some a.body.accuracy
  | .annBody .variance => some a.body.variance
  | .annBody .p2 => some a.body.p2
  | .annBody .steps => some a.body.steps
  | .annSender => some a.hdr.src.clock
  | .receiverClock => some r.clock
  | .receiverPort => some r.port
  | _ => none

def Src.ofOwn (d : DefaultDS) : Src → Option Nat
  | .own .p1 => some d.p1
  | .own .p2 => some d.p2
  | .own .clockIdentity => some d.clockIdentity
  | .own .clockClass => some d.quality.clockClass
  | .own .accuracy => some d.quality.accuracy
  | .own .variance => some d.quality.variance
  | .zero => some 0
  | _ => none

/-- the data set a constructor table builds: every field looked up in the table -/
def build (tbl : List (Field × Src)) (val : Src → Option Nat) : Option CmpDS :=
  let g (f : Field) : Option Nat := (tbl.lookup f).bind val
  match g .gmP1, g .gmId, g .gmClass, g .gmAcc, g .gmVar, g .gmP2, g .steps, g .sender, g .recvClock, g .recvPort with
  | some p1, some gm, some cl, some ac, some va, some p2, some st, some se, some rc, some rp =>
    some { gmP1 := p1, gmId := gm, gmClass := cl, gmAcc := ac, gmVar := va, gmP2 := p2, steps := st,
           sender := se, receiver := ⟨rc, rp⟩ }
  | _, _, _, _, _, _, _, _, _, _ => none

def lookupOrd (tbl : List (DOrd × Ordering)) (d : DOrd) : Option Ordering := tbl.lookup d

theorem lexKeys_figure34 (a b : CmpDS) :
    lexKeys [.gmP1, .gmClass, .gmAcc, .gmVar, .gmP2, .gmId] a b =
      lexCmp [(a.gmP1, b.gmP1), (a.gmClass, b.gmClass), (a.gmAcc, b.gmAcc), (a.gmVar, b.gmVar),
        (a.gmP2, b.gmP2), (a.gmId, b.gmId)] := rfl

theorem pick3_cmpNat (x y : Nat) (lt eq gt : DOrd) :
    pick3 (cmpNat x y) lt eq gt = if x < y then lt else if x = y then eq else gt := by
  unfold cmpNat pick3
  by_cases h : x < y
  · simp only [h, if_true]
  · by_cases h2 : y < x
    · have h3 : x ≠ y := by omega
      simp only [h, h2, h3, if_true, if_false]
    · have h3 : x = y := by omega
      subst h3
      simp only [Nat.lt_irrefl, if_false, if_true]

end Statime.CmpGen
