import StatimeModel.Model.Wire
/-
Byte-level lemmas for the wire codec model.
-/
namespace Statime

@[simp] theorem byteAt_cons_zero (a : UInt8) (l : List UInt8) : byteAt (a :: l) 0 = a.toNat := by
  simp [byteAt]

@[simp] theorem byteAt_cons_succ (a : UInt8) (l : List UInt8) (i : Nat) :
    byteAt (a :: l) (i + 1) = byteAt l i := by
  simp [byteAt]

theorem byteAt_take (b : List UInt8) (n i : Nat) (h : i < n) : byteAt (b.take n) i = byteAt b i := by
  simp [byteAt, List.getD_eq_getElem?_getD, h]

theorem byteAt_drop (b : List UInt8) (k i : Nat) : byteAt (b.drop k) i = byteAt b (k + i) := by
  simp [byteAt, List.getD_eq_getElem?_getD, List.getElem?_drop]

theorem byteAt_append_left (a b : List UInt8) (i : Nat) (h : i < a.length) :
    byteAt (a ++ b) i = byteAt a i := by
  simp [byteAt, List.getD_eq_getElem?_getD, List.getElem?_append_left h]

theorem byteAt_append_right (a b : List UInt8) (i : Nat) (h : a.length ≤ i) :
    byteAt (a ++ b) i = byteAt b (i - a.length) := by
  simp [byteAt, List.getD_eq_getElem?_getD, List.getElem?_append_right h]

theorem byteAt_lt (b : List UInt8) (i : Nat) : byteAt b i < 256 := by
  unfold byteAt
  exact UInt8.toNat_lt _

theorem beVal_take (b : List UInt8) (n i w : Nat) (h : i + w ≤ n) :
    beVal (b.take n) i w = beVal b i w := by
  induction w with
  | zero => rfl
  | succ w ih =>
    simp only [beVal]
    rw [ih (by omega), byteAt_take _ _ _ (by omega)]

theorem beVal_drop (b : List UInt8) (k i w : Nat) : beVal (b.drop k) i w = beVal b (k + i) w := by
  induction w with
  | zero => rfl
  | succ w ih =>
    simp only [beVal]
    rw [ih, byteAt_drop, Nat.add_assoc]

theorem beVal_append_left (a b : List UInt8) (i w : Nat) (h : i + w ≤ a.length) :
    beVal (a ++ b) i w = beVal a i w := by
  induction w with
  | zero => rfl
  | succ w ih =>
    simp only [beVal]
    rw [ih (by omega), byteAt_append_left _ _ _ (by omega)]

theorem beVal_lt (b : List UInt8) (i w : Nat) : beVal b i w < 256 ^ w := by
  induction w with
  | zero => simp [beVal]
  | succ w ih =>
    simp only [beVal, Nat.pow_succ]
    have := byteAt_lt b (i + w)
    have h2 : beVal b i w * 256 + 256 ≤ 256 ^ w * 256 := by
      have : (beVal b i w + 1) * 256 ≤ 256 ^ w * 256 := Nat.mul_le_mul_right _ ih
      rw [Nat.add_mul] at this
      simpa using this
    omega

@[simp] theorem beBytes_length (v n : Nat) : (beBytes v n).length = n := by
  induction n generalizing v with
  | zero => rfl
  | succ n ih => simp [beBytes, ih]

/-- reading back what was written -/
theorem beVal_beBytes (v n : Nat) (rest : List UInt8) :
    beVal (beBytes v n ++ rest) 0 n = v % 256 ^ n := by
  induction n generalizing v rest with
  | zero => simp [beVal, Nat.mod_one]
  | succ n ih =>
    simp only [beVal, beBytes, List.append_assoc, Nat.zero_add]
    rw [ih (v / 256)]
    rw [byteAt_append_right _ _ _ (by simp), byteAt]
    simp only [beBytes_length, Nat.sub_self, List.singleton_append, List.getD_cons_zero, UInt8.toNat_ofNat']
    have h256 : (2:Nat)^8 = 256 := by decide
    rw [h256, Nat.mod_mod, Nat.pow_succ]
    have e : v % (256 ^ n * 256) = v % (256 * 256 ^ n) := by rw [Nat.mul_comm]
    rw [e, Nat.mod_mul, Nat.mul_comm]
    omega

theorem toSigned_ofSigned_64 (x : Int) (h : inI64 x = true) : toSigned 64 (ofSigned 64 x) = x := by
  unfold inI64 I63 at h
  rw [Bool.and_eq_true, decide_eq_true_eq, decide_eq_true_eq] at h
  unfold toSigned ofSigned
  have e : (2:Nat)^64 = 18446744073709551616 := by decide
  have e2 : (2:Nat)^(64-1) = 9223372036854775808 := by decide
  rw [e, e2]
  split <;> omega

end Statime
