import StatimeModel.Model.Port
/-!
# An interpreter for `set_recommended_port_state` as the translator extracts it

`translator/extract_portmove.py` reads `Port<InBmca>::set_recommended_port_state` (`statime/src/port/bmca.rs`) on
every run and writes `Generated/PortMove.lean`: for each decision code group (S1 / M1,M2,M3 / P1,P2), per current
port state, whether the port moves, where to, and which timer actions become pending.  `evalPortMove` gives the
table its meaning; `Props/C05.lean` proves it equal to the model's `portMove`.
-/
namespace Statime.MoveGen
open Statime

/-- port state kinds as the `match` arms name them -/
inductive SK | faulty | listening | master | passive | slave
  deriving DecidableEq, Repr, Inhabited

def SK.of : PState → SK
  | .faulty => .faulty
  | .listening => .listening
  | .master => .master
  | .passive => .passive
  | .slave _ _ _ _ => .slave

inductive Tgt | listening | master | passive
  deriving DecidableEq, Repr, Inhabited

def Tgt.toP : Tgt → PState
  | .listening => .listening
  | .master => .master
  | .passive => .passive

inductive PAct | receiptRand | announceZero | syncZero | delayZero
  deriving DecidableEq, Repr, Inhabited

def PAct.out : PAct → Out
  | .receiptRand => .reset .receipt .rand
  | .announceZero => .reset .announce (.exact 0)
  | .syncZero => .reset .sync (.exact 0)
  | .delayZero => .reset .delay (.exact 0)

/-- `pending = none`: `lifecycle.pending_action` is not assigned -/
inductive Move | stay | go (t : Tgt) (pending : Option (List PAct))
  deriving Repr, Inhabited

/-- the `update_state` arms of S1: never, always, or only when the Slave state follows another master -/
inductive S1U | no | yes | ifOther
  deriving DecidableEq, Repr, Inhabited

structure Table where
  s1 : List (SK × S1U)
  s1Pending : List PAct
  mSlaveOnly : List (SK × Move)
  mMultiStay : List SK          -- `if !matches!(state, A | B) { force target }`
  mMultiTarget : Tgt
  mElse : List (SK × Move)
  p : List (SK × Move)
  deriving Repr, Inhabited

abbrev Res := Option (PState × Option (List Out))

def Move.eval : Move → Res
  | .stay => none
  | .go t pd => some (t.toP, pd.map (fun l => l.map PAct.out))

def lookupK {β : Type} (k : SK) : List (SK × β) → Option β
  | [] => none
  | (k', v) :: rest => if k' = k then some v else lookupK k rest

def memK (k : SK) : List SK → Bool
  | [] => false
  | k' :: rest => if k' = k then true else memK k rest

/-- outer `none`: no arm for this state (a non-exhaustive match would not compile) -/
def evalMoves (arms : List (SK × Move)) (st : PState) : Option Res :=
  (lookupK (SK.of st) arms).map Move.eval

def remoteOf : PState → Option PortId
  | .slave r _ _ _ => some r
  | _ => none

def evalS1 (t : Table) (st : PState) (src : PortId) : Option Res :=
  let moved : Res := some (.slave src .empty .empty none, some (t.s1Pending.map PAct.out))
  match lookupK (SK.of st) t.s1 with
  | none => none
  | some .no => some none
  | some .yes => some moved
  | some .ifOther =>
    match remoteOf st with
    | some old => some (if old ≠ src then moved else none)
    | none => none

def evalPortMove (t : Table) (p : Port) (r : Recommended) (d : DefaultDS) : Option Res :=
  match r with
  | .s1 a => evalS1 t p.st a.hdr.src
  | .m1 _ | .m2 _ | .m3 _ =>
    if d.slaveOnly then evalMoves t.mSlaveOnly p.st
    else if p.multiportDisable.isSome then
      some (if memK (SK.of p.st) t.mMultiStay then none else some (t.mMultiTarget.toP, none))
    else evalMoves t.mElse p.st
  | .p1 _ | .p2 _ => evalMoves t.p p.st

end Statime.MoveGen
