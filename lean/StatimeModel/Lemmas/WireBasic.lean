import StatimeModel.Lemmas.Bytes
/-
Structural lemmas about `decode` / `encode` used by the C04 / C10 / C15 theorems.
-/
namespace Statime

/-- the content buffer `buffer[34..messageLength]` -/
def contentOf (b : List UInt8) : List UInt8 := (b.take (declaredLen b)).drop 34

theorem decode_inv {b : List UInt8} {m : Msg} (h : decode b = .ok m) :
    ∃ ty body, 34 ≤ b.length ∧ MsgType.ofNibble (byteAt b 0 % 16) = some ty ∧
      34 ≤ declaredLen b ∧ declaredLen b ≤ b.length ∧
      readBody ty (contentOf b) = .ok body ∧
      tlvCheck ((contentOf b).drop ty.bodySize).length ((contentOf b).drop ty.bodySize) = .ok () ∧
      m = { header := readHeader b, body := body, suffix := (contentOf b).drop ty.bodySize } := by
  unfold decode decodeAux at h
  split at h
  · cases h
  · rename_i h34
    split at h
    · cases h
    · rename_i ty hty
      split at h
      · cases h
      · rename_i hl
        split at h
        · cases h
        · rename_i hb
          dsimp only at h
          split at h
          · cases h
          · rename_i body hbody
            split at h
            · cases h
            · rename_i htlv
              injection h with h
              simp only [decide_eq_true_eq] at h34 hb
              exact ⟨ty, body, by omega, hty, by omega, by omega, hbody, htlv, h.symm⟩

theorem readBody_inv {ty : MsgType} {c : List UInt8} {body : Body} (h : readBody ty c = .ok body) :
    ty.bodySize ≤ c.length ∧ body.type = ty := by
  unfold readBody at h
  split at h
  · cases h
  · rename_i hl
    injection h with h
    subst h
    refine ⟨by omega, ?_⟩
    cases ty <;> rfl

theorem contentOf_length {b : List UInt8} (h1 : 34 ≤ declaredLen b) (h2 : declaredLen b ≤ b.length) :
    (contentOf b).length = declaredLen b - 34 := by
  simp [contentOf, List.length_drop, List.length_take, Nat.min_eq_left h2]

theorem writeTs_length (t : WireTs) : (writeTs t).length = 10 := by simp [writeTs]
theorem writePortId_length (p : PortId) : (writePortId p).length = 10 := by simp [writePortId]

theorem writeHeader_length (h : Header) (ty : MsgType) (n : Nat) : (writeHeader h ty n).length = 34 := by
  simp [writeHeader, writePortId]

theorem writeBody_length (body : Body) : (writeBody body).length = body.type.bodySize := by
  cases body <;> simp [writeBody, writeTs, writePortId, zeros, Body.type, MsgType.bodySize]

theorem encode_length (m : Msg) : (encode m).length = m.wireSize := by
  simp [encode, writeHeader_length, writeBody_length, Msg.wireSize, Nat.add_assoc]

end Statime

namespace Statime

theorem content_beVal {b : List UInt8} {k w : Nat} (hle : declaredLen b ≤ b.length)
    (h : 34 + k + w ≤ declaredLen b) : beVal (contentOf b) k w = beVal b (34 + k) w := by
  unfold contentOf
  rw [beVal_drop, beVal_take _ _ _ _ (by omega)]

theorem content_byteAt {b : List UInt8} {k : Nat} (hle : declaredLen b ≤ b.length)
    (h : 34 + k < declaredLen b) : byteAt (contentOf b) k = byteAt b (34 + k) := by
  unfold contentOf
  rw [byteAt_drop, byteAt_take _ _ _ (by omega)]

theorem beVal_one (b : List UInt8) (i : Nat) : beVal b i 1 = byteAt b i := by
  simp [beVal]

end Statime

namespace Statime

theorem ofNibble_toNibble {n : Nat} {ty : MsgType} (hn : n < 16) (h : MsgType.ofNibble n = some ty) :
    ty.toNibble = n := by
  have key : ∀ k : Fin 16, ∀ t : MsgType, MsgType.ofNibble k.val = some t → t.toNibble = k.val := by
    decide
  exact key ⟨n, hn⟩ ty h

end Statime
