import StatimeModel.Lemmas.ServoL
/-
A servo that has not programmed a frequency yet (`cur_frequency == None`: a fresh filter, e.g. the one a port installs
when it leaves the slave state) and is handed no Sync / Delay_Resp offset stays unarmed and programs no frequency.
-/
namespace Statime.Servo
open Statime

/-- a measurement that carries no Sync and no Delay_Resp offset (a port that is not Slave hands its servo
peer delay results only) -/
def PeerOnly (m : Meas) : Prop := m.rawSync = none ∧ m.rawDelay = none

def NoFreq (cs : List Cmd) : Prop := ∀ c ∈ cs, ∀ f ok, c ≠ .freq f ok

theorem changeFrequency_unarmed (A : Arith) (k : Kalman) (t : Nat) (clk : ClockIn) (hc : k.cur = none) :
    k.changeFrequency A t clk = some (k, []) := by
  unfold Kalman.changeFrequency
  rw [hc]

theorem stepClock_cur (A : Arith) (k k' : Kalman) (off : Nat) (clk : ClockIn) (cs : List Cmd)
    (h : k.stepClock A off clk = some (k', cs)) : k'.cur = k.cur := by
  unfold Kalman.stepClock at h
  obtain ⟨d, hd, h⟩ := obind h
  split at h
  · cases h; rfl
  · obtain ⟨run, _, h⟩ := obind h
    obtain ⟨wan, _, h⟩ := omap h
    cases h
    rfl

theorem steer_unarmed (A : Arith) (k k' : Kalman) (clk : ClockIn) (cs : List Cmd) (u : Upd) (hc : k.cur = none)
    (h : k.steer A clk = some (k', cs, u)) : k'.cur = none ∧ NoFreq cs := by
  unfold Kalman.steer at h
  simp only at h
  split at h
  · obtain ⟨target, _, h⟩ := obind h
    rw [changeFrequency_unarmed A k target clk hc] at h
    simp only [Option.bind_some] at h
    split at h
    · obtain ⟨md, _, h⟩ := omap h
      cases h
      exact ⟨hc, fun c hcm => by cases hcm⟩
    · cases h
  · obtain ⟨r, hr, h⟩ := obind h
    obtain ⟨k1, cmds⟩ := r
    simp only at h
    obtain ⟨md, _, h⟩ := omap h
    obtain ⟨_, d, ok, hcs, _⟩ := stepClock_spec A k k1 _ clk cmds hr
    have hcur := (stepClock_cur A k k1 _ clk cmds hr).trans hc
    cases h
    refine ⟨hcur, ?_⟩
    intro c hcm f ok' he
    rw [hcs] at hcm
    simp only [List.mem_singleton] at hcm
    rw [hcm] at he
    cases he

theorem measurement_unarmed (A : Arith) (k k' : Kalman) (m : Meas) (clk : ClockIn) (cs : List Cmd) (u : Upd)
    (hc : k.cur = none) (hp : PeerOnly m)
    (h : k.measurement A m clk = some (k', cs, u)) : k'.cur = none ∧ NoFreq cs := by
  unfold Kalman.measurement at h
  split at h
  · cases h; exact ⟨hc, fun c hcm => by cases hcm⟩
  · obtain ⟨est, _, h⟩ := obind h
    obtain ⟨k2, hk2, h⟩ := obind h
    obtain ⟨run, _, h⟩ := obind h
    simp only at h
    have hc2 : k2.cur = none := by
      have := (updateWander_cfg A _ k2 m hk2).2
      rw [this]; exact hc
    rw [hp.1, hp.2] at h
    simp only [Option.bind_some] at h
    obtain ⟨k3, hk3, h⟩ := obind h
    obtain ⟨r, hr, h⟩ := omap h
    obtain ⟨k4, c3, u4⟩ := r
    simp only [Prod.mk.injEq, List.nil_append] at h
    obtain ⟨e1, e2, e3⟩ := h
    subst e1 e2 e3
    have hc3 : k3.cur = none := by
      cases hpd : m.peerDelay with
      | none => rw [hpd] at hk3; simp only [Option.some.injEq] at hk3; rw [← hk3]; exact hc2
      | some pd =>
        rw [hpd] at hk3
        simp only at hk3
        obtain ⟨v, _, hk3⟩ := omap hk3
        rw [← hk3]; exact hc2
    exact steer_unarmed A k3 k4 clk c3 u4 hc3 hr

/-- host calls that carry no Sync / Delay_Resp offset -/
def Quiet : KOp → Prop
  | .meas m _ => PeerOnly m
  | .upd _ => True
  | .demob _ => True

theorem kstep_unarmed (A : Arith) (s : Option Kalman) (op : KOp) (hs : ∀ k, s = some k → k.cur = none) (hq : Quiet op) :
    (∀ k', (kstep A s op).1 = some k' → k'.cur = none) ∧ NoFreq (kstep A s op).2 := by
  cases s with
  | none => exact ⟨(fun k' h => by cases h), (fun c h => by cases h)⟩
  | some k =>
    have hc := hs k rfl
    cases op with
    | meas m clk =>
      unfold kstep
      simp only
      cases hm : k.measurement A m clk with
      | none => exact ⟨(fun k' h => by cases h), (fun c h => by cases h)⟩
      | some r =>
        obtain ⟨k', cs, u⟩ := r
        obtain ⟨e, a⟩ := measurement_unarmed A k k' m clk cs u hc hq hm
        exact ⟨(fun k2 h => by cases h; exact e), a⟩
    | upd clk =>
      unfold kstep
      simp only
      cases hm : k.update A clk with
      | none => exact ⟨(fun k' h => by cases h), (fun c h => by cases h)⟩
      | some r =>
        obtain ⟨k', cs, u⟩ := r
        unfold Kalman.update at hm
        rw [changeFrequency_unarmed A k _ clk hc] at hm
        simp only [Option.bind_some] at hm
        obtain ⟨md, _, hm⟩ := omap hm
        cases hm
        exact ⟨(fun k2 h => by cases h; exact hc), (fun c h => by cases h)⟩
    | demob clk =>
      unfold kstep
      simp only
      cases hm : k.demobilize A clk with
      | none => exact ⟨(fun k' h => by cases h), (fun c h => by cases h)⟩
      | some cs =>
        unfold Kalman.demobilize at hm
        rw [changeFrequency_unarmed A k _ clk hc] at hm
        simp only [Option.map_some, Option.some.injEq] at hm
        subst hm
        exact ⟨(fun k' h => by cases h), (fun c h => by cases h)⟩

theorem krun_unarmed (A : Arith) (ops : List KOp) :
    ∀ (s : Option Kalman), (∀ k, s = some k → k.cur = none) → (∀ op ∈ ops, Quiet op) →
      ∀ cs ∈ krun A s ops, NoFreq cs := by
  induction ops with
  | nil => intro s _ _ cs h; cases h
  | cons op rest ih =>
    intro s hs hq cs h
    obtain ⟨h1, h2⟩ := kstep_unarmed A s op hs (hq op (List.mem_cons_self ..))
    unfold krun at h
    simp only [List.mem_cons] at h
    rcases h with e | h
    · subst e; exact h2
    · exact ih _ h1 (fun o ho => hq o (List.mem_cons_of_mem _ ho)) cs h

end Statime.Servo
