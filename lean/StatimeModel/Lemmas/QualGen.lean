import StatimeModel.Model.Bmca
/-!
# An interpreter for the qualification rules the translator extracts

`translator/extract_qualified.py` reads `ForeignMasterList::is_announce_message_qualified`
(`statime/src/bmc/foreign_master.rs`) on every run and writes `Generated/Qualification.lean`: the rejecting rules in
order, each with its comparison operator and bound.  `evalQualified` gives the list its meaning; `Props/C06.lean`
proves it equal to the model's `FML.qualified`.
-/
namespace Statime.QualGen
open Statime

inductive QRule
  | ownClock                               -- sender's clock identity == own clock identity
  | staleSeq (orEqual : Bool) (bound : Nat) -- `seq.wrapping_sub(last_seq) >= | > bound`, against the last stored message of that master
  | stepsRemoved (orEqual : Bool) (bound : Nat) -- `steps_removed >= | > bound`
  deriving DecidableEq, Repr, Inhabited

def exceeds (orEqual : Bool) (x bound : Nat) : Bool := if orEqual then decide (bound ≤ x) else decide (bound < x)

def QRule.rejects (l : FML) (a : Ann) : QRule → Bool
  | .ownClock => decide (a.hdr.src.clock = l.own.clock)
  | .staleSeq oe b =>
    (match l.masters.find? (fun m => m.id = a.hdr.src) with
     | some m => (match m.recs.getLast? with
                  | some last => exceeds oe ((a.hdr.seq + 65536 - last.ann.hdr.seq) % 65536) b
                  | none => false)
     | none => false)
  | .stepsRemoved oe b => exceeds oe a.body.steps b

def evalQualified (rules : List QRule) (l : FML) (a : Ann) : Bool := rules.all (fun r => !(r.rejects l a))

end Statime.QualGen
