import StatimeModel.Lemmas.FmlSteady
/-
The foreign master list of a port that hears several foreign masters, one of which — `c.src` — announces
once per BMCA period with consecutive sequence numbers and is better (by the data set comparison) than
anything the others announce. The list is split around that master's entry; every operation acts on the
entry as in the one-master case (`FmlSteady`) and leaves the shape of the rest alone.
-/
namespace Statime.Multi
open Statime Statime.Steady

/-! ### `Iterator::max_by` with a dominant element -/

theorem foldl_maxStep_dominant (cmp : Best → Best → Ordering) (x : Best) :
    ∀ (ys : List Best) (cur : Best),
      (cur = x ∨ x ∈ ys) →
      (∀ y, (y = cur ∨ y ∈ ys) → y ≠ x → cmp x y = .gt ∧ cmp y x ≠ .gt) →
      ys.foldl (maxStep cmp) cur = x := by
  intro ys
  induction ys with
  | nil =>
    intro cur h _
    rcases h with h | h
    · simpa using h
    · cases h
  | cons y ys ih =>
    intro cur h hd
    simp only [List.foldl_cons]
    by_cases hc : cur = x
    · subst hc
      by_cases hy : y = cur
      · subst hy
        have : maxStep cmp y y = y := by unfold maxStep; split <;> rfl
        rw [this]
        exact ih y (Or.inl rfl) (fun z hz hne => hd z (by rcases hz with h1 | h1; exact Or.inl h1; exact Or.inr (List.mem_cons_of_mem _ h1)) hne)
      · have hgt := (hd y (Or.inr List.mem_cons_self) hy).1
        have : maxStep cmp cur y = cur := by unfold maxStep; rw [hgt]
        rw [this]
        exact ih cur (Or.inl rfl) (fun z hz hne => hd z (by rcases hz with h1 | h1; exact Or.inl h1; exact Or.inr (List.mem_cons_of_mem _ h1)) hne)
    · have hx : x ∈ y :: ys := by rcases h with h | h; exact absurd h hc; exact h
      by_cases hy : y = x
      · subst hy
        have hng := (hd cur (Or.inl rfl) hc).2
        have : maxStep cmp cur y = y := by
          unfold maxStep
          split
          · rename_i hgt; exact absurd hgt hng
          · rfl
        rw [this]
        exact ih y (Or.inl rfl) (fun z hz hne => hd z (by rcases hz with h1 | h1; exact Or.inr (h1 ▸ List.mem_cons_self); exact Or.inr (List.mem_cons_of_mem _ h1)) hne)
      · have hxs : x ∈ ys := by rcases List.mem_cons.1 hx with h1 | h1; exact absurd h1.symm hy; exact h1
        have hcase : maxStep cmp cur y = cur ∨ maxStep cmp cur y = y := by unfold maxStep; split <;> simp
        apply ih _ (Or.inr hxs)
        intro z hz hne
        rcases hz with h1 | h1
        · rcases hcase with h2 | h2
          · exact hd z (Or.inl (h1.trans h2)) hne
          · exact hd z (Or.inr (by rw [h1, h2]; exact List.mem_cons_self)) hne
        · exact hd z (Or.inr (List.mem_cons_of_mem _ h1)) hne

theorem maxBy_dominant (cmp : Best → Best → Ordering) (l : List Best) (x : Best) (hx : x ∈ l)
    (hd : ∀ y ∈ l, y ≠ x → cmp x y = .gt ∧ cmp y x ≠ .gt) : maxBy cmp l = some x := by
  cases l with
  | nil => cases hx
  | cons c ys =>
    have := foldl_maxStep_dominant cmp x ys c
      (by rcases List.mem_cons.1 hx with h | h
          · exact Or.inl h.symm
          · exact Or.inr h)
      (by intro y hy hne
          apply hd y _ hne
          rcases hy with h | h
          · rw [h]; exact List.mem_cons_self
          · exact List.mem_cons_of_mem _ h)
    simp only [maxBy, this]

/-! ### `take_qualified_announce_messages`, entry by entry -/

/-- what happens to one master: with two or more records its newest one is taken out -/
def tq1 (m : ForeignMaster) : ForeignMaster × Option FRec :=
  if m.recs.length ≥ FM_THRESHOLD then
    match m.recs.getLast? with
    | some r => ({ m with recs := m.recs.dropLast }, some r)
    | none => (m, none)
  else (m, none)

theorem tqStep_eq (m : ForeignMaster) (acc : List ForeignMaster × List FRec) :
    tqStep m acc = ((tq1 m).1 :: acc.1, acc.2 ++ (tq1 m).2.toList) := by
  unfold tqStep tq1
  by_cases h : m.recs.length ≥ FM_THRESHOLD
  · simp only [h, ↓reduceIte]
    cases hl : m.recs.getLast? with
    | none => simp
    | some r => simp
  · simp only [h, ↓reduceIte]
    simp

theorem foldr_tqStep (ms : List ForeignMaster) :
    ms.foldr tqStep ([], []) = (ms.map (fun m => (tq1 m).1), ms.reverse.filterMap (fun m => (tq1 m).2)) := by
  induction ms with
  | nil => rfl
  | cons m ms ih =>
    simp only [List.foldr_cons, ih, tqStep_eq, List.map_cons, List.reverse_cons, List.filterMap_append]
    cases h : (tq1 m).2 <;> simp [h]

theorem tq1_id (m : ForeignMaster) : (tq1 m).1.id = m.id := by
  unfold tq1
  split
  · split <;> rfl
  · rfl

theorem tq1_recs_sub (m : ForeignMaster) : ∀ r ∈ (tq1 m).1.recs, r ∈ m.recs := by
  intro r hr
  unfold tq1 at hr
  split at hr
  · split at hr
    · exact List.dropLast_subset _ hr
    · exact hr
  · exact hr

theorem tq1_out_mem (m : ForeignMaster) (r : FRec) (h : (tq1 m).2 = some r) : r ∈ m.recs := by
  unfold tq1 at h
  split at h
  · split at h
    · rename_i hl
      simp only [Option.some.injEq] at h
      subst h
      exact List.mem_of_getLast? hl
    · cases h
  · cases h

/-! ### the list split around the steady master's entry -/

/-- the other masters: none has the steady master's identity, and everything they hold satisfies `S` -/
def Others (src : PortId) (S : Ann → Prop) (es : List ForeignMaster) : Prop :=
  ∀ e ∈ es, e.id ≠ src ∧ ∀ r ∈ e.recs, S r.ann

theorem others_nil (src : PortId) (S : Ann → Prop) : Others src S [] := by intro e he; cases he

theorem find_split (src : PortId) (S : Ann → Prop) (pre post : List ForeignMaster) (m : ForeignMaster)
    (hpre : Others src S pre) (hm : m.id = src) :
    (pre ++ m :: post).find? (fun x => x.id = src) = some m := by
  induction pre with
  | nil => simp [hm]
  | cons e es ih =>
    have he := (hpre e List.mem_cons_self).1
    simp only [List.cons_append, List.find?_cons, he, decide_false]
    exact ih (fun x hx => hpre x (List.mem_cons_of_mem _ hx))

theorem any_split (src : PortId) (pre post : List ForeignMaster) (m : ForeignMaster) (hm : m.id = src) :
    (pre ++ m :: post).any (fun x => x.id = src) = true := by
  simp only [List.any_append, List.any_cons, hm, decide_true, Bool.true_or, Bool.or_true]

theorem map_others (src : PortId) (S : Ann → Prop) (es : List ForeignMaster) (f : ForeignMaster → ForeignMaster)
    (h : Others src S es) : es.map (fun x => if x.id = src then f x else x) = es := by
  induction es with
  | nil => rfl
  | cons e es ih =>
    have he := (h e List.mem_cons_self).1
    simp only [List.map_cons, he, ↓reduceIte]
    rw [ih (fun x hx => h x (List.mem_cons_of_mem _ hx))]

/-- registering an Announce of the steady master touches its entry only -/
theorem register_src (c : Ctx) (S : Ann → Prop) (l : FML) (pre post : List ForeignMaster) (recs : List FRec) (r : FRec)
    (a : Ann) (age : Int) (hown : l.own = c.own) (hl : c.Listens)
    (hm : l.masters = pre ++ ⟨c.src, recs ++ [r]⟩ :: post) (hpre : Others c.src S pre) (hpost : Others c.src S post)
    (hq : r.ann.hdr.seq < 65536) (hn : Next c r.ann.hdr.seq a)
    (hfresh : ∀ x ∈ recs ++ [r], x.age < l.cutoff) :
    l.register a age =
      { l with masters := pre ++ ⟨c.src,
          if (recs ++ [r]).length < MAX_ANNOUNCE_MESSAGES then recs ++ [r] ++ [⟨a, age⟩]
          else (recs ++ [r]).drop 1 ++ [⟨a, age⟩]⟩ :: post } := by
  obtain ⟨hsrc, hseq, hsteps⟩ := hn
  have hstale : l.stale a = false := by
    unfold FML.stale
    rw [hm, hsrc, find_split c.src S pre post _ hpre rfl]
    simp only [List.getLast?_append, List.getLast?_singleton, Option.some_or]
    rw [hseq]; exact seqStale_succ _ hq
  have hqual : l.qualified a = true := by
    unfold FML.qualified
    rw [hstale, hsrc, hown]
    simp only [ne_eq, hl.2.1, not_false_eq_true, decide_true, Bool.not_false, Bool.and_self,
      Bool.true_and, decide_eq_true_eq]
    exact hsteps
  unfold FML.register
  rw [hqual]
  simp only [Bool.not_true, Bool.false_eq_true, ↓reduceIte]
  rw [hm, hsrc, any_split c.src pre post _ rfl]
  simp only [↓reduceIte, List.map_append, List.map_cons]
  rw [map_others c.src S pre _ hpre, map_others c.src S post _ hpost]
  have hp : (ForeignMaster.purge l.cutoff ⟨c.src, recs ++ [r]⟩).recs = recs ++ [r] := by
    simp only [ForeignMaster.purge]
    exact filter_all _ _ (fun x hx => by simpa using hfresh x hx)
  unfold ForeignMaster.register
  rw [hp]
  split <;> rfl

/-- an Announce of another sender leaves the steady master's entry alone; the others still satisfy `S` -/
theorem register_other (c : Ctx) (S : Ann → Prop) (l : FML) (pre post : List ForeignMaster) (m : ForeignMaster)
    (a : Ann) (age : Int) (hm : l.masters = pre ++ m :: post) (hmid : m.id = c.src)
    (hpre : Others c.src S pre) (hpost : Others c.src S post) (hne : a.hdr.src ≠ c.src) (hS : S a) :
    ∃ pre' post', (l.register a age).masters = pre' ++ m :: post' ∧ Others c.src S pre' ∧ Others c.src S post' ∧
      (l.register a age).interval = l.interval ∧ (l.register a age).own = l.own := by
  have hreg : ∀ (e : ForeignMaster), e.id ≠ c.src → (∀ r ∈ e.recs, S r.ann) →
      ∀ r ∈ (e.register l.cutoff a age).recs, S r.ann := by
    intro e _ he r hr
    rcases register_recs _ _ _ _ r hr with h1 | h1
    · exact he r h1
    · subst h1; exact hS
  unfold FML.register
  split
  · exact ⟨pre, post, hm, hpre, hpost, rfl, rfl⟩
  · split
    · refine ⟨pre.map (fun x => if x.id = a.hdr.src then x.register l.cutoff a age else x),
        post.map (fun x => if x.id = a.hdr.src then x.register l.cutoff a age else x), ?_, ?_, ?_, rfl, rfl⟩
      · simp only
        rw [hm, List.map_append, List.map_cons]
        have : ¬ m.id = a.hdr.src := by rw [hmid]; exact fun e => hne e.symm
        simp only [this, ↓reduceIte]
      · intro e he
        simp only [List.mem_map] at he
        obtain ⟨e0, he0, rfl⟩ := he
        have h0 := hpre e0 he0
        split
        · exact ⟨by rw [register_id]; exact h0.1, hreg e0 h0.1 h0.2⟩
        · exact h0
      · intro e he
        simp only [List.mem_map] at he
        obtain ⟨e0, he0, rfl⟩ := he
        have h0 := hpost e0 he0
        split
        · exact ⟨by rw [register_id]; exact h0.1, hreg e0 h0.1 h0.2⟩
        · exact h0
    · split
      · refine ⟨pre, post ++ [⟨a.hdr.src, [⟨a, 0⟩]⟩], ?_, hpre, ?_, rfl, rfl⟩
        · simp only; rw [hm]; simp
        · intro e he
          simp only [List.mem_append, List.mem_singleton] at he
          rcases he with h1 | h1
          · exact hpost e h1
          · subst h1
            refine ⟨hne, ?_⟩
            intro r hr
            simp only [List.mem_singleton] at hr
            subst hr; exact hS
      · exact ⟨pre, post, hm, hpre, hpost, rfl, rfl⟩

theorem others_map_tq1 (src : PortId) (S : Ann → Prop) (es : List ForeignMaster) (h : Others src S es) :
    Others src S (es.map (fun m => (tq1 m).1)) := by
  intro e he
  simp only [List.mem_map] at he
  obtain ⟨e0, he0, rfl⟩ := he
  have h0 := h e0 he0
  exact ⟨by rw [tq1_id]; exact h0.1, fun r hr => h0.2 r (tq1_recs_sub e0 r hr)⟩

theorem others_out (src : PortId) (S : Ann → Prop) (es : List ForeignMaster) (h : Others src S es) :
    ∀ r ∈ es.reverse.filterMap (fun m => (tq1 m).2), S r.ann := by
  intro r hr
  simp only [List.mem_filterMap, List.mem_reverse] at hr
  obtain ⟨e, he, hre⟩ := hr
  exact (h e he).2 r (tq1_out_mem e r hre)

theorem others_stepAge (src : PortId) (S : Ann → Prop) (cutoff s : Int) (es : List ForeignMaster) (h : Others src S es) :
    Others src S ((es.map (ForeignMaster.stepAge cutoff s)).filter (fun m => !m.recs.isEmpty)) := by
  intro e he
  simp only [List.mem_filter, List.mem_map] at he
  obtain ⟨⟨e0, he0, rfl⟩, _⟩ := he
  have h0 := h e0 he0
  refine ⟨h0.1, ?_⟩
  intro r hr
  have := purge_sub _ _ r hr
  simp only [List.mem_map] at this
  obtain ⟨r0, hr0, rfl⟩ := this
  exact h0.2 r0 hr0

/-! ### the steady master among others -/

/-- `a` beats `a'` in the data set comparison as seen from the receiving port `own`, both ways round -/
def Dom (own : PortId) (a a' : Ann) : Prop :=
  ((CmpDS.ofAnnounce a own).compare (CmpDS.ofAnnounce a' own)).asOrdering = .gt ∧
  ((CmpDS.ofAnnounce a' own).compare (CmpDS.ofAnnounce a own)).asOrdering = .lt

/-- an Announce of another sender: worse than every good Announce (`G`) of the steady master -/
def SOther (c : Ctx) (G : Ann → Prop) (a' : Ann) : Prop := a'.hdr.src ≠ c.src ∧ ∀ a, G a → Dom c.own a a'

theorem best_compare_dom (own : PortId) (a a' : Ann) (x y : Int) (h : Dom own a a') :
    Best.compare ⟨a, x, own⟩ ⟨a', y, own⟩ = .gt ∧ Best.compare ⟨a', y, own⟩ ⟨a, x, own⟩ ≠ .gt := by
  unfold Best.compare
  simp only
  rw [h.1, h.2]
  exact ⟨rfl, by simp⟩

/-- between rounds -/
def MPost (c : Ctx) (G : Ann → Prop) (l : FML) (q : Nat) : Prop :=
  l.interval = c.interval ∧ l.own = c.own ∧ q < 65536 ∧
  ∃ pre post recs r, l.masters = pre ++ ⟨c.src, recs ++ [r]⟩ :: post ∧
    Others c.src (SOther c G) pre ∧ Others c.src (SOther c G) post ∧ r.ann.hdr.seq = q ∧
    (∀ x ∈ recs ++ [r], x.age < l.cutoff) ∧ (recs ++ [r]).length ≤ MAX_ANNOUNCE_MESSAGES

/-- after the round's Announce `a` of the steady master -/
def MMid (c : Ctx) (G : Ann → Prop) (l : FML) (a : Ann) : Prop :=
  l.interval = c.interval ∧ l.own = c.own ∧
  ∃ pre post recs p, l.masters = pre ++ ⟨c.src, recs ++ [p, ⟨a, 0⟩]⟩ :: post ∧
    Others c.src (SOther c G) pre ∧ Others c.src (SOther c G) post ∧ p.ann.hdr.seq < 65536 ∧
    a.hdr.seq = (p.ann.hdr.seq + 1) % 65536 ∧
    (∀ x ∈ recs ++ [p, ⟨a, 0⟩], x.age < l.cutoff) ∧ (recs ++ [p, ⟨a, 0⟩]).length ≤ MAX_ANNOUNCE_MESSAGES

theorem cut (l l' : FML) (h : l'.interval = l.interval) : l'.cutoff = l.cutoff := cutoff_congr l l' h

theorem cutoff_mk (l : FML) (ms : List ForeignMaster) : (⟨ms, l.interval, l.own⟩ : FML).cutoff = l.cutoff := rfl

/-- **the steady master's Announce** -/
theorem m_announce_src (c : Ctx) (G : Ann → Prop) (l : FML) (q : Nat) (a : Ann) (hl : c.Listens) (hpos : 0 < l.cutoff)
    (h : MPost c G l q) (hn : Next c q a) : MMid c G (bmcaRegister l c.acc a).1 a := by
  obtain ⟨hint, hown, hq, pre, post, recs, r, hm, hpre, hpost, hrq, hfresh, hlen⟩ := h
  subst hrq
  have hcond : a.hdr.src ≠ l.own ∧ acceptable c.acc a.hdr.src.clock = true := by
    rw [hn.1, hown]; exact ⟨hl.1, hl.2.2⟩
  unfold bmcaRegister
  rw [if_pos hcond]
  simp only
  rw [register_src c (SOther c G) l pre post recs r a 0 hown hl hm hpre hpost hq hn hfresh]
  refine ⟨hint, hown, ?_⟩
  by_cases hc : (recs ++ [r]).length < MAX_ANNOUNCE_MESSAGES
  · rw [if_pos hc]
    refine ⟨pre, post, recs, r, by simp, hpre, hpost, hq, hn.2.1, ?_, ?_⟩
    · rw [cutoff_mk]
      intro x hx
      simp only [List.mem_append, List.mem_cons, List.not_mem_nil, or_false] at hx
      rcases hx with hx | hx | hx
      · exact hfresh x (by simp [hx])
      · exact hfresh x (by simp [hx])
      · subst hx; exact hpos
    · simp only [List.length_append, List.length_cons, List.length_nil] at hc ⊢
      omega
  · rw [if_neg hc]
    have hfull : recs.length + 1 = MAX_ANNOUNCE_MESSAGES := by
      simp only [List.length_append, List.length_cons, List.length_nil] at hc hlen
      omega
    cases recs with
    | nil => simp [MAX_ANNOUNCE_MESSAGES] at hfull
    | cons p0 recs' =>
      refine ⟨pre, post, recs', r, by simp, hpre, hpost, hq, hn.2.1, ?_, ?_⟩
      · rw [cutoff_mk]
        intro x hx
        simp only [List.mem_append, List.mem_cons, List.not_mem_nil, or_false] at hx
        rcases hx with hx | hx | hx
        · exact hfresh x (by simp [hx])
        · exact hfresh x (by simp [hx])
        · subst hx; exact hpos
      · simp only [List.length_append, List.length_cons, List.length_nil] at hfull ⊢
        omega

/-- an Announce of another sender between rounds -/
theorem m_announce_other_post (c : Ctx) (G : Ann → Prop) (l : FML) (q : Nat) (a' : Ann)
    (h : MPost c G l q) (hs : SOther c G a') : MPost c G (bmcaRegister l c.acc a').1 q := by
  obtain ⟨hint, hown, hq, pre, post, recs, r, hm, hpre, hpost, hrq, hfresh, hlen⟩ := h
  unfold bmcaRegister
  split
  · obtain ⟨pre', post', hm', hpre', hpost', hi', ho'⟩ :=
      register_other c (SOther c G) l pre post ⟨c.src, recs ++ [r]⟩ a' 0 hm rfl hpre hpost hs.1 hs
    exact ⟨by rw [hi', hint], by rw [ho', hown], hq, pre', post', recs, r, hm', hpre', hpost', hrq,
      by rw [cut l _ hi']; exact hfresh, hlen⟩
  · exact ⟨hint, hown, hq, pre, post, recs, r, hm, hpre, hpost, hrq, hfresh, hlen⟩

/-- an Announce of another sender after the steady master's -/
theorem m_announce_other_mid (c : Ctx) (G : Ann → Prop) (l : FML) (a a' : Ann)
    (h : MMid c G l a) (hs : SOther c G a') : MMid c G (bmcaRegister l c.acc a').1 a := by
  obtain ⟨hint, hown, pre, post, recs, p, hm, hpre, hpost, hpq, hseq, hfresh, hlen⟩ := h
  unfold bmcaRegister
  split
  · obtain ⟨pre', post', hm', hpre', hpost', hi', ho'⟩ :=
      register_other c (SOther c G) l pre post ⟨c.src, recs ++ [p, ⟨a, 0⟩]⟩ a' 0 hm rfl hpre hpost hs.1 hs
    exact ⟨by rw [hi', hint], by rw [ho', hown], pre', post', recs, p, hm', hpre', hpost', hpq, hseq,
      by rw [cut l _ hi']; exact hfresh, hlen⟩
  · exact ⟨hint, hown, pre, post, recs, p, hm, hpre, hpost, hpq, hseq, hfresh, hlen⟩

theorem tq1_src (src : PortId) (recs : List FRec) (p r : FRec) :
    tq1 ⟨src, recs ++ [p, r]⟩ = (⟨src, recs ++ [p]⟩, some r) := by
  unfold tq1
  have hlen : (recs ++ [p, r]).length ≥ FM_THRESHOLD := by simp [FM_THRESHOLD]
  have hlast : (recs ++ [p, r]).getLast? = some r := by simp
  have hdrop : (recs ++ [p, r]).dropLast = recs ++ [p] := by
    have : recs ++ [p, r] = (recs ++ [p]) ++ [r] := by simp
    rw [this, List.dropLast_concat]
  simp only [hlen, ↓reduceIte, hlast, hdrop]

/-- **the BMCA run**: the steady master is Erbest, with the round's Announce -/
theorem m_bmca (c : Ctx) (G : Ann → Prop) (l : FML) (a : Ann) (s : Int) (hl : c.Listens) (hsc : s < l.cutoff)
    (hsrc : a.hdr.src = c.src) (hsteps : a.body.steps < STEPS_CUTOFF) (hG : G a) (h : MMid c G l a) :
    (takeBest l c.acc).2 = some ⟨a, 0, c.own⟩ ∧ MPost c G ((takeBest l c.acc).1.stepAge s) a.hdr.seq := by
  obtain ⟨hint, hown, pre, post, recs, p, hm, hpre, hpost, hpq, hseq, hfresh, hlen⟩ := h
  -- what take_qualified does
  have htq : l.takeQualified =
      ({ l with masters := pre.map (fun m => (tq1 m).1) ++ ⟨c.src, recs ++ [p]⟩ :: post.map (fun m => (tq1 m).1) },
       post.reverse.filterMap (fun m => (tq1 m).2) ++ ([⟨a, 0⟩] : List FRec) ++ pre.reverse.filterMap (fun m => (tq1 m).2)) := by
    unfold FML.takeQualified
    rw [foldr_tqStep, hm]
    simp only [List.map_append, List.map_cons, tq1_src, List.reverse_append, List.reverse_cons,
      List.filterMap_append, List.filterMap_cons, List.filterMap_nil, List.append_assoc, List.singleton_append,
      List.nil_append]
  have hpre' := others_map_tq1 c.src (SOther c G) pre hpre
  have hpost' := others_map_tq1 c.src (SOther c G) post hpost
  have hqpre := others_out c.src (SOther c G) pre hpre
  have hqpost := others_out c.src (SOther c G) post hpost
  -- the best of the candidates
  have hbest : findBest ((post.reverse.filterMap (fun m => (tq1 m).2) ++ ([⟨a, 0⟩] : List FRec) ++
      pre.reverse.filterMap (fun m => (tq1 m).2)).map
        (fun (r : FRec) => ({ ann := r.ann, age := r.age, identity := l.own } : Best))) = some ⟨a, 0, c.own⟩ := by
    unfold findBest
    apply maxBy_dominant
    · simp only [List.map_append, List.map_cons, List.map_nil, List.mem_append, List.mem_cons, List.not_mem_nil,
        or_false, hown]
      exact Or.inl (Or.inr trivial)
    · intro y hy hne
      simp only [List.map_append, List.map_cons, List.map_nil, List.mem_append, List.mem_cons, List.not_mem_nil,
        or_false, List.mem_map] at hy
      have key : ∀ r' : FRec, SOther c G r'.ann → y = ({ ann := r'.ann, age := r'.age, identity := l.own } : Best) →
          Best.compare ⟨a, 0, c.own⟩ y = .gt ∧ Best.compare y ⟨a, 0, c.own⟩ ≠ .gt := by
        intro r' hs hy'
        subst hy'
        rw [hown]
        exact best_compare_dom c.own a r'.ann 0 r'.age (hs.2 a hG)
      rcases hy with (⟨r', hr', rfl⟩ | hy) | ⟨r', hr', rfl⟩
      · exact key r' (hqpost r' hr') rfl
      · exact absurd (by rw [hy, hown]) hne
      · exact key r' (hqpre r' hr') rfl
  have hcond : a.hdr.src ≠ l.own ∧ acceptable c.acc a.hdr.src.clock = true := by
    rw [hsrc, hown]; exact ⟨hl.1, hl.2.2⟩
  -- re-registration puts the record back
  let l1 : FML := { l with masters := pre.map (fun m => (tq1 m).1) ++ ⟨c.src, recs ++ [p]⟩ :: post.map (fun m => (tq1 m).1) }
  have hfresh1 : ∀ x ∈ recs ++ [p], x.age < l1.cutoff := by
    intro x hx
    have e : l1.cutoff = l.cutoff := cut l l1 rfl
    rw [e]
    apply hfresh x
    simp only [List.mem_append, List.mem_cons, List.not_mem_nil, or_false] at hx ⊢
    rcases hx with hx | hx
    · exact Or.inl hx
    · exact Or.inr (Or.inl hx)
  have hreg := register_src c (SOther c G) l1 (pre.map (fun m => (tq1 m).1)) (post.map (fun m => (tq1 m).1)) recs p a 0
    hown hl rfl hpre' hpost' hpq ⟨hsrc, hseq, hsteps⟩ hfresh1
  have hlt : (recs ++ [p]).length < MAX_ANNOUNCE_MESSAGES := by
    simp only [List.length_append, List.length_cons, List.length_nil] at hlen ⊢
    omega
  rw [if_pos hlt] at hreg
  have htb : takeBest l c.acc =
      ({ l with masters := pre.map (fun m => (tq1 m).1) ++ ⟨c.src, recs ++ [p] ++ [⟨a, 0⟩]⟩ :: post.map (fun m => (tq1 m).1) },
       some ⟨a, 0, c.own⟩) := by
    unfold takeBest
    rw [htq]
    simp only
    rw [hbest]
    simp only
    rw [if_pos hcond]
    have : ({ l with masters := pre.map (fun m => (tq1 m).1) ++ ⟨c.src, recs ++ [p]⟩ :: post.map (fun m => (tq1 m).1) } : FML) = l1 := rfl
    rw [this, hreg]
  rw [htb]
  refine ⟨rfl, ?_⟩
  simp only
  refine ⟨hint, hown, by rw [hseq]; exact Nat.mod_lt _ (by decide), ?_⟩
  let aged : List FRec := (recs ++ [p]).map (fun (r : FRec) => { r with age := r.age + s })
  refine ⟨(pre.map (fun m => (tq1 m).1) |>.map (ForeignMaster.stepAge l.cutoff s)).filter (fun m => !m.recs.isEmpty),
    (post.map (fun m => (tq1 m).1) |>.map (ForeignMaster.stepAge l.cutoff s)).filter (fun m => !m.recs.isEmpty),
    aged.filter (fun r => r.age < l.cutoff), ⟨a, s⟩, ?_, ?_, ?_, rfl, ?_, ?_⟩
  · simp only [FML.stepAge, List.map_append, List.map_cons, List.filter_append]
    have e : ({ l with masters := pre.map (fun m => (tq1 m).1) ++ ⟨c.src, recs ++ [p] ++ [⟨a, 0⟩]⟩ :: post.map (fun m => (tq1 m).1) } : FML).cutoff = l.cutoff := cut l _ rfl
    rw [e]
    have hrecs : (ForeignMaster.stepAge l.cutoff s ⟨c.src, recs ++ [p] ++ [⟨a, 0⟩]⟩) =
        ⟨c.src, aged.filter (fun r => r.age < l.cutoff) ++ [⟨a, s⟩]⟩ := by
      simp only [ForeignMaster.stepAge, ForeignMaster.purge, aged, List.map_append, List.filter_append,
        List.map_cons, List.map_nil, Int.zero_add, List.filter_cons, hsc, decide_true, ↓reduceIte, List.filter_nil]
    rw [List.filter_cons, hrecs]
    simp
  · exact others_stepAge c.src (SOther c G) l.cutoff s _ hpre'
  · exact others_stepAge c.src (SOther c G) l.cutoff s _ hpost'
  · have e : (FML.stepAge { l with masters := pre.map (fun m => (tq1 m).1) ++ ⟨c.src, recs ++ [p] ++ [⟨a, 0⟩]⟩ :: post.map (fun m => (tq1 m).1) } s).cutoff = l.cutoff := cut l _ rfl
    rw [e]
    intro x hx
    simp only [List.mem_append, List.mem_filter, List.mem_singleton, decide_eq_true_eq] at hx
    rcases hx with ⟨_, hx⟩ | hx
    · exact hx
    · subst hx; exact hsc
  · have h1 : (aged.filter (fun r => r.age < l.cutoff)).length ≤ aged.length := List.length_filter_le _ _
    have h2 : aged.length = recs.length + 1 := by simp [aged]
    simp only [List.length_append, List.length_cons, List.length_nil] at hlen ⊢
    omega

/-- the first Announce of the steady master, whatever the others have announced before -/
theorem m_first (c : Ctx) (G : Ann → Prop) (l : FML) (a : Ann) (hl : c.Listens) (hint : l.interval = c.interval)
    (hown : l.own = c.own) (hothers : Others c.src (SOther c G) l.masters) (hroom : l.masters.length < MAX_FOREIGN_MASTERS)
    (hsrc : a.hdr.src = c.src) (hq : a.hdr.seq < 65536) (hsteps : a.body.steps < STEPS_CUTOFF) (hpos : 0 < l.cutoff) :
    MPost c G (bmcaRegister l c.acc a).1 a.hdr.seq := by
  have hcond : a.hdr.src ≠ l.own ∧ acceptable c.acc a.hdr.src.clock = true := by
    rw [hsrc, hown]; exact ⟨hl.1, hl.2.2⟩
  have hnone : l.masters.find? (fun m => m.id = a.hdr.src) = none := by
    rw [List.find?_eq_none]
    intro e he
    simp only [decide_eq_true_eq]
    rw [hsrc]; exact (hothers e he).1
  have hany : l.masters.any (fun m => m.id = a.hdr.src) = false := by
    rw [List.any_eq_false]
    intro e he
    simp only [decide_eq_true_eq]
    rw [hsrc]; exact (hothers e he).1
  have hqual : l.qualified a = true := by
    unfold FML.qualified FML.stale
    rw [hnone]
    simp only [Bool.not_false, Bool.and_true, Bool.and_eq_true, decide_eq_true_eq]
    rw [hsrc, hown]
    exact ⟨hl.2.1, hsteps⟩
  unfold bmcaRegister
  rw [if_pos hcond]
  simp only
  unfold FML.register
  rw [hqual, hany]
  simp only [Bool.not_true, Bool.false_eq_true, ↓reduceIte]
  rw [if_pos hroom]
  refine ⟨hint, hown, hq, l.masters, [], [], ⟨a, 0⟩, by rw [hsrc]; simp, hothers, others_nil _ _, rfl, ?_,
    by simp [MAX_ANNOUNCE_MESSAGES]⟩
  intro x hx
  simp only [List.nil_append, List.mem_singleton] at hx
  subst hx
  rw [cutoff_mk]
  exact hpos

end Statime.Multi
