import StatimeModel.Lemmas.InstanceInv
/-
Which master a Slave port is bound to after a BMCA run (`SlaveState::remote_master`), and which parent the data
sets name: both are the sender of the one Announce every S1 decision of the run carries.
-/
namespace Statime

/-- the master a Slave port listens to (`SlaveState::remote_master`; the `RM` part of the state line) -/
def boundTo (p : Port) : Option PortId :=
  match p.st with
  | .slave r _ _ _ => some r
  | _ => none

theorem boundTo_congr {p q : Port} (h : q.st = p.st) : boundTo q = boundTo p := by
  unfold boundTo; rw [h]

theorem boundTo_some_isSlave {p : Port} {r : PortId} (h : boundTo p = some r) : p.st.isSlave = true := by
  unfold boundTo at h
  cases hst : p.st <;> simp [hst] at h
  simp [PState.isSlave]

/-- **Decision S1 applied to a port** (any port that is not disabled by a peer-delay fault, whatever it was doing
before): afterwards the port is Slave of the sender of the selected Announce — also when it was already Slave of
another port of the same clock — and that sender is the parent the data sets name. -/
theorem setRecommendedState_s1_binds (p p' : Port) (a : Ann) (s s' : InstState) (ev : List Out) (pend : Option (List Out))
    (hf : p.st ≠ .faulty)
    (h : p.setRecommendedState (.s1 a) s = .ok (p', s', ev, pend)) :
    boundTo p' = some a.hdr.src ∧ s'.parent.parentPort = a.hdr.src := by
  unfold Port.setRecommendedState at h
  cases h1 : p.setRecommendedPortState (.s1 a) s.dflt with
  | error e => rw [h1] at h; cases h
  | ok r =>
    obtain ⟨p1, ev1, pend1⟩ := r
    rw [h1] at h
    simp only [bind, Except.bind] at h
    cases h2 : s.applyParentS1 a with
    | error e => rw [h2] at h; cases h
    | ok s1 =>
      rw [h2] at h
      simp only [Except.ok.injEq, Prod.mk.injEq] at h
      obtain ⟨hp, hs, _, _⟩ := h
      subst hp hs
      refine ⟨?_, ?_⟩
      · unfold Port.setRecommendedPortState at h1
        split at h1
        · cases h1
        · cases hst : p.st with
          | faulty => exact absurd hst hf
          | slave old sy dl l =>
            by_cases ho : old = a.hdr.src
            · simp only [portMove, hst, ho, ne_eq, not_true_eq_false, ↓reduceIte, Except.ok.injEq, Prod.mk.injEq] at h1
              obtain ⟨hp, _, _⟩ := h1
              subst hp
              simp [boundTo, hst, ho]
            · simp only [portMove, hst, ne_eq, ho, not_false_eq_true, ↓reduceIte, Except.ok.injEq, Prod.mk.injEq] at h1
              obtain ⟨hp, _, _⟩ := h1
              subst hp
              simp [boundTo, Port.setState]
          | listening | master | passive =>
            simp only [portMove, hst, Except.ok.injEq, Prod.mk.injEq] at h1
            obtain ⟨hp, _, _⟩ := h1
            subst hp
            simp [boundTo, Port.setState]
      · unfold InstState.applyParentS1 at h2
        split at h2
        · cases h2
        · simp only [Except.ok.injEq] at h2
          subst h2
          rfl

/-- the Announce every S1 decision of one run carries: the run's Ebest, when the own clock is not better (and may
be a slave at all) -/
def theAnn (dflt : DefaultDS) (ebest : Option Best) : Option Ann :=
  if 1 ≤ dflt.quality.clockClass ∧ dflt.quality.clockClass ≤ 127 then none
  else
    match compareD0Best (CmpDS.ofOwn dflt) ebest with
    | .worse g => some g.ann
    | _ => none

theorem recommend_s1 (dflt : DefaultDS) (ebest er : Option Best) (l : Bool) (a : Ann)
    (h : recommend dflt ebest er l = some (.s1 a)) : theAnn dflt ebest = some a := by
  unfold recommend at h
  split at h
  · cases h
  · split at h
    · simp only [Option.some.injEq] at h
      unfold recommendLow at h
      split at h <;> cases h
    · rename_i hlow
      simp only [Option.some.injEq] at h
      unfold recommendHigh at h
      unfold theAnn
      rw [if_neg hlow]
      cases hc : compareD0Best (CmpDS.ofOwn dflt) ebest with
      | better => rw [hc] at h; cases h
      | same => rw [hc] at h; cases h
      | worse g =>
        rw [hc] at h
        simp only at h
        cases er with
        | none => cases h
        | some p =>
          simp only at h
          unfold compareGlobalAndPort at h
          split at h
          · injection h with h; subst h; rfl
          · split at h <;> cases h

theorem recommend_m (dflt : DefaultDS) (ebest er : Option Best) (l : Bool) (r : Recommended)
    (h : recommend dflt ebest er l = some r) (hr : (∃ d, r = .m1 d) ∨ ∃ d, r = .m2 d) : theAnn dflt ebest = none := by
  unfold recommend at h
  unfold theAnn
  split at h
  · cases h
  · split at h
    · rename_i hlow; rw [if_pos hlow]
    · rename_i hlow
      rw [if_neg hlow]
      simp only [Option.some.injEq] at h
      unfold recommendHigh at h
      cases hc : compareD0Best (CmpDS.ofOwn dflt) ebest with
      | better => rfl
      | same => rfl
      | worse g =>
        rw [hc] at h
        simp only at h
        cases er with
        | none => subst h; rcases hr with ⟨d, hd⟩ | ⟨d, hd⟩ <;> cases hd
        | some p =>
          simp only at h
          unfold compareGlobalAndPort at h
          split at h
          · subst h; rcases hr with ⟨d, hd⟩ | ⟨d, hd⟩ <;> cases hd
          · split at h <;> (subst h; rcases hr with ⟨d, hd⟩ | ⟨d, hd⟩ <;> cases hd)

/-- the parent the data sets name is the sender of the run's S1 Announce -/
def ParentIs (dflt : DefaultDS) (ebest : Option Best) (s : InstState) : Prop :=
  ∃ a, theAnn dflt ebest = some a ∧ s.parent.parentPort = a.hdr.src

/-- one application of a recommended state: once the parent is the S1 sender it stays so; a port that is Slave
afterwards is bound to the S1 sender, which is then the parent -/
theorem setRecommendedState_bind (dflt : DefaultDS) (ebest er : Option Best) (l : Bool) (r : Recommended)
    (p p1 : Port) (s s1 : InstState) (e : List Out) (pd : Option (List Out)) (hd : s.dflt = dflt)
    (hr : recommend dflt ebest er l = some r)
    (h : p.setRecommendedState r s = .ok (p1, s1, e, pd)) :
    (ParentIs dflt ebest s → ParentIs dflt ebest s1) ∧
    (p1.st.isSlave = true → ParentIs dflt ebest s1 ∧ ∃ a, theAnn dflt ebest = some a ∧ boundTo p1 = some a.hdr.src) := by
  have spec := setRecommendedState_spec p p1 r s s1 e pd h
  obtain ⟨_, _, _, _, _, hsl, _, _, _, hfa, _, _, _⟩ := spec
  cases r with
  | m1 d =>
    have hn := recommend_m dflt ebest er l _ hr (Or.inl ⟨d, rfl⟩)
    refine ⟨?_, ?_⟩
    · rintro ⟨a, ha, _⟩; rw [hn] at ha; cases ha
    · intro hs; obtain ⟨a, ha⟩ := hsl hs; cases ha
  | m2 d =>
    have hn := recommend_m dflt ebest er l _ hr (Or.inr ⟨d, rfl⟩)
    refine ⟨?_, ?_⟩
    · rintro ⟨a, ha, _⟩; rw [hn] at ha; cases ha
    · intro hs; obtain ⟨a, ha⟩ := hsl hs; cases ha
  | m3 x =>
    refine ⟨?_, ?_⟩
    · intro hq
      unfold Port.setRecommendedState at h
      simp only [bind, Except.bind] at h
      cases hps : p.setRecommendedPortState (.m3 x) s.dflt with
      | error er => rw [hps] at h; cases h
      | ok v =>
        rw [hps] at h
        simp only [Except.ok.injEq, Prod.mk.injEq] at h
        obtain ⟨_, e2, _, _⟩ := h
        rw [← e2]; exact hq
    · intro hs; obtain ⟨a, ha⟩ := hsl hs; cases ha
  | p1 x =>
    refine ⟨?_, ?_⟩
    · intro hq
      unfold Port.setRecommendedState at h
      simp only [bind, Except.bind] at h
      cases hps : p.setRecommendedPortState (.p1 x) s.dflt with
      | error er => rw [hps] at h; cases h
      | ok v =>
        rw [hps] at h
        simp only [Except.ok.injEq, Prod.mk.injEq] at h
        obtain ⟨_, e2, _, _⟩ := h
        rw [← e2]; exact hq
    · intro hs; obtain ⟨a, ha⟩ := hsl hs; cases ha
  | p2 x =>
    refine ⟨?_, ?_⟩
    · intro hq
      unfold Port.setRecommendedState at h
      simp only [bind, Except.bind] at h
      cases hps : p.setRecommendedPortState (.p2 x) s.dflt with
      | error er => rw [hps] at h; cases h
      | ok v =>
        rw [hps] at h
        simp only [Except.ok.injEq, Prod.mk.injEq] at h
        obtain ⟨_, e2, _, _⟩ := h
        rw [← e2]; exact hq
    · intro hs; obtain ⟨a, ha⟩ := hsl hs; cases ha
  | s1 a =>
    have ha := recommend_s1 dflt ebest er l a hr
    -- whatever the port was: the parent is written
    have hpar : s1.parent.parentPort = a.hdr.src := by
      unfold Port.setRecommendedState at h
      simp only [bind, Except.bind] at h
      cases hps : p.setRecommendedPortState (.s1 a) s.dflt with
      | error er => rw [hps] at h; cases h
      | ok v =>
        rw [hps] at h
        simp only at h
        cases hap : s.applyParentS1 a with
        | error er => rw [hap] at h; cases h
        | ok s2 =>
          rw [hap] at h
          simp only [Except.ok.injEq, Prod.mk.injEq] at h
          obtain ⟨_, e2, _, _⟩ := h
          rw [← e2]
          unfold InstState.applyParentS1 at hap
          split at hap
          · cases hap
          · simp only [Except.ok.injEq] at hap
            rw [← hap]; rfl
    refine ⟨fun _ => ⟨a, ha, hpar⟩, ?_⟩
    intro hs
    have hnf : p.st ≠ .faulty := by
      intro hf
      have := hfa hf
      rw [this] at hs
      cases hs
    exact ⟨⟨a, ha, hpar⟩, a, ha, (setRecommendedState_s1_binds p p1 a s s1 e pd hnf h).1⟩

/-- **phase 2 of a BMCA run**: every port passed to the run that is Slave afterwards is bound to the sender of the
run's S1 Announce, and that sender is the parent the data sets name at the end of the run -/
theorem bmcaApply_bind (dflt : DefaultDS) (ebest : Option Best) (lbs : List (Nat × Option Best)) :
    ∀ (order : List Nat), order.Nodup → ∀ (ports : List Port) (s : InstState) (ev : Obs) (pend : List (Nat × List Out))
      (ports' : List Port) (s' : InstState) (ev' : Obs) (pend' : List (Nat × List Out)), s.dflt = dflt →
      bmcaApply ebest lbs order ports s ev pend = .ok (ports', s', ev', pend') →
      (ParentIs dflt ebest s → ParentIs dflt ebest s') ∧
      ∀ (j : Nat) (p' : Port), ports'[j]? = some p' → j + 1 ∈ order → p'.st.isSlave = true →
        ParentIs dflt ebest s' ∧ ∃ a, theAnn dflt ebest = some a ∧ boundTo p' = some a.hdr.src := by
  intro order
  induction order with
  | nil =>
    intro _ ports s ev pend ports' s' ev' pend' _ h
    simp only [bmcaApply, Except.ok.injEq, Prod.mk.injEq] at h
    obtain ⟨_, rfl, _, _⟩ := h
    exact ⟨fun hq => hq, fun j p' _ hj => by cases hj⟩
  | cons k rest ih =>
    intro hnd ports s ev pend ports' s' ev' pend' hd h
    have hndr : rest.Nodup := (List.nodup_cons.1 hnd).2
    have hk : k ∉ rest := (List.nodup_cons.1 hnd).1
    simp only [bmcaApply] at h
    cases hpa : portAt ports k with
    | none =>
      rw [hpa] at h
      simp only at h
      obtain ⟨i1, i2⟩ := ih hndr ports s ev pend ports' s' ev' pend' hd h
      refine ⟨i1, ?_⟩
      intro j p' hp' hj hs
      rcases List.mem_cons.1 hj with hjk | hjr
      · -- no such port
        exfalso
        obtain ⟨hlen, _, _, _, _⟩ := bmcaApply_spec ebest lbs rest hndr ports s ev pend ports' s' ev' pend' h
        have hlt : j < ports'.length := by
          by_cases hc : j < ports'.length
          · exact hc
          · rw [List.getElem?_eq_none (Nat.le_of_not_lt hc)] at hp'; cases hp'
        rw [hlen] at hlt
        rw [← hjk, portAt_succ] at hpa
        rw [List.getElem?_eq_none_iff] at hpa
        omega
      · exact i2 j p' hp' hjr hs
    | some p =>
      rw [hpa] at h
      simp only at h
      obtain ⟨k1, hkl, hkg⟩ := portAt_some hpa
      cases hrec : recommend s.dflt ebest ((lbs.lookup k).getD none) (decide (p.st = .listening)) with
      | none =>
        rw [hrec] at h
        simp only at h
        obtain ⟨i1, i2⟩ := ih hndr ports s ev pend ports' s' ev' pend' hd h
        refine ⟨i1, ?_⟩
        intro j p' hp' hj hs
        rcases List.mem_cons.1 hj with hjk | hjr
        · -- the port was Listening and is untouched by the rest of the run
          exfalso
          have hl := recommend_none_listening _ _ _ _ hrec
          simp only [decide_eq_true_eq] at hl
          obtain ⟨_, _, hap, _, _⟩ := bmcaApply_spec ebest lbs rest hndr ports s ev pend ports' s' ev' pend' h
          have hjk' : j = k - 1 := by omega
          obtain ⟨p2, hp2, _, _, _, _, _, _, hsame, _⟩ := hap j p (by rw [hjk']; exact hkg)
          rw [hp'] at hp2; cases hp2
          have := hsame (by rw [hjk]; exact hk)
          rw [this, hl] at hs
          cases hs
        · exact i2 j p' hp' hjr hs
      | some r =>
        rw [hrec] at h
        simp only [bind, Except.bind] at h
        cases hsr : p.setRecommendedState r s with
        | error e => rw [hsr] at h; cases h
        | ok v =>
          obtain ⟨p1, s1, e, pd⟩ := v
          rw [hsr] at h
          simp only at h
          have hd1 : s1.dflt = dflt := by
            have := (setRecommendedState_spec p p1 r s s1 e pd hsr).2.2.2.2.1
            rw [this]; exact hd
          rw [hd] at hrec
          obtain ⟨b1, b2⟩ := setRecommendedState_bind dflt ebest _ _ r p p1 s s1 e pd hd hrec hsr
          obtain ⟨i1, i2⟩ := ih hndr (setPort ports k p1) s1 _ _ ports' s' ev' pend' hd1 h
          refine ⟨fun hq => i1 (b1 hq), ?_⟩
          intro j p' hp' hj hs
          rcases List.mem_cons.1 hj with hjk | hjr
          · -- the rest of the run leaves this port's state alone
            obtain ⟨_, _, hap, _, _⟩ := bmcaApply_spec ebest lbs rest hndr (setPort ports k p1) s1 _ _ ports' s' ev' pend' h
            have hg := getElem?_setPort ports k p1 j k1 hkl
            rw [if_pos hjk] at hg
            obtain ⟨p2, hp2, _, _, _, _, _, _, hsame, _⟩ := hap j p1 hg
            rw [hp'] at hp2; cases hp2
            have hst := hsame (by rw [hjk]; exact hk)
            rw [hst] at hs
            obtain ⟨q1, a, q2, q3⟩ := b2 hs
            exact ⟨i1 q1, a, q2, by rw [boundTo_congr hst]; exact q3⟩
          · exact i2 j p' hp' hjr hs

/-! ### phase 3: ageing (moved here from Props/C08: also used by C05) -/

theorem stepAnnounceAge_sameRole (p p1 : Port) (step : Int) (h : p.stepAnnounceAge step = .ok p1) : SameRole p p1 := by
  unfold Port.stepAnnounceAge at h
  split at h
  · cases h
  · simp only [Except.ok.injEq] at h
    rw [← h]
    exact ⟨rfl, rfl, rfl, (stepAge_own _ _).1, rfl⟩

theorem bmcaAge_spec (step : Int) : ∀ (order : List Nat) (ports ports' : List Port),
    bmcaAge step order ports = .ok ports' →
    ports'.length = ports.length ∧
    ∀ (j : Nat) (p : Port), ports[j]? = some p → ∃ p', ports'[j]? = some p' ∧ SameRole p p' := by
  intro order
  induction order with
  | nil =>
    intro ports ports' h
    simp only [bmcaAge, Except.ok.injEq] at h
    subst h
    exact ⟨rfl, fun j p hp => ⟨p, hp, sameRole_refl p⟩⟩
  | cons k rest ih =>
    intro ports ports' h
    simp only [bmcaAge] at h
    cases hk : portAt ports k with
    | none => rw [hk] at h; exact ih ports ports' h
    | some p0 =>
      rw [hk] at h
      simp only [bind, Except.bind] at h
      cases hs : p0.stepAnnounceAge step with
      | error e => rw [hs] at h; cases h
      | ok p1 =>
        rw [hs] at h
        simp only at h
        obtain ⟨k1, hkl, hkg⟩ := portAt_some hk
        obtain ⟨a1, a2⟩ := ih (setPort ports k p1) ports' h
        have hlen : (setPort ports k p1).length = ports.length := by simp [setPort]
        have hsr := stepAnnounceAge_sameRole p0 p1 step hs
        refine ⟨a1.trans hlen, ?_⟩
        intro j p hp
        have hg := getElem?_setPort ports k p1 j k1 hkl
        by_cases hjk : j + 1 = k
        · rw [if_pos hjk] at hg
          have hj : j = k - 1 := by omega
          rw [hj, hkg] at hp; cases hp
          obtain ⟨p', hp', hsr'⟩ := a2 j p1 hg
          exact ⟨p', hp', sameRole_trans hsr hsr'⟩
        · rw [if_neg hjk] at hg
          exact a2 j p (by rw [hg]; exact hp)

end Statime
