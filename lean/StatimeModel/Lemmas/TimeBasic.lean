import StatimeModel.Model.Time
/-
Range predicates of `Model/Time.lean` as linear-arithmetic facts (for `omega`).
-/
namespace Statime

theorem inI128_iff (x : Int) : inI128 x = true ↔
    (-170141183460469231731687303715884105728 ≤ x ∧ x < 170141183460469231731687303715884105728) := by
  unfold inI128 I127
  rw [Bool.and_eq_true, decide_eq_true_eq, decide_eq_true_eq]
  omega

theorem inU128_iff (x : Int) : inU128 x = true ↔
    (0 ≤ x ∧ x < 340282366920938463463374607431768211456) := by
  unfold inU128 U128
  rw [Bool.and_eq_true, decide_eq_true_eq, decide_eq_true_eq]
  omega

theorem inI64_iff (x : Int) : inI64 x = true ↔
    (-9223372036854775808 ≤ x ∧ x < 9223372036854775808) := by
  unfold inI64 I63
  rw [Bool.and_eq_true, decide_eq_true_eq, decide_eq_true_eq]
  omega

theorem wrapI64_def (x : Int) :
    wrapI64 x = (x + 9223372036854775808) % 18446744073709551616 - 9223372036854775808 := by
  unfold wrapI64 I63 U64
  omega

theorem wrapI64_of_inRange (x : Int) (h : inI64 x = true) : wrapI64 x = x := by
  rw [inI64_iff] at h
  rw [wrapI64_def]
  omega

theorem clampI64_def (x : Int) :
    clampI64 x = if x < -9223372036854775808 then -9223372036854775808
      else if 9223372036854775808 ≤ x then 9223372036854775807 else x := by
  unfold clampI64 I63
  split <;> split <;> omega

theorem clampI64_of_inRange (x : Int) (h : inI64 x = true) : clampI64 x = x := by
  rw [inI64_iff] at h
  rw [clampI64_def]
  split
  · omega
  · split <;> omega

/-- `if b then some x else none = some y` inversion for Bool guards -/
theorem ite_some_eq {α} {b : Bool} {x y : α} (h : (if b = true then some x else none) = some y) :
    b = true ∧ x = y := by
  cases b <;> simp_all

theorem ite_some_of_true {α} {b : Bool} {x : α} (h : b = true) :
    (if b = true then some x else none) = some x := by
  simp [h]

theorem timeAddDur_nonneg (t : Nat) (d : Int) (h : 0 ≤ (t : Int) + d) :
    timeAddDur t d = if inU128 ((t : Int) + d) = true then some ((t : Int) + d).toNat else none := by
  unfold timeAddDur
  dsimp only
  rw [if_neg (by omega)]

theorem timeAddDur_neg (t : Nat) (d : Int) (h : (t : Int) + d < 0) : timeAddDur t d = some 0 := by
  unfold timeAddDur
  dsimp only
  rw [if_pos h]

end Statime
