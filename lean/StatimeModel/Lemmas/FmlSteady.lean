import StatimeModel.Lemmas.Fml
/-
The foreign master list of a port that hears exactly one foreign master which announces once per
BMCA period with consecutive sequence numbers: the two shapes the list alternates between, and the
two step lemmas. Used by `Props/C06.lean` (`steady_master_is_never_dropped`).
-/
namespace Statime.Steady
open Statime

/-- the successor sequence number (mod 2^16) is accepted, across the wrap as well -/
theorem seqStale_succ (last : Nat) (_h : last < 65536) : seqStale ((last + 1) % 65536) last = false := by
  unfold seqStale SEQ_HALF
  simp only [ge_iff_le, decide_eq_false_iff_not, Nat.not_le]
  omega

/-- what the port knows about the sender and the list parameters that never change -/
structure Ctx where
  interval : Int
  own : PortId
  acc : Option (List Nat)
  src : PortId

/-- the sender is someone this port listens to -/
def Ctx.Listens (c : Ctx) : Prop :=
  c.src ≠ c.own ∧ c.src.clock ≠ c.own.clock ∧ acceptable c.acc c.src.clock = true

/-- between rounds: one master, its newest record carries sequence number `q`, nothing stored has
reached the window -/
def Post (c : Ctx) (l : FML) (q : Nat) : Prop :=
  l.interval = c.interval ∧ l.own = c.own ∧ q < 65536 ∧
  ∃ pre r, l.masters = [⟨c.src, pre ++ [r]⟩] ∧ r.ann.hdr.seq = q ∧
    (∀ x ∈ pre ++ [r], x.age < l.cutoff) ∧ (pre ++ [r]).length ≤ MAX_ANNOUNCE_MESSAGES

/-- after the round's Announce `a`: at least two records, the newest is `a` with age 0, the one
before it carries the previous sequence number -/
def Mid (c : Ctx) (l : FML) (a : Ann) : Prop :=
  l.interval = c.interval ∧ l.own = c.own ∧
  ∃ pre p, l.masters = [⟨c.src, pre ++ [p, ⟨a, 0⟩]⟩] ∧ p.ann.hdr.seq < 65536 ∧
    a.hdr.seq = (p.ann.hdr.seq + 1) % 65536 ∧
    (∀ x ∈ pre ++ [p, ⟨a, 0⟩], x.age < l.cutoff) ∧ (pre ++ [p, ⟨a, 0⟩]).length ≤ MAX_ANNOUNCE_MESSAGES

/-- the round's Announce: from the sender, next sequence number, fewer than 255 steps removed -/
def Next (c : Ctx) (q : Nat) (a : Ann) : Prop :=
  a.hdr.src = c.src ∧ a.hdr.seq = (q + 1) % 65536 ∧ a.body.steps < STEPS_CUTOFF

theorem cutoff_congr (l l' : FML) (h : l'.interval = l.interval) : l'.cutoff = l.cutoff := by
  unfold FML.cutoff; rw [h]

theorem filter_all {α} (p : α → Bool) (xs : List α) (h : ∀ x ∈ xs, p x = true) : xs.filter p = xs :=
  List.filter_eq_self.2 h

/-- registering the next Announce in a one-master list -/
theorem register_solo (c : Ctx) (l : FML) (pre : List FRec) (r : FRec) (a : Ann) (age : Int)
    (hown : l.own = c.own) (hl : c.Listens) (hm : l.masters = [⟨c.src, pre ++ [r]⟩])
    (hq : r.ann.hdr.seq < 65536) (hn : Next c r.ann.hdr.seq a)
    (hfresh : ∀ x ∈ pre ++ [r], x.age < l.cutoff) :
    l.register a age =
      { l with masters := [⟨c.src,
          if (pre ++ [r]).length < MAX_ANNOUNCE_MESSAGES then pre ++ [r] ++ [⟨a, age⟩]
          else (pre ++ [r]).drop 1 ++ [⟨a, age⟩]⟩] } := by
  obtain ⟨hsrc, hseq, hsteps⟩ := hn
  have hstale : l.stale a = false := by
    unfold FML.stale
    rw [hm]
    simp only [List.find?_cons, hsrc, decide_true, List.getLast?_append, List.getLast?_singleton,
      Option.some_or]
    rw [hseq]; exact seqStale_succ _ hq
  have hqual : l.qualified a = true := by
    unfold FML.qualified
    rw [hstale, hsrc, hown]
    simp only [ne_eq, hl.2.1, not_false_eq_true, decide_true, Bool.not_false, Bool.and_self,
      Bool.true_and, decide_eq_true_eq]
    exact hsteps
  unfold FML.register
  rw [hqual]
  simp only [Bool.not_true, Bool.false_eq_true, ↓reduceIte]
  rw [hm]
  simp only [List.any_cons, hsrc, decide_true, List.any_nil, Bool.or_false, ↓reduceIte, List.map_cons,
    List.map_nil]
  have hp : (ForeignMaster.purge l.cutoff ⟨c.src, pre ++ [r]⟩).recs = pre ++ [r] := by
    simp only [ForeignMaster.purge]
    exact filter_all _ _ (fun x hx => by simpa using hfresh x hx)
  unfold ForeignMaster.register
  rw [hp]
  split <;> rfl

/-- **announce step** -/
theorem announce_step (c : Ctx) (l : FML) (q : Nat) (a : Ann) (hl : c.Listens) (hpos : 0 < l.cutoff)
    (h : Post c l q) (hn : Next c q a) : Mid c (bmcaRegister l c.acc a).1 a := by
  obtain ⟨hint, hown, hq, pre, r, hm, hrq, hfresh, hlen⟩ := h
  subst hrq
  have hcond : a.hdr.src ≠ l.own ∧ acceptable c.acc a.hdr.src.clock = true := by
    rw [hn.1, hown]; exact ⟨hl.1, hl.2.2⟩
  unfold bmcaRegister
  rw [if_pos hcond]
  simp only
  rw [register_solo c l pre r a 0 hown hl hm hq hn hfresh]
  refine ⟨hint, hown, ?_⟩
  have hcut : ({ l with masters := [⟨c.src,
          if (pre ++ [r]).length < MAX_ANNOUNCE_MESSAGES then pre ++ [r] ++ [⟨a, 0⟩]
          else (pre ++ [r]).drop 1 ++ [⟨a, 0⟩]⟩] } : FML).cutoff = l.cutoff := cutoff_congr _ _ rfl
  rw [hcut]
  by_cases hc : (pre ++ [r]).length < MAX_ANNOUNCE_MESSAGES
  · rw [if_pos hc]
    refine ⟨pre, r, by simp, hq, hn.2.1, ?_, ?_⟩
    · intro x hx
      simp only [List.mem_append, List.mem_cons, List.not_mem_nil, or_false] at hx
      rcases hx with hx | hx | hx
      · exact hfresh x (by simp [hx])
      · exact hfresh x (by simp [hx])
      · subst hx; exact hpos
    · simp only [List.length_append, List.length_cons, List.length_nil] at hc ⊢
      omega
  · rw [if_neg hc]
    -- the list was full: `pre` is not empty, its first record is dropped
    have hfull : pre.length + 1 = MAX_ANNOUNCE_MESSAGES := by
      simp only [List.length_append, List.length_cons, List.length_nil] at hc hlen
      omega
    cases pre with
    | nil => simp [MAX_ANNOUNCE_MESSAGES] at hfull
    | cons p0 pre' =>
      refine ⟨pre', r, by simp, hq, hn.2.1, ?_, ?_⟩
      · intro x hx
        simp only [List.mem_append, List.mem_cons, List.not_mem_nil, or_false] at hx
        rcases hx with hx | hx | hx
        · exact hfresh x (by simp [hx])
        · exact hfresh x (by simp [hx])
        · subst hx; exact hpos
      · simp only [List.length_append, List.length_cons, List.length_nil] at hfull ⊢
        omega

theorem takeQualified_solo (l : FML) (src : PortId) (pre : List FRec) (p r : FRec)
    (hm : l.masters = [⟨src, pre ++ [p, r]⟩]) :
    l.takeQualified = ({ l with masters := [⟨src, pre ++ [p]⟩] }, [r]) := by
  unfold FML.takeQualified
  rw [hm]
  simp only [List.foldr_cons, List.foldr_nil]
  have hlen : (pre ++ [p, r]).length ≥ FM_THRESHOLD := by
    simp [FM_THRESHOLD]
  have hlast : (pre ++ [p, r]).getLast? = some r := by simp
  have hdrop : (pre ++ [p, r]).dropLast = pre ++ [p] := by
    have : pre ++ [p, r] = (pre ++ [p]) ++ [r] := by simp
    rw [this, List.dropLast_concat]
  unfold tqStep
  simp only [hlen, ↓reduceIte, hlast, hdrop, List.nil_append]

/-- **BMCA step**: the sender is this run's Erbest, with its newest Announce -/
theorem bmca_step (c : Ctx) (l : FML) (a : Ann) (s : Int) (hl : c.Listens) (hsc : s < l.cutoff)
    (hsrc : a.hdr.src = c.src) (hsteps : a.body.steps < STEPS_CUTOFF) (h : Mid c l a) :
    (takeBest l c.acc).2 = some ⟨a, 0, c.own⟩ ∧ Post c ((takeBest l c.acc).1.stepAge s) a.hdr.seq := by
  obtain ⟨hint, hown, pre, p, hm, hpq, hseq, hfresh, hlen⟩ := h
  have htq := takeQualified_solo l c.src pre p ⟨a, 0⟩ hm
  -- re-registration puts the record back
  have hreg : ({ l with masters := [⟨c.src, pre ++ [p]⟩] } : FML).register a 0 = l := by
    have hfresh' : ∀ x ∈ pre ++ [p], x.age < ({ l with masters := [⟨c.src, pre ++ [p]⟩] } : FML).cutoff := by
      intro x hx
      have e : ({ l with masters := [⟨c.src, pre ++ [p]⟩] } : FML).cutoff = l.cutoff := cutoff_congr l _ rfl
      rw [e]
      apply hfresh x
      simp only [List.mem_append, List.mem_cons, List.not_mem_nil, or_false] at hx ⊢
      rcases hx with hx | hx
      · exact Or.inl hx
      · exact Or.inr (Or.inl hx)
    rw [register_solo c ({ l with masters := [⟨c.src, pre ++ [p]⟩] } : FML) pre p a 0 hown hl rfl hpq
      ⟨hsrc, hseq, hsteps⟩ hfresh']
    have hlt : (pre ++ [p]).length < MAX_ANNOUNCE_MESSAGES := by
      simp only [List.length_append, List.length_cons, List.length_nil] at hlen ⊢
      omega
    rw [if_pos hlt]
    cases l with
    | mk ms iv ow =>
      simp only at hm
      subst hm
      simp
  have hcond : a.hdr.src ≠ l.own ∧ acceptable c.acc a.hdr.src.clock = true := by
    rw [hsrc, hown]; exact ⟨hl.1, hl.2.2⟩
  have htb : takeBest l c.acc = (l, some ⟨a, 0, c.own⟩) := by
    unfold takeBest
    rw [htq]
    simp only [List.map_cons, List.map_nil, findBest, maxBy, List.foldl_nil]
    rw [if_pos hcond, hreg, hown]
  rw [htb]
  refine ⟨rfl, ?_⟩
  -- ageing: the newest record has age `s`, still inside the window
  simp only
  have hcut : (l.stepAge s).cutoff = l.cutoff := cutoff_congr _ _ rfl
  refine ⟨hint, hown, by rw [hseq]; exact Nat.mod_lt _ (by decide), ?_⟩
  let aged : List FRec := (pre ++ [p]).map (fun (r : FRec) => { r with age := r.age + s })
  refine ⟨aged.filter (fun r => r.age < l.cutoff), ⟨a, s⟩, ?_, rfl, ?_, ?_⟩
  · simp only [FML.stepAge, hm, List.map_cons, List.map_nil, ForeignMaster.stepAge, ForeignMaster.purge]
    have hrecs : (List.map (fun (r : FRec) => ({ r with age := r.age + s } : FRec)) (pre ++ [p, ⟨a, 0⟩])).filter
        (fun r => decide (r.age < l.cutoff)) = aged.filter (fun r => r.age < l.cutoff) ++ [⟨a, s⟩] := by
      have : pre ++ [p, (⟨a, 0⟩ : FRec)] = (pre ++ [p]) ++ [⟨a, 0⟩] := by simp
      rw [this, List.map_append, List.filter_append]
      simp only [List.map_cons, List.map_nil, Int.zero_add, List.filter_cons, hsc, decide_true, ↓reduceIte,
        List.filter_nil]
      rfl
    rw [hrecs]
    simp
  · rw [hcut]
    intro x hx
    simp only [List.mem_append, List.mem_filter, List.mem_singleton, decide_eq_true_eq] at hx
    rcases hx with ⟨_, hx⟩ | hx
    · exact hx
    · subst hx; exact hsc
  · have h1 : (aged.filter (fun r => r.age < l.cutoff)).length ≤ aged.length := List.length_filter_le _ _
    have h2 : aged.length = pre.length + 1 := by simp [aged]
    simp only [List.length_append, List.length_cons, List.length_nil] at hlen ⊢
    omega

/-- the first Announce of a sender on an empty list -/
theorem first_announce (c : Ctx) (a : Ann) (hl : c.Listens) (hsrc : a.hdr.src = c.src)
    (hq : a.hdr.seq < 65536) (hsteps : a.body.steps < STEPS_CUTOFF)
    (hpos : 0 < ({ masters := [], interval := c.interval, own := c.own } : FML).cutoff) :
    Post c (bmcaRegister { masters := [], interval := c.interval, own := c.own } c.acc a).1 a.hdr.seq := by
  have hcond : a.hdr.src ≠ c.own ∧ acceptable c.acc a.hdr.src.clock = true := by
    rw [hsrc]; exact ⟨hl.1, hl.2.2⟩
  unfold bmcaRegister
  simp only
  rw [if_pos hcond]
  have hqual : ({ masters := [], interval := c.interval, own := c.own } : FML).qualified a = true := by
    unfold FML.qualified FML.stale
    simp only [List.find?_nil, Bool.not_false, Bool.and_true, Bool.and_eq_true, decide_eq_true_eq]
    rw [hsrc]
    exact ⟨hl.2.1, hsteps⟩
  unfold FML.register
  rw [hqual]
  simp only [Bool.not_true, Bool.false_eq_true, ↓reduceIte, List.any_nil, List.length_nil, List.nil_append]
  have hmax : 0 < MAX_FOREIGN_MASTERS := by decide
  rw [if_pos hmax]
  refine ⟨rfl, rfl, hq, [], ⟨a, 0⟩, by rw [hsrc]; rfl, rfl, ?_, by simp [MAX_ANNOUNCE_MESSAGES]⟩
  intro x hx
  simp only [List.nil_append, List.mem_singleton] at hx
  subst hx
  exact hpos

end Statime.Steady
