import StatimeModel.Model.F64
/-
Lemmas about the bit-level binary64 model: the comparison is a strict order on the non-NaN values,
negation mirrors it, and the conversion to `I96F32` is monotone and odd.
-/
namespace Statime

theorem f64Mag_lt (b : Nat) : f64Mag b < P63 := by
  unfold f64Mag P63; omega

theorem f64Sign_le (b : Nat) : f64Sign b = 0 ∨ f64Sign b = 1 := by
  unfold f64Sign; omega

theorem f64Neg_mag (b : Nat) : f64Mag (f64Neg b) = f64Mag b := by
  have h := f64Mag_lt b
  unfold f64Neg
  split
  · unfold f64Mag at *; unfold P63 at *; omega
  · unfold f64Mag at *; unfold P63 at *; omega

theorem f64Neg_sign (b : Nat) : f64Sign (f64Neg b) = 1 - f64Sign b := by
  have h := f64Mag_lt b
  have hs := f64Sign_le b
  unfold f64Neg
  split
  · rename_i h1; rw [h1]; unfold f64Sign f64Mag at *; unfold P63 at *; omega
  · rename_i h1
    have : f64Sign b = 0 := by omega
    rw [this]; unfold f64Sign f64Mag at *; unfold P63 at *; omega

theorem f64Key_neg (b : Nat) : f64Key (f64Neg b) = - f64Key b := by
  unfold f64Key
  rw [f64Neg_sign, f64Neg_mag]
  rcases f64Sign_le b with h | h <;> rw [h] <;> simp

theorem f64IsNaN_neg (b : Nat) : f64IsNaN (f64Neg b) = f64IsNaN b := by
  unfold f64IsNaN; rw [f64Neg_mag]

theorem f64IsFinite_neg (b : Nat) : f64IsFinite (f64Neg b) = f64IsFinite b := by
  unfold f64IsFinite; rw [f64Neg_mag]

theorem f64Lt_iff (a b : Nat) :
    f64Lt a b = true ↔ f64IsNaN a = false ∧ f64IsNaN b = false ∧ f64Key a < f64Key b := by
  unfold f64Lt
  cases f64IsNaN a <;> cases f64IsNaN b <;> simp

theorem f64Le_iff (a b : Nat) :
    f64Le a b = true ↔ f64IsNaN a = false ∧ f64IsNaN b = false ∧ f64Key a ≤ f64Key b := by
  unfold f64Le
  cases f64IsNaN a <;> cases f64IsNaN b <;> simp

theorem f64Lt_irrefl (a : Nat) : f64Lt a a = false := by
  cases h : f64Lt a a
  · rfl
  · have := (f64Lt_iff a a).mp h; omega

theorem f64Lt_asymm (a b : Nat) (h : f64Lt a b = true) : f64Lt b a = false := by
  cases h2 : f64Lt b a
  · rfl
  · have h1 := (f64Lt_iff a b).mp h
    have h3 := (f64Lt_iff b a).mp h2
    omega

theorem f64Lt_trans (a b c : Nat) (h1 : f64Lt a b = true) (h2 : f64Lt b c = true) : f64Lt a c = true := by
  have a1 := (f64Lt_iff a b).mp h1
  have a2 := (f64Lt_iff b c).mp h2
  exact (f64Lt_iff a c).mpr ⟨a1.1, a2.2.1, by omega⟩

/-- `|x|` is not NaN exactly when `x` is not, and lies at `mag x` -/
theorem f64Abs_key (b : Nat) : f64Key (f64Abs b) = (f64Mag b : Int) := by
  have h := f64Mag_lt b
  unfold f64Key f64Abs f64Sign
  have : f64Mag b / P63 % 2 = 0 := by unfold P63 at *; omega
  rw [this]
  have h2 : f64Mag (f64Mag b) = f64Mag b := by unfold f64Mag at *; unfold P63 at *; omega
  simp [h2]

theorem f64Abs_nan (b : Nat) : f64IsNaN (f64Abs b) = f64IsNaN b := by
  have h := f64Mag_lt b
  have h2 : f64Mag (f64Mag b) = f64Mag b := by unfold f64Mag at *; unfold P63 at *; omega
  unfold f64IsNaN f64Abs; rw [h2]

theorem f64_finite_not_nan (b : Nat) (h : f64IsFinite b = true) : f64IsNaN b = false := by
  unfold f64IsFinite at h; unfold f64IsNaN
  simp at *; omega

/-! ### rounding is monotone -/

theorem rhe_cases (n k : Nat) :
    roundHalfEvenShift n k = n / 2 ^ k ∨ roundHalfEvenShift n k = n / 2 ^ k + 1 ∨ (k = 0 ∧ roundHalfEvenShift n k = n) := by
  unfold roundHalfEvenShift
  simp only
  split
  · right; right; constructor <;> simp_all
  · split
    · left; rfl
    · split
      · right; left; rfl
      · split
        · left; rfl
        · right; left; rfl

theorem rhe_mono (n n' k : Nat) (h : n ≤ n') : roundHalfEvenShift n k ≤ roundHalfEvenShift n' k := by
  by_cases hk : k = 0
  · subst hk; unfold roundHalfEvenShift; simpa using h
  · have hc : 0 < 2 ^ k := Nat.two_pow_pos k
    have hq : n / 2 ^ k ≤ n' / 2 ^ k := Nat.div_le_div_right h
    have e1 := Nat.div_add_mod n (2 ^ k)
    have e2 := Nat.div_add_mod n' (2 ^ k)
    have r1 := Nat.mod_lt n hc
    have r2 := Nat.mod_lt n' hc
    generalize hcc : 2 ^ k = c at *
    generalize hqq : n / c = q at *
    generalize hqq' : n' / c = q' at *
    generalize hrr : n % c = r at *
    generalize hrr' : n' % c = r' at *
    have key : q < q' ∨ (q = q' ∧ r ≤ r') := by
      rcases Nat.lt_or_ge q q' with hlt | hge
      · left; exact hlt
      · right
        have : q = q' := by omega
        subst this
        constructor
        · rfl
        · omega
    unfold roundHalfEvenShift
    simp only [hk, if_false, hcc, hqq, hqq', hrr, hrr']
    generalize c / 2 = half
    rcases key with hlt | ⟨heq, hr⟩
    · repeat' split
      all_goals omega
    · subst heq
      repeat' split
      all_goals omega

end Statime

namespace Statime

theorem f64Scaled_mono (a b : Nat) (h : a ≤ b) : f64Scaled a ≤ f64Scaled b := by
  unfold f64Scaled
  simp only
  have hq : a / P52 ≤ b / P52 := Nat.div_le_div_right h
  have e1 := Nat.div_add_mod a P52
  have e2 := Nat.div_add_mod b P52
  have hp : 0 < P52 := by unfold P52; omega
  have r1 := Nat.mod_lt a hp
  have r2 := Nat.mod_lt b hp
  generalize hea : a / P52 = ea at *
  generalize heb : b / P52 = eb at *
  generalize hma : a % P52 = ma at *
  generalize hmb : b % P52 = mb at *
  rcases Nat.lt_or_ge ea eb with hlt | hge
  · -- different exponents
    have hb0 : eb ≠ 0 := by omega
    simp only [hb0, if_false]
    have hpow : 1 ≤ 2 ^ (eb - 1) := Nat.two_pow_pos _
    by_cases ha0 : ea = 0
    · simp only [ha0, if_true]
      calc ma ≤ P52 := by omega
        _ ≤ (mb + P52) * 1 := by omega
        _ ≤ (mb + P52) * 2 ^ (eb - 1) := Nat.mul_le_mul_left _ hpow
    · simp only [ha0, if_false]
      have h2 : 2 ^ (ea - 1) * 2 ≤ 2 ^ (eb - 1) := by
        rw [← Nat.pow_succ]
        exact Nat.pow_le_pow_right (by decide) (by omega)
      calc (ma + P52) * 2 ^ (ea - 1) ≤ (2 * P52) * 2 ^ (ea - 1) := Nat.mul_le_mul_right _ (by omega)
        _ = P52 * (2 ^ (ea - 1) * 2) := by rw [Nat.mul_comm 2 P52, Nat.mul_assoc, Nat.mul_comm 2]
        _ ≤ P52 * 2 ^ (eb - 1) := Nat.mul_le_mul_left _ h2
        _ ≤ (mb + P52) * 2 ^ (eb - 1) := Nat.mul_le_mul_right _ (by omega)
  · have : ea = eb := by omega
    subst this
    have hm : ma ≤ mb := by omega
    split
    · exact hm
    · exact Nat.mul_le_mul_right _ (by omega)

theorem rhe_zero (k : Nat) : roundHalfEvenShift 0 k = 0 := by
  unfold roundHalfEvenShift
  simp only [Nat.zero_div, Nat.zero_mod]
  split
  · rfl
  · rename_i hk
    have h2 : 2 ≤ 2 ^ k := by
      calc 2 = 2 ^ 1 := rfl
        _ ≤ 2 ^ k := Nat.pow_le_pow_right (by decide) (by omega)
    have : 0 < 2 ^ k / 2 := by omega
    simp [this]

theorem f64MagToFixed32_zero : f64MagToFixed32 0 = 0 := by
  unfold f64MagToFixed32
  have : f64Scaled 0 = 0 := by unfold f64Scaled; simp
  rw [this]; exact rhe_zero _

theorem f64MagToFixed32_mono (a b : Nat) (h : a ≤ b) : f64MagToFixed32 a ≤ f64MagToFixed32 b := by
  unfold f64MagToFixed32
  exact rhe_mono _ _ _ (f64Scaled_mono a b h)

/-- the value of a successful `f64 -> I96F32` conversion -/
theorem f64ToFixed32_val (b : Nat) (v : Int) (h : f64ToFixed32 b = some v) :
    f64IsFinite b = true ∧ v = f64FixedSigned b ∧ inI128 v = true := by
  unfold f64ToFixed32 at h
  split at h
  · rename_i hf
    split at h
    · rename_i hi; cases h; exact ⟨hf, rfl, hi⟩
    · cases h
  · cases h

theorem f64FixedSigned_mono (a b : Nat) (h : f64Key a ≤ f64Key b) : f64FixedSigned a ≤ f64FixedSigned b := by
  unfold f64Key at h
  unfold f64FixedSigned
  rcases f64Sign_le a with sa | sa <;> rcases f64Sign_le b with sb | sb <;> rw [sa, sb] at h <;> rw [sa, sb]
  · have h1 : f64Mag a ≤ f64Mag b := by
      have : ((f64Mag a : Nat) : Int) ≤ ((f64Mag b : Nat) : Int) := by simpa using h
      omega
    have := f64MagToFixed32_mono _ _ h1
    simp; omega
  · have h0 : f64Mag a = 0 ∧ f64Mag b = 0 := by
      have : ((f64Mag a : Nat) : Int) ≤ -((f64Mag b : Nat) : Int) := by simpa using h
      omega
    rw [h0.1, h0.2, f64MagToFixed32_zero]; simp
  · have h1 : (0 : Int) ≤ ((f64MagToFixed32 (f64Mag a) : Nat) : Int) := Int.natCast_nonneg _
    have h2 : (0 : Int) ≤ ((f64MagToFixed32 (f64Mag b) : Nat) : Int) := Int.natCast_nonneg _
    simp only [if_true, Nat.zero_ne_one, if_false]
    omega
  · have h1 : f64Mag b ≤ f64Mag a := by
      have : -((f64Mag a : Nat) : Int) ≤ -((f64Mag b : Nat) : Int) := by simpa using h
      omega
    have := f64MagToFixed32_mono _ _ h1
    simp; omega

/-- conversion is monotone along the number line -/
theorem f64ToFixed32_mono (a b : Nat) (va vb : Int) (ha : f64ToFixed32 a = some va) (hb : f64ToFixed32 b = some vb)
    (h : f64Key a ≤ f64Key b) : va ≤ vb := by
  obtain ⟨_, ea, _⟩ := f64ToFixed32_val a va ha
  obtain ⟨_, eb, _⟩ := f64ToFixed32_val b vb hb
  subst ea; subst eb
  exact f64FixedSigned_mono a b h

/-- `Duration::from_seconds` of a successful conversion is `fixed * 10^9` -/
theorem durFromSeconds_val (b : Nat) (d : Int) (h : durFromSeconds b = some d) :
    ∃ v, f64ToFixed32 b = some v ∧ d = v * (NS : Int) := by
  unfold durFromSeconds at h
  split at h
  · cases h
  · rename_i x hx
    refine ⟨x, hx, ?_⟩
    unfold durMulFix at h
    simp only at h
    split at h
    · cases h
      have : (x * ((NS : Int) * (F32 : Int))) / (F32 : Int) = x * (NS : Int) := by
        rw [← Int.mul_assoc]
        exact Int.mul_ediv_cancel _ (by unfold F32; decide)
      exact this
    · cases h

theorem durFromSeconds_mono (a b : Nat) (da db : Int) (ha : durFromSeconds a = some da) (hb : durFromSeconds b = some db)
    (h : f64Key a ≤ f64Key b) : da ≤ db := by
  obtain ⟨va, hva, ea⟩ := durFromSeconds_val a da ha
  obtain ⟨vb, hvb, eb⟩ := durFromSeconds_val b db hb
  have := f64ToFixed32_mono a b va vb hva hvb h
  subst ea; subst eb
  exact Int.mul_le_mul_of_nonneg_right this (by unfold NS; decide)

/-- the magnitude of a converted `x` is the conversion of `|x|` -/
theorem f64FixedSigned_abs (x : Nat) :
    f64FixedSigned (f64Abs x) = f64FixedSigned x ∨ f64FixedSigned (f64Abs x) = - f64FixedSigned x := by
  have hm := f64Mag_lt x
  have h2 : f64Mag (f64Mag x) = f64Mag x := by unfold f64Mag at *; unfold P63 at *; omega
  have hs : f64Sign (f64Mag x) = 0 := by unfold f64Sign; unfold P63 at *; omega
  unfold f64FixedSigned f64Abs
  rw [h2, hs]
  rcases f64Sign_le x with s | s <;> rw [s] <;> simp

theorem f64FixedSigned_abs_nonneg (x : Nat) : 0 ≤ f64FixedSigned (f64Abs x) := by
  have hm := f64Mag_lt x
  have hs : f64Sign (f64Mag x) = 0 := by unfold f64Sign; unfold P63 at *; omega
  unfold f64FixedSigned f64Abs
  rw [hs]; simp

/-- below 2^53 the conversion `n · 2^-k -> binary64` is exact: the result, read as a multiple of 2^-1074, is `n · 2^(1074-k)` -/
theorem natFixedToF64_exact (k n : Nat) (hn : 0 < n) (hs : n < P53) (hk : k ≤ 990) :
    f64Scaled (natFixedToF64 k n) = n * 2 ^ (1074 - k) := by
  have hn0 : n ≠ 0 := by omega
  have h1 := Nat.log2_self_le hn0
  have h2 := @Nat.lt_log2_self n
  -- bit length at most 53
  have hl : Nat.log2 n + 1 ≤ 53 := by
    rcases Nat.lt_or_ge (Nat.log2 n) 53 with h | h
    · omega
    · exfalso
      have : 2 ^ 53 ≤ 2 ^ Nat.log2 n := Nat.pow_le_pow_right (by decide) h
      unfold P53 at hs
      omega
  unfold natFixedToF64 bitLen
  simp only [hn0, if_false]
  rw [if_pos hl]
  generalize hL : Nat.log2 n = L at *
  -- mantissa field m' = n * 2^(52 - L) - 2^52 with 2^52 ≤ n * 2^(52-L) < 2^53
  have e53 : 53 - (L + 1) = 52 - L := by omega
  rw [e53]
  have hp : 2 ^ L * 2 ^ (52 - L) = P52 := by
    rw [← Nat.pow_add]; unfold P52
    have : L + (52 - L) = 52 := by omega
    rw [this]
  have lo : P52 ≤ n * 2 ^ (52 - L) := by
    rw [← hp]; exact Nat.mul_le_mul_right _ h1
  have hi : n * 2 ^ (52 - L) < 2 * P52 := by
    have : n * 2 ^ (52 - L) < 2 ^ (L + 1) * 2 ^ (52 - L) := Nat.mul_lt_mul_of_pos_right h2 (Nat.two_pow_pos _)
    rw [Nat.pow_succ, Nat.mul_assoc, Nat.mul_comm 2, ← Nat.mul_assoc, hp] at this
    omega
  unfold f64Scaled
  simp only
  generalize hM : n * 2 ^ (52 - L) = M at *
  have hq : ((L + 1 + 1022 - k) * P52 + (M - P52)) / P52 = L + 1 + 1022 - k := by
    rw [Nat.mul_comm, Nat.mul_add_div (by unfold P52; decide)]
    have : (M - P52) / P52 = 0 := Nat.div_eq_of_lt (by omega)
    rw [this]; omega
  have hr : ((L + 1 + 1022 - k) * P52 + (M - P52)) % P52 = M - P52 := by
    rw [Nat.mul_comm, Nat.mul_add_mod]
    exact Nat.mod_eq_of_lt (by omega)
  rw [hq, hr]
  have hne : L + 1 + 1022 - k ≠ 0 := by omega
  simp only [hne, if_false]
  have : M - P52 + P52 = M := by omega
  rw [this, ← hM]
  have he : L + 1 + 1022 - k - 1 = (1074 - k) - (52 - L) := by omega
  have hpow : 2 ^ (52 - L) * 2 ^ ((1074 - k) - (52 - L)) = 2 ^ (1074 - k) := by
    rw [← Nat.pow_add]
    have : 52 - L + (1074 - k - (52 - L)) = 1074 - k := by omega
    rw [this]
  rw [he, Nat.mul_assoc, hpow]

end Statime
