import StatimeModel.Lemmas.NetBest
/-
Towards "exactly one Master port per segment" in fixed points of connected plain networks in which every
instance carries the best clock's grandmaster attributes (which `reach_follows_best` establishes).
-/
namespace Statime.Net
open Statime

/-- the situation `best_is_only_grandmaster` establishes -/
structure Conv (net : Net) (b : Nat) (cb : NodeCfg) (sb : NodeSt) : Prop where
  stable : Stable net
  plain : Plain net
  best : IsBest net b cb sb
  allgm : ∀ (y : Nat) (cy : NodeCfg) (sy : NodeSt), net[y]? = some (cy, sy) → sy.gm = cb.ownGm

/-- same grandmaster: the key order is the order on (stepsRemoved, sender, receiving port) -/
theorem key_same_gm (a b : Adv) (rc rp rp' : Nat) (h : a.gm = b.gm) :
    keyCmp (a.cmpDS rc rp).key (b.cmpDS rc rp').key =
      keyCmp [(a.steps : Int), a.sender, rp] [(b.steps : Int), b.sender, rp'] := by
  unfold CmpDS.key
  rw [keyCmp_append _ _ _ _ (by simp [CmpDS.gmKey])]
  have : keyCmp (a.cmpDS rc rp).gmKey (b.cmpDS rc rp').gmKey = .eq := by
    rw [cmpDS_gmKey, cmpDS_gmKey, h]; exact keyCmp_refl _
  rw [this]
  rfl

/-- same grandmaster, not worse, not merely better by topology, different receiving ports: then strictly better —
two or more steps closer, or one step closer with the receiver's identity below the sender's -/
theorem better_cases (a b : CmpDS) (hid : a.gmId = b.gmId) (hb : b.receiver.clock ≠ b.sender)
    (ha : a.receiver.clock ≠ a.sender) (hp : a.receiver.port ≠ b.receiver.port)
    (hnl : (a.compare b).asOrdering ≠ .lt) (hnt : a.compare b ≠ .betterTopo) :
    a.steps + 2 ≤ b.steps ∨ (a.steps + 1 = b.steps ∧ b.receiver.clock < b.sender) := by
  unfold CmpDS.compare at hnl hnt
  rw [if_pos hid] at hnl hnt
  unfold compareSame at hnl hnt
  simp only [] at hnl hnt
  by_cases h1 : (a.steps : Int) - (b.steps : Int) ≥ 2
  · simp only [h1, if_true, DOrd.asOrdering] at hnl; exact absurd rfl hnl
  · by_cases h2 : (a.steps : Int) - (b.steps : Int) ≤ -2
    · left; omega
    · by_cases h3 : (a.steps : Int) - (b.steps : Int) = 1
      · exfalso
        simp only [h1, h2, h3, if_true, if_false] at hnl
        by_cases q1 : a.receiver.clock < a.sender
        · simp [q1, DOrd.asOrdering] at hnl
        · simp [q1, ha, DOrd.asOrdering] at hnl
      · by_cases h4 : (a.steps : Int) - (b.steps : Int) = -1
        · right
          refine ⟨by omega, ?_⟩
          simp only [h1, h2, h3, h4, if_true, if_false] at hnt
          by_cases q1 : b.receiver.clock < b.sender
          · exact q1
          · exfalso; simp [q1, hb] at hnt
        · exfalso
          simp only [h1, h2, h3, h4, if_false] at hnl hnt
          simp only [lexCmp] at hnl hnt
          by_cases s1 : a.sender < b.sender
          · simp [s1] at hnt
          · by_cases s2 : b.sender < a.sender
            · simp [s1, s2, DOrd.asOrdering] at hnl
            · simp only [s1, s2, if_false] at hnl hnt
              by_cases p1 : a.receiver.port < b.receiver.port
              · simp [p1] at hnt
              · by_cases p2 : b.receiver.port < a.receiver.port
                · simp [p1, p2, DOrd.asOrdering] at hnl
                · omega

/-- the M3 decision of a high-class instance with an `Erbest` on the port -/
theorem decide_m3_some (c : NodeCfg) (eb : Option (Adv × Nat)) (e : Adv) (j : Nat)
    (hcls : ¬(1 ≤ c.cls ∧ c.cls ≤ 127)) (h : Net.decide c eb (some e) j = .m3) :
    ∃ (g : Adv) (gj : Nat), eb = some (g, gj) ∧ ¬(gj = j ∧ g = e) ∧
      (g.cmpDS c.id (gj + 1)).compare (e.cmpDS c.id (j + 1)) ≠ .betterTopo ∧
      ((ownCmpDS c).compare (g.cmpDS c.id (gj + 1))).asOrdering = .lt := by
  unfold Net.decide at h
  simp only [hcls, if_false] at h
  cases eb with
  | none => simp at h
  | some v =>
    obtain ⟨g, gj⟩ := v
    simp only at h
    cases hk : ((ownCmpDS c).compare (g.cmpDS c.id (gj + 1))).asOrdering with
    | eq => rw [hk] at h; simp at h
    | gt => rw [hk] at h; simp at h
    | lt =>
      rw [hk] at h
      simp only at h
      split at h
      · cases h
      · rename_i hne
        split at h
        · cases h
        · rename_i hnt
          exact ⟨g, gj, rfl, hne, hnt, hk⟩

theorem keyCmp3_le (a1 a2 a3 b1 b2 b3 : Int) (h : keyCmp [a1, a2, a3] [b1, b2, b3] ≠ .gt) :
    a1 < b1 ∨ (a1 = b1 ∧ a2 < b2) ∨ (a1 = b1 ∧ a2 = b2 ∧ a3 ≤ b3) := by
  simp only [keyCmp] at h
  by_cases h1 : a1 < b1
  · left; exact h1
  · by_cases h1' : b1 < a1
    · simp [h1, h1'] at h
    · simp only [h1, h1', if_false] at h
      by_cases h2 : a2 < b2
      · right; left; exact ⟨by omega, h2⟩
      · by_cases h2' : b2 < a2
        · simp [h2, h2'] at h
        · simp only [h2, h2', if_false] at h
          by_cases h3 : b3 < a3
          · by_cases h3' : a3 < b3
            · omega
            · simp [h3, h3'] at h
          · right; right; exact ⟨by omega, by omega, by omega⟩

/-- **Who may be Master next to whom.** A Master port of an instance other than the best, hearing the
advertisement of another Master port on its segment, belongs to an instance that is closer to the grandmaster
than the other, or equally close with the lower identity; and it is at least one step away. -/
theorem master_lex (net : Net) (b : Nat) (cb : NodeCfg) (sb : NodeSt) (hc : Conv net b cb sb)
    (n : Nat) (c : NodeCfg) (s : NodeSt) (hn : net[n]? = some (c, s)) (hnb : n ≠ b)
    (k : Nat) (pc : PortCfg) (hk : c.ports[k]? = some pc) (hm : s.ports[k]? = some PSt.master)
    (a' : Adv) (ha' : a' ∈ advsOn net pc.seg n k) :
    1 ≤ s.steps ∧ (s.steps < a'.steps ∨ (s.steps = a'.steps ∧ c.id < a'.sender)) := by
  have hst := hc.stable
  have hp := hc.plain
  obtain ⟨hal, hso, hcls, _, hports⟩ := hp.relay n c s hn
  have hcl : ¬(1 ≤ c.cls ∧ c.cls ≤ 127) := by omega
  have hsn : StableAt net n c s := ⟨hn, hal, hst n c s hn hal⟩
  -- n is not the best, so it is not in the grandmaster state: it has a Slave port
  have hnotgm : ¬ IsGm c s := by
    intro hg
    have h1 := hc.allgm n c s hn
    rw [hg.2.1] at h1
    have hid : c.id = cb.id := by
      have : c.ownGm.id = cb.ownGm.id := by rw [h1]
      exact this
    exact hnb (hp.ids n b c s cb sb hn hc.best.1 hid)
  have hslave : ∃ j : Nat, s.ports[j]? = some PSt.slave := by
    cases Classical.em (∃ j : Nat, s.ports[j]? = some PSt.slave) with
    | inl h => exact h
    | inr h => exact absurd (no_slave_is_gm net hp n c s hsn h) hnotgm
  obtain ⟨js, hjs⟩ := hslave
  obtain ⟨g, _, heb, _, _, hgm, hsteps⟩ := slave_port_source net n c s hsn js hjs
  -- the decision on port k
  obtain ⟨_, d, hd, hpo⟩ := all_decided net hp n c s hsn k .master hm
  obtain ⟨e0, he0, hde⟩ := decsOf_get c s _ k _ hd
  -- Erbest on port k exists and is at least as good as a'
  have herb := erbest_of_heard net hp n c s k pc hn hk
  have hsome := bestOf_isSome c.id (k + 1) _ (List.ne_nil_of_mem ha')
  obtain ⟨e, he⟩ := Option.isSome_iff_exists.mp hsome
  rw [he] at herb
  rw [herb] at he0
  simp only [Option.some.injEq] at he0
  subst he0
  obtain ⟨hemem, hmin⟩ := bestOf_min c.id (k + 1) _ (heard_good net hst hp n c s k pc hn hk) e he
  have hea := hmin a' ha'
  -- everything heard carries the best clock's grandmaster
  have gm_of : ∀ x ∈ advsOn net pc.seg n k, x.gm = cb.ownGm := by
    intro x hx
    obtain ⟨m, cm, sm, _, _, _, hm', _, _, _, hxe, _, _⟩ := heard_from_other net hp n c s k pc hn hk x hx
    rw [hxe]; exact hc.allgm m cm sm hm'
  have hge : g.gm = e.gm := by rw [← hgm, hc.allgm n c s hn, gm_of e hemem]
  have hea' : e.gm = a'.gm := by rw [gm_of e hemem, gm_of a' ha']
  rw [key_same_gm e a' c.id (k + 1) (k + 1) hea'] at hea
  -- the decision is M3
  split at hde
  · cases hde
  · simp only [Option.some.injEq] at hde
    have hdm : d = .m3 := by
      have hpm := portOf_master net n c s (some d) k hpo
      rcases hpm with h | h | h
      · cases h
      · exfalso
        simp only [Option.some.injEq] at h
        subst h
        -- M1 / M2 would mean the own data set is not worse than Ebest, but the Slave port says it is
        obtain ⟨ds, hds, hpos⟩ := port_decision net n c s hsn js .slave hjs
        obtain ⟨g1, rfl⟩ := portOf_slave net n c s ds js hpos
        obtain ⟨e1, _, hde1⟩ := decsOf_get c s _ js _ hds
        split at hde1
        · cases hde1
        · simp only [Option.some.injEq] at hde1
          have hneq : Net.decide c (ebestOf c (erbestsOf net n c)) e1 js ≠ .gm := by rw [← hde1]; simp
          obtain ⟨g2, gj2, hg2, hw2⟩ := decide_not_gm c _ e1 js hcl hneq
          have hdk : Net.decide c (ebestOf c (erbestsOf net n c)) (some e) k = .gm := hde.symm
          unfold Net.decide at hdk
          simp only [hcl, if_false, hg2, hw2] at hdk
          split at hdk
          · cases hdk
          · split at hdk <;> cases hdk
      · simp only [Option.some.injEq] at h; exact h
    subst hdm
    obtain ⟨g', gj, heb', hne, hnt, _⟩ := decide_m3_some c _ e k hcl hde.symm
    rw [heb] at heb'
    simp only [Option.some.injEq, Prod.mk.injEq] at heb'
    obtain ⟨rfl, rfl⟩ := heb'
    -- Ebest is at least as good as Erbest of port k, and sits on another port
    have hcand := candsOf_mem c _ k pc e hk (hports pc (List.mem_of_getElem? hk)).1 herb
    obtain ⟨hgmem, hgmin⟩ := ebestOf_min c _ (cands_good net hst hp n c s hn) g js heb
    have hle := hgmin (e, k) hcand
    have hjk : js ≠ k := by
      intro ejk
      subst ejk
      have := candsOf_spec c _ g js hgmem
      rw [herb] at this
      simp only [Option.some.injEq] at this
      exact hne ⟨rfl, this.symm⟩
    have hgs := candsOf_spec c _ g js hgmem
    obtain ⟨pcg, hpcg, _, hgm', _⟩ := erbestsOf_spec net n c js g hgs
    obtain ⟨_, _, _, _, _, _, _, _, _, _, _, hgne, _⟩ := heard_from_other net hp n c s js pcg hn hpcg g hgm'
    obtain ⟨_, _, _, _, _, _, _, _, _, _, _, hene, _⟩ := heard_from_other net hp n c s k pc hn hk e hemem
    have law := cmpDS_law c.id (js + 1) (k + 1) g e hgne hene (fun _ => hge)
    have hnl : ((g.cmpDS c.id (js + 1)).compare (e.cmpDS c.id (k + 1))).asOrdering ≠ .lt := by
      rw [law]
      cases hkk : keyCmp (g.cmpDS c.id (js + 1)).key (e.cmpDS c.id (k + 1)).key with
      | lt => simp [Ordering.swap]
      | eq => simp [Ordering.swap]
      | gt => exact absurd hkk hle
    have hcases := better_cases (g.cmpDS c.id (js + 1)) (e.cmpDS c.id (k + 1))
      (by simp [Adv.cmpDS, hge]) (by simp [Adv.cmpDS]; exact fun h => hene h.symm)
      (by simp [Adv.cmpDS]; exact fun h => hgne h.symm) (by simp [Adv.cmpDS]; omega) hnl hnt
    simp only [Adv.cmpDS] at hcases
    refine ⟨by omega, ?_⟩
    have h3 := keyCmp3_le _ _ _ _ _ _ hea
    rcases hcases with h | ⟨h1, h2⟩
    · rcases h3 with q | ⟨q, _⟩ | ⟨q, _, _⟩ <;> (left; omega)
    · rcases h3 with q | ⟨q1, q2⟩ | ⟨q1, q2, _⟩
      · left; omega
      · right; exact ⟨by omega, by omega⟩
      · right; exact ⟨by omega, by omega⟩

theorem getD_of_getElem? (l : List PSt) (k : Nat) (st : PSt) (h : l[k]? = some st) : l.getD k .listening = st := by
  simp [List.getD, h]

/-- **At most one Master port per segment.** -/
theorem masters_unique (net : Net) (b : Nat) (cb : NodeCfg) (sb : NodeSt) (hc : Conv net b cb sb)
    (n n' : Nat) (c c' : NodeCfg) (s s' : NodeSt) (k k' : Nat) (pc pc' : PortCfg)
    (hn : net[n]? = some (c, s)) (hn' : net[n']? = some (c', s'))
    (hk : c.ports[k]? = some pc) (hk' : c'.ports[k']? = some pc')
    (hm : s.ports[k]? = some PSt.master) (hm' : s'.ports[k']? = some PSt.master) (hseg : pc.seg = pc'.seg) :
    n = n' ∧ k = k' := by
  have hp := hc.plain
  by_cases hnn : n = n'
  · subst hnn
    rw [hn] at hn'
    simp only [Option.some.injEq, Prod.mk.injEq] at hn'
    obtain ⟨rfl, rfl⟩ := hn'
    exact ⟨rfl, hp.simple n c s k k' pc pc' hn hk hk' hseg⟩
  · exfalso
    obtain ⟨hal, _, _, _, hports⟩ := hp.relay n c s hn
    obtain ⟨hal', _, _, _, hports'⟩ := hp.relay n' c' s' hn'
    have hat := (hports pc (List.mem_of_getElem? hk)).2
    have hat' := (hports' pc' (List.mem_of_getElem? hk')).2
    have ha' : ({ gm := s'.gm, steps := s'.steps, sender := c'.id, senderPort := k' + 1 } : Adv) ∈ advsOn net pc.seg n k :=
      advsOn_mem net pc.seg n k n' k' c' s' pc' hn' hal' hk' hseg.symm hat' (getD_of_getElem? _ _ _ hm')
        (fun h => hnn h.1.symm)
    have ha : ({ gm := s.gm, steps := s.steps, sender := c.id, senderPort := k + 1 } : Adv) ∈ advsOn net pc'.seg n' k' :=
      advsOn_mem net pc'.seg n' k' n k c s pc hn hal hk hseg hat (getD_of_getElem? _ _ _ hm) (fun h => hnn h.1)
    by_cases hb1 : n = b
    · subst hb1
      have hg := best_is_gm net hc.stable hp n cb sb hc.best
      have hcs : (cb, sb) = (c, s) := by
        have := hc.best.1
        rw [hn] at this
        simp only [Option.some.injEq] at this
        exact this.symm
      have hs0 : s.steps = 0 := by
        have : sb = s := (Prod.mk.injEq _ _ _ _ ▸ hcs).2
        rw [← this]; exact hg.1
      have := master_lex net n cb sb hc n' c' s' hn' (fun h => hnn h.symm) k' pc' hk' hm' _ ha
      simp only at this
      omega
    · by_cases hb2 : n' = b
      · subst hb2
        have hg := best_is_gm net hc.stable hp n' cb sb hc.best
        have hcs : (cb, sb) = (c', s') := by
          have := hc.best.1
          rw [hn'] at this
          simp only [Option.some.injEq] at this
          exact this.symm
        have hs0 : s'.steps = 0 := by
          have : sb = s' := (Prod.mk.injEq _ _ _ _ ▸ hcs).2
          rw [← this]; exact hg.1
        have := master_lex net n' cb sb hc n c s hn hb1 k pc hk hm _ ha'
        simp only at this
        omega
      · have h1 := master_lex net b cb sb hc n c s hn hb1 k pc hk hm _ ha'
        have h2 := master_lex net b cb sb hc n' c' s' hn' hb2 k' pc' hk' hm' _ ha
        simp only at h1 h2
        omega

/-- **At least one**: on every segment an instance is attached to there is a Master port. -/
theorem segment_has_master (net : Net) (b : Nat) (cb : NodeCfg) (sb : NodeSt) (hc : Conv net b cb sb)
    (u : Nat) (cu : NodeCfg) (su : NodeSt) (hu : net[u]? = some (cu, su)) (i : Nat) (pi : PortCfg) (hi : cu.ports[i]? = some pi) :
    ∃ (n : Nat) (cn : NodeCfg) (sn : NodeSt) (k : Nat) (pcn : PortCfg), net[n]? = some (cn, sn) ∧ cn.ports[k]? = some pcn ∧
      pcn.seg = pi.seg ∧ sn.ports[k]? = some PSt.master := by
  obtain ⟨n, cn, sn, k, pcn, hn, hk, hseg, hm, _⟩ := master_on_segment net hc.stable hc.plain u cu su hu i pi hi
  refine ⟨n, cn, sn, k, pcn, hn, hk, hseg, ?_⟩
  cases hg : sn.ports[k]? with
  | none => simp [List.getD, hg] at hm
  | some v => simp [List.getD, hg] at hm; rw [hm]

end Statime.Net
