import StatimeModel.Model.Port
/-!
# An interpreter for the message constructors the translator extracts

`translator/extract_msgs.py` reads `Message::sync`, `follow_up`, `delay_req`, `delay_resp`, `pdelay_req`, `pdelay_resp` and `pdelay_resp_follow_up`
in `statime/src/datastructures/messages/mod.rs` on every run and writes `Generated/MsgCtors.lean`: the base
header each starts from, every header field it overrides and where the value comes from, and the body.
`Ctor.eval` gives that its meaning; `Props/C10.lean` proves it equal to the model's `msgSync` … for all arguments.
-/
namespace Statime.MsgGen
open Statime

/-- what the struct update starts from -/
inductive HBase
  | baseHeader (seqFromReq : Bool)   -- `..base_header(default_ds, port_identity, sequence_id | request_header.sequence_id, minor)`
  | requestHeader                    -- `..request_header`
  deriving DecidableEq, Repr, Inhabited

inductive HF | twoStep | correction | logInterval | src
  deriving DecidableEq, Repr, Inhabited

inductive HSrc
  | litB (b : Bool)
  | litI (i : Int)
  | tsSubnano                 -- `timestamp.subnano()`
  | portIdentity              -- `port_identity`
  | reqCorrection             -- `request_header.correction_field`
  | reqCorrPlusSubnanoSat     -- `TimeInterval(request_header.correction_field.0.saturating_add(timestamp.subnano().0))`
  | intervalLog               -- `min_delay_req_interval.as_log_2()`
  deriving DecidableEq, Repr, Inhabited

inductive BodyC
  | syncDefault | delayReqDefault | pdelayReqDefault   -- origin timestamp `Default::default()`
  | followUpTs                                         -- `precise_origin_timestamp: timestamp.into()`
  | delayRespTsReqSrc                                  -- `receive_timestamp: timestamp.into(), requesting_port_identity: request_header.source_port_identity`
  | delayRespTsOwnPid                                  -- the same with `requesting_port_identity: port_identity`
  | pdelayRespTsReqSrc                                 -- `request_receive_timestamp: timestamp.into(), requesting_port_identity: request_header.source_port_identity`
  | pdelayRespFuTsRequestor                            -- `response_origin_timestamp: timestamp.into(), requesting_port_identity: requestor_identity`
  deriving DecidableEq, Repr, Inhabited

structure Ctor where
  base : HBase
  sets : List (HF × HSrc)
  body : BodyC
  deriving Repr, Inhabited

structure Env where
  d : DefaultDS
  pid : PortId
  seq : Nat
  minor : Nat
  req : Header
  ts : Nat
  ilog : Int
  requestor : PortId

def HBase.eval (e : Env) : HBase → Header
  | .baseHeader false => Statime.baseHeader e.d e.pid e.seq e.minor
  | .baseHeader true => Statime.baseHeader e.d e.pid e.req.seq e.minor
  | .requestHeader => e.req

def setField (e : Env) (h : Header) : HF × HSrc → Option Header
  | (.twoStep, .litB b) => some { h with flags := { h.flags with twoStep := b } }
  | (.correction, .tsSubnano) => some { h with correction := timeSubnano e.ts }
  | (.correction, .reqCorrection) => some { h with correction := e.req.correction }
  | (.correction, .reqCorrPlusSubnanoSat) => some { h with correction := clampI64 (e.req.correction + timeSubnano e.ts) }
  | (.logInterval, .litI i) => some { h with logInterval := i }
  | (.logInterval, .intervalLog) => some { h with logInterval := e.ilog }
  | (.src, .portIdentity) => some { h with src := e.pid }
  | _ => none                      -- ill-typed assignment: the translator never emits one

def setAll (e : Env) : List (HF × HSrc) → Header → Option Header
  | [], h => some h
  | x :: xs, h => (setField e h x).bind (setAll e xs)

def BodyC.eval (e : Env) : BodyC → R Body
  | .syncDefault => .ok (.sync ⟨0, 0⟩)
  | .delayReqDefault => .ok (.delayReq ⟨0, 0⟩)
  | .pdelayReqDefault => .ok (.pdelayReq ⟨0, 0⟩)
  | .followUpTs => (liftOv (timeToWire e.ts)).map (fun w => Body.followUp w)
  | .delayRespTsReqSrc => (liftOv (timeToWire e.ts)).map (fun w => Body.delayResp w e.req.src)
  | .delayRespTsOwnPid => (liftOv (timeToWire e.ts)).map (fun w => Body.delayResp w e.pid)
  | .pdelayRespTsReqSrc => (liftOv (timeToWire e.ts)).map (fun w => Body.pdelayResp w e.req.src)
  | .pdelayRespFuTsRequestor => (liftOv (timeToWire e.ts)).map (fun w => Body.pdelayRespFu w e.requestor)

/-- outer `none`: ill-formed table; inner result: the message or the overflow of `timestamp.into()` -/
def Ctor.eval (c : Ctor) (e : Env) : Option (R Msg) :=
  (setAll e c.sets (c.base.eval e)).map fun h =>
    (c.body.eval e).map fun b => { header := h, body := b, suffix := [] }

end Statime.MsgGen
