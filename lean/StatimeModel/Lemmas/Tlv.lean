import StatimeModel.Lemmas.Bytes
import StatimeModel.Model.Port
/-
TLV codec lemmas and the specification of the forwarding loop of `send_announce` (C15).
-/
namespace Statime

/-- a TLV as the parser of this library produces them: 16-bit type, even value length below 2^16 -/
def Tlv.WF (t : Tlv) : Prop := t.ty < 65536 ∧ t.value.length % 2 = 0 ∧ t.value.length < 65536

theorem Tlv.bytes_length (t : Tlv) : t.bytes.length = t.wireSize := by
  unfold Tlv.bytes Tlv.wireSize
  simp only [List.length_append, beBytes_length]

theorem flatMap_bytes_length (ts : List Tlv) : (ts.flatMap Tlv.bytes).length = (ts.map Tlv.wireSize).sum := by
  induction ts with
  | nil => rfl
  | cons t ts ih => simp only [List.flatMap_cons, List.length_append, List.map_cons, List.sum_cons, ih, Tlv.bytes_length]

/-- the length field read back from a serialized TLV -/
theorem beVal_len_bytes (t : Tlv) (rest : List UInt8) (h : t.WF) : beVal (t.bytes ++ rest) 2 2 = t.value.length := by
  unfold Tlv.bytes
  have e : beBytes t.ty 2 ++ beBytes t.value.length 2 ++ t.value ++ rest =
      beBytes t.ty 2 ++ (beBytes t.value.length 2 ++ (t.value ++ rest)) := by simp only [List.append_assoc]
  rw [e]
  have hd : (beBytes t.ty 2 ++ (beBytes t.value.length 2 ++ (t.value ++ rest))).drop 2 = beBytes t.value.length 2 ++ (t.value ++ rest) := by
    rw [List.drop_append_of_le_length (by simp)]
    simp
  have := beVal_drop (beBytes t.ty 2 ++ (beBytes t.value.length 2 ++ (t.value ++ rest))) 2 0 2
  rw [hd, beVal_beBytes] at this
  simp only [Nat.add_zero] at this
  rw [← this]
  have : (256 : Nat) ^ 2 = 65536 := by decide
  rw [this]
  exact Nat.mod_eq_of_lt h.2.2

theorem beVal_ty_bytes (t : Tlv) (rest : List UInt8) (h : t.WF) : beVal (t.bytes ++ rest) 0 2 = t.ty := by
  unfold Tlv.bytes
  have e : beBytes t.ty 2 ++ beBytes t.value.length 2 ++ t.value ++ rest =
      beBytes t.ty 2 ++ (beBytes t.value.length 2 ++ (t.value ++ rest)) := by simp only [List.append_assoc]
  rw [e, beVal_beBytes]
  have : (256 : Nat) ^ 2 = 65536 := by decide
  rw [this]
  exact Nat.mod_eq_of_lt h.1

theorem drop_bytes (t : Tlv) (rest : List UInt8) : (t.bytes ++ rest).drop (4 + t.value.length) = rest := by
  have : 4 + t.value.length = t.bytes.length := by rw [Tlv.bytes_length]; rfl
  rw [this, List.drop_left]

/-- **a concatenation of well-formed TLVs passes the library's TLV check** (any fuel that covers the length) -/
theorem tlvCheck_flatMap (ts : List Tlv) (hwf : ∀ t ∈ ts, t.WF) :
    ∀ (f : Nat), (ts.flatMap Tlv.bytes).length ≤ f → tlvCheck f (ts.flatMap Tlv.bytes) = .ok () := by
  induction ts with
  | nil =>
    intro f _
    cases f <;> simp [tlvCheck]
  | cons t ts ih =>
    intro f hf
    have ht := hwf t List.mem_cons_self
    simp only [List.flatMap_cons] at hf ⊢
    have hlen : (t.bytes ++ ts.flatMap Tlv.bytes).length = 4 + t.value.length + (ts.flatMap Tlv.bytes).length := by
      rw [List.length_append, Tlv.bytes_length]; rfl
    cases f with
    | zero => omega
    | succ f' =>
      unfold tlvCheck
      rw [if_pos (by omega)]
      simp only
      rw [beVal_len_bytes t _ ht]
      rw [if_neg (by have := ht.2.1; omega), if_neg (by omega), drop_bytes]
      exact ih (fun x hx => hwf x (List.mem_cons_of_mem _ hx)) f' (by omega)

/-- … and parses back to the same TLVs: forwarding is byte-faithful -/
theorem tlvIter_flatMap (ts : List Tlv) (hwf : ∀ t ∈ ts, t.WF) :
    ∀ (f : Nat), (ts.flatMap Tlv.bytes).length ≤ f → tlvIter f (ts.flatMap Tlv.bytes) = ts := by
  induction ts with
  | nil =>
    intro f _
    cases f <;> simp [tlvIter]
  | cons t ts ih =>
    intro f hf
    have ht := hwf t List.mem_cons_self
    simp only [List.flatMap_cons] at hf ⊢
    have hlen : (t.bytes ++ ts.flatMap Tlv.bytes).length = 4 + t.value.length + (ts.flatMap Tlv.bytes).length := by
      rw [List.length_append, Tlv.bytes_length]; rfl
    cases f with
    | zero => omega
    | succ f' =>
      unfold tlvIter
      rw [if_pos (by omega)]
      simp only
      rw [beVal_len_bytes t _ ht, beVal_ty_bytes t _ ht, drop_bytes, ih (fun x hx => hwf x (List.mem_cons_of_mem _ hx)) f' (by omega)]
      congr 1
      have : ∀ (r : List UInt8), (t.bytes ++ r).drop 4 = t.value ++ r := by
        intro r
        have e : t.bytes ++ r = (beBytes t.ty 2 ++ beBytes t.value.length 2) ++ (t.value ++ r) := by
          unfold Tlv.bytes; simp only [List.append_assoc]
        rw [e]
        have : 4 = (beBytes t.ty 2 ++ beBytes t.value.length 2).length := by simp
        rw [this, List.drop_left]
      rw [this, List.take_left]

/-! ### the forwarding loop -/

/-- is a consumed queue item actually forwarded? (sent by the current parent; not PATH_TRACE when the option is on) -/
def fwdKeep (parent : PortId) (pte : Bool) (t : FwdTlv) : Bool :=
  decide (t.sender = parent) && !(pte && decide (t.tlv.ty = TLV_PATH_TRACE))

/-- room used by the forwarded ones among `ts` -/
def fwdUsed (parent : PortId) (pte : Bool) (ts : List FwdTlv) : Nat :=
  ((ts.filter (fwdKeep parent pte)).map (fun t => t.tlv.wireSize)).sum

/-- **Specification of the forwarding loop.** It consumes a prefix `taken` of the queue and returns the rest; the
bytes appended are exactly the serializations of the consumed TLVs that are forwarded, in queue order; they fit
the room; and whatever is left starts with a TLV that does not fit the room that remains. -/
theorem fwdLoop_spec (parent : PortId) (pte loose : Bool) :
    ∀ (fuel : Nat) (q : List FwdTlv) (margin : Nat) (acc : List UInt8), q.length < fuel →
    ∃ taken : List FwdTlv,
      q = taken ++ (fwdLoop parent pte loose fuel q margin acc).2 ∧
      (fwdLoop parent pte loose fuel q margin acc).1 =
        acc ++ ((taken.filter (fwdKeep parent pte)).map (fun t => t.tlv)).flatMap Tlv.bytes ∧
      fwdUsed parent pte taken ≤ margin ∧
      (∀ t rest, (fwdLoop parent pte loose fuel q margin acc).2 = t :: rest →
        fwdFits loose t.tlv.wireSize (margin - fwdUsed parent pte taken) = false) := by
  intro fuel
  induction fuel with
  | zero => intro q _ _ h; omega
  | succ fuel ih =>
    intro q margin acc hq
    cases q with
    | nil =>
      refine ⟨[], ?_, ?_, ?_, ?_⟩
      · simp [fwdLoop]
      · simp [fwdLoop]
      · simp [fwdUsed]
      · intro t rest h; simp [fwdLoop] at h
    | cons t rest =>
      simp only [List.length_cons, Nat.add_lt_add_iff_right] at hq
      unfold fwdLoop
      by_cases hfit : fwdFits loose t.tlv.wireSize margin = true
      · rw [if_pos hfit]
        have hle : t.tlv.wireSize ≤ margin := by
          unfold fwdFits at hfit
          simp only [Bool.or_eq_true, decide_eq_true_eq, Bool.and_eq_true] at hfit
          rcases hfit with h | ⟨_, h⟩ <;> omega
        by_cases hp : parent ≠ t.sender
        · rw [if_pos hp]
          obtain ⟨taken, h1, h2, h3, h4⟩ := ih rest margin acc hq
          have hk : fwdKeep parent pte t = false := by
            unfold fwdKeep
            have : decide (t.sender = parent) = false := by simp; exact fun e => hp e.symm
            rw [this]; rfl
          refine ⟨t :: taken, ?_, ?_, ?_, ?_⟩
          · rw [List.cons_append, ← h1]
          · rw [h2, List.filter_cons, hk]; rfl
          · unfold fwdUsed at h3 ⊢; rw [List.filter_cons, hk]; exact h3
          · intro x r hx
            have := h4 x r hx
            unfold fwdUsed at this ⊢; rw [List.filter_cons, hk]; exact this
        · rw [if_neg hp]
          have hp' : t.sender = parent := by
            by_cases e : t.sender = parent
            · exact e
            · exact absurd (fun e2 => e e2.symm) hp
          by_cases hpt : (pte = true ∧ t.tlv.ty = TLV_PATH_TRACE)
          · rw [if_pos hpt]
            obtain ⟨taken, h1, h2, h3, h4⟩ := ih rest margin acc hq
            have hk : fwdKeep parent pte t = false := by
              unfold fwdKeep
              simp [hpt.1, hpt.2]
            refine ⟨t :: taken, ?_, ?_, ?_, ?_⟩
            · rw [List.cons_append, ← h1]
            · rw [h2, List.filter_cons, hk]; rfl
            · unfold fwdUsed at h3 ⊢; rw [List.filter_cons, hk]; exact h3
            · intro x r hx
              have := h4 x r hx
              unfold fwdUsed at this ⊢; rw [List.filter_cons, hk]; exact this
          · rw [if_neg hpt]
            obtain ⟨taken, h1, h2, h3, h4⟩ := ih rest (margin - t.tlv.wireSize) (acc ++ t.tlv.bytes) hq
            have hk : fwdKeep parent pte t = true := by
              unfold fwdKeep
              have h1 : decide (t.sender = parent) = true := by simp [hp']
              rw [h1]
              cases hpe : pte with
              | false => rfl
              | true =>
                have : ¬ t.tlv.ty = TLV_PATH_TRACE := fun e => hpt ⟨hpe, e⟩
                simp [this]
            have hused : fwdUsed parent pte (t :: taken) = t.tlv.wireSize + fwdUsed parent pte taken := by
              unfold fwdUsed; rw [List.filter_cons, hk]; simp
            refine ⟨t :: taken, ?_, ?_, ?_, ?_⟩
            · rw [List.cons_append, ← h1]
            · rw [h2, List.filter_cons, hk]
              simp only [if_true, List.map_cons, List.flatMap_cons, List.append_assoc]
            · rw [hused]; omega
            · intro x r hx
              have := h4 x r hx
              rw [hused]
              have e : margin - (t.tlv.wireSize + fwdUsed parent pte taken) = margin - t.tlv.wireSize - fwdUsed parent pte taken := by omega
              rw [e]; exact this
      · rw [if_neg hfit]
        refine ⟨[], rfl, ?_, ?_, ?_⟩
        · simp
        · simp [fwdUsed]
        · intro x r hx
          simp only [List.cons.injEq] at hx
          rw [← hx.1]
          simp only [fwdUsed, List.filter_nil, List.map_nil, List.sum_nil, Nat.sub_zero]
          cases hh : fwdFits loose t.tlv.wireSize margin with
          | true => exact absurd hh hfit
          | false => rfl

end Statime
