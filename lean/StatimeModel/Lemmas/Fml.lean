import StatimeModel.Model.Bmca
/-
Invariants of the foreign master list (C06).
-/
namespace Statime

/-- per-record predicate lifted to a list -/
def FML.All (P : FRec → Prop) (l : FML) : Prop := ∀ m ∈ l.masters, ∀ r ∈ m.recs, P r

theorem purge_sub (c : Int) (m : ForeignMaster) : ∀ r ∈ (m.purge c).recs, r ∈ m.recs := by
  intro r hr
  simp only [ForeignMaster.purge, List.mem_filter] at hr
  exact hr.1

theorem purge_age (c : Int) (m : ForeignMaster) : ∀ r ∈ (m.purge c).recs, r.age < c := by
  intro r hr
  simp only [ForeignMaster.purge, List.mem_filter, decide_eq_true_eq] at hr
  exact hr.2

theorem purge_id (c : Int) (m : ForeignMaster) : (m.purge c).id = m.id := rfl

theorem register_recs (c : Int) (m : ForeignMaster) (a : Ann) (age : Int) :
    ∀ r ∈ (m.register c a age).recs, r ∈ m.recs ∨ r = ⟨a, age⟩ := by
  intro r hr
  unfold ForeignMaster.register at hr
  split at hr
  · simp only [List.mem_append, List.mem_singleton] at hr
    rcases hr with h | h
    · left; exact purge_sub c m r h
    · right; exact h
  · simp only [List.mem_append, List.mem_singleton] at hr
    rcases hr with h | h
    · left; exact purge_sub c m r (List.mem_of_mem_drop h)
    · right; exact h

theorem register_id (c : Int) (m : ForeignMaster) (a : Ann) (age : Int) : (m.register c a age).id = m.id := by
  unfold ForeignMaster.register
  split <;> rfl

theorem register_length_le (c : Int) (m : ForeignMaster) (a : Ann) (age : Int) :
    (m.register c a age).recs.length ≤ m.recs.length + 1 := by
  unfold ForeignMaster.register
  have hp : (m.purge c).recs.length ≤ m.recs.length := by
    simp only [ForeignMaster.purge]; exact List.length_filter_le _ _
  split
  · simp only [List.length_append, List.length_singleton]; omega
  · simp only [List.length_append, List.length_drop, List.length_singleton]; omega

/-- a predicate that holds for every stored record and for every record that passes the
qualification test is preserved by `register` -/
theorem FML.register_all (P : Ann → Prop) (l : FML) (a : Ann) (age : Int)
    (h : l.All (fun r => P r.ann)) (hq : l.qualified a = true → P a) :
    (l.register a age).All (fun r => P r.ann) := by
  unfold FML.register
  split
  · exact h
  · rename_i hqa
    have hqa' : l.qualified a = true := by simpa using hqa
    split
    · intro m hm r hr
      simp only [List.mem_map] at hm
      obtain ⟨m0, hm0, rfl⟩ := hm
      split at hr
      · rcases register_recs _ _ _ _ r hr with h1 | h1
        · exact h m0 hm0 r h1
        · subst h1; exact hq hqa'
      · exact h m0 hm0 r hr
    · split
      · intro m hm r hr
        simp only [List.mem_append, List.mem_singleton] at hm
        rcases hm with h1 | h1
        · exact h m h1 r hr
        · subst h1
          simp only [List.mem_singleton] at hr
          subst hr
          exact hq hqa'
      · exact h

theorem FML.stepAge_all (P : Ann → Prop) (l : FML) (step : Int) (h : l.All (fun r => P r.ann)) :
    (l.stepAge step).All (fun r => P r.ann) := by
  intro m hm r hr
  simp only [FML.stepAge, List.mem_filter, List.mem_map] at hm
  obtain ⟨⟨m0, hm0, rfl⟩, _⟩ := hm
  have := purge_sub _ _ r hr
  simp only [List.mem_map] at this
  obtain ⟨r0, hr0, rfl⟩ := this
  exact h m0 hm0 r0 hr0

/-- the fold of `takeQualified`: masters keep a subset of their records; every returned record
was the last record of a master that had at least `FM_THRESHOLD` records -/
theorem takeQualified_spec (l : FML) :
    (∀ m ∈ l.takeQualified.1.masters, ∃ m0 ∈ l.masters, m.id = m0.id ∧ ∀ r ∈ m.recs, r ∈ m0.recs) ∧
    (∀ r ∈ l.takeQualified.2, ∃ m0 ∈ l.masters, FM_THRESHOLD ≤ m0.recs.length ∧ m0.recs.getLast? = some r) := by
  unfold FML.takeQualified
  have key : ∀ ms : List ForeignMaster,
      (∀ m ∈ (ms.foldr tqStep ([], [])).1, ∃ m0 ∈ ms, m.id = m0.id ∧ ∀ r ∈ m.recs, r ∈ m0.recs) ∧
      (∀ r ∈ (ms.foldr tqStep ([], [])).2, ∃ m0 ∈ ms, FM_THRESHOLD ≤ m0.recs.length ∧ m0.recs.getLast? = some r) := by
    intro ms
    induction ms with
    | nil => simp
    | cons m ms ih =>
      obtain ⟨ih1, ih2⟩ := ih
      simp only [List.foldr_cons]
      unfold tqStep
      by_cases hth : m.recs.length ≥ FM_THRESHOLD
      · simp only [hth, if_true]
        cases hl : m.recs.getLast? with
        | none =>
          simp only
          constructor
          · intro x hx
            rcases List.mem_cons.1 hx with h | h
            · subst h; exact ⟨x, List.mem_cons_self, rfl, fun r hr => hr⟩
            · obtain ⟨m0, hm0, e1, e2⟩ := ih1 x h
              exact ⟨m0, List.mem_cons_of_mem _ hm0, e1, e2⟩
          · intro r hr
            obtain ⟨m0, hm0, e1, e2⟩ := ih2 r hr
            exact ⟨m0, List.mem_cons_of_mem _ hm0, e1, e2⟩
        | some rl =>
          simp only
          constructor
          · intro x hx
            rcases List.mem_cons.1 hx with h | h
            · subst h
              exact ⟨m, List.mem_cons_self, rfl, fun r hr => List.dropLast_subset _ hr⟩
            · obtain ⟨m0, hm0, e1, e2⟩ := ih1 x h
              exact ⟨m0, List.mem_cons_of_mem _ hm0, e1, e2⟩
          · intro r hr
            rcases List.mem_append.1 hr with h | h
            · obtain ⟨m0, hm0, e1, e2⟩ := ih2 r h
              exact ⟨m0, List.mem_cons_of_mem _ hm0, e1, e2⟩
            · simp only [List.mem_singleton] at h
              subst h
              exact ⟨m, List.mem_cons_self, hth, hl⟩
      · simp only [hth, if_false]
        constructor
        · intro x hx
          rcases List.mem_cons.1 hx with h | h
          · subst h; exact ⟨x, List.mem_cons_self, rfl, fun r hr => hr⟩
          · obtain ⟨m0, hm0, e1, e2⟩ := ih1 x h
            exact ⟨m0, List.mem_cons_of_mem _ hm0, e1, e2⟩
        · intro r hr
          obtain ⟨m0, hm0, e1, e2⟩ := ih2 r hr
          exact ⟨m0, List.mem_cons_of_mem _ hm0, e1, e2⟩
  exact key l.masters

end Statime

namespace Statime

/-- the other direction of `takeQualified_spec`: every master survives (ids preserved), with no more
records than before -/
theorem takeQualified_onto (l : FML) :
    ∀ m0 ∈ l.masters, ∃ m ∈ l.takeQualified.1.masters, m.id = m0.id := by
  unfold FML.takeQualified
  have key : ∀ ms : List ForeignMaster, ∀ m0 ∈ ms, ∃ m ∈ (ms.foldr tqStep ([], [])).1, m.id = m0.id := by
    intro ms
    induction ms with
    | nil => simp
    | cons x xs ih =>
      intro m0 hm0
      simp only [List.foldr_cons]
      have hx : ∃ m ∈ (tqStep x (xs.foldr tqStep ([], []))).1, m.id = x.id := by
        unfold tqStep
        split
        · split
          · exact ⟨_, List.mem_cons_self, rfl⟩
          · exact ⟨_, List.mem_cons_self, rfl⟩
        · exact ⟨_, List.mem_cons_self, rfl⟩
      have hrest : ∀ m ∈ (xs.foldr tqStep ([], [])).1, m ∈ (tqStep x (xs.foldr tqStep ([], []))).1 := by
        intro m hm
        unfold tqStep
        split
        · split <;> exact List.mem_cons_of_mem _ hm
        · exact List.mem_cons_of_mem _ hm
      rcases List.mem_cons.1 hm0 with h | h
      · subst h; exact hx
      · obtain ⟨m, hm, e⟩ := ih m0 h
        exact ⟨m, hrest m hm, e⟩
  exact key l.masters

theorem maxBy_mem (cmp : Best → Best → Ordering) (l : List Best) (b : Best) (h : maxBy cmp l = some b) : b ∈ l := by
  cases l with
  | nil => simp [maxBy] at h
  | cons x xs =>
    simp only [maxBy, Option.some.injEq] at h
    subst h
    have key : ∀ (ys : List Best) (c : Best), ys.foldl (maxStep cmp) c = c ∨ ys.foldl (maxStep cmp) c ∈ ys := by
      intro ys
      induction ys with
      | nil => intro c; left; rfl
      | cons y ys ih =>
        intro c
        simp only [List.foldl_cons]
        have hs : maxStep cmp c y = c ∨ maxStep cmp c y = y := by
          unfold maxStep; split <;> simp
        rcases hs with e | e
        · rw [e]
          rcases ih c with h | h
          · left; exact h
          · right; exact List.mem_cons_of_mem _ h
        · rw [e]
          rcases ih y with h | h
          · right; rw [h]; exact List.mem_cons_self
          · right; exact List.mem_cons_of_mem _ h
    rcases key xs x with h | h
    · rw [h]; exact List.mem_cons_self
    · exact List.mem_cons_of_mem _ h

theorem takeQualified_own (l : FML) : l.takeQualified.1.own = l.own ∧ l.takeQualified.1.interval = l.interval := by
  unfold FML.takeQualified; exact ⟨rfl, rfl⟩

theorem register_own (l : FML) (a : Ann) (age : Int) :
    (l.register a age).own = l.own ∧ (l.register a age).interval = l.interval := by
  unfold FML.register
  split
  · exact ⟨rfl, rfl⟩
  · split
    · exact ⟨rfl, rfl⟩
    · split <;> exact ⟨rfl, rfl⟩

theorem stepAge_own (l : FML) (s : Int) : (l.stepAge s).own = l.own ∧ (l.stepAge s).interval = l.interval := by
  unfold FML.stepAge; exact ⟨rfl, rfl⟩

/-- what `takeBest` returns came out of `takeQualified`: it was the newest record of a master with at
least THRESHOLD records -/
theorem takeBest_spec (l : FML) (acc : Option (List Nat)) (b : Best) (h : (takeBest l acc).2 = some b) :
    b.identity = l.own ∧
    ∃ m0 ∈ l.masters, FM_THRESHOLD ≤ m0.recs.length ∧ m0.recs.getLast? = some ⟨b.ann, b.age⟩ := by
  unfold takeBest at h
  cases hq : l.takeQualified with
  | mk l1 qs =>
    rw [hq] at h
    simp only at h
    cases hb : findBest (qs.map (fun r => ({ ann := r.ann, age := r.age, identity := l.own } : Best))) with
    | none => rw [hb] at h; simp at h
    | some b' =>
      rw [hb] at h
      simp only [Option.some.injEq] at h
      subst h
      have hm := maxBy_mem _ _ _ hb
      simp only [List.mem_map] at hm
      obtain ⟨r, hr, rfl⟩ := hm
      have := (takeQualified_spec l).2 r (by rw [hq]; exact hr)
      obtain ⟨m0, hm0, hth, hl⟩ := this
      exact ⟨rfl, m0, hm0, hth, by simpa using hl⟩

end Statime

namespace Statime

/-- where a master of the list after `register` comes from -/
theorem register_mem (l : FML) (a : Ann) (age : Int) (m : ForeignMaster) (hm : m ∈ (l.register a age).masters) :
    m ∈ l.masters ∨
    (∃ m0 ∈ l.masters, m0.id = a.hdr.src ∧ m = m0.register l.cutoff a age ∧ l.qualified a = true) ∨
    (m = ⟨a.hdr.src, [⟨a, 0⟩]⟩ ∧ l.qualified a = true ∧ ¬ ∃ m0 ∈ l.masters, m0.id = a.hdr.src) := by
  unfold FML.register at hm
  split at hm
  · left; exact hm
  · rename_i hq
    have hq' : l.qualified a = true := by simpa using hq
    split at hm
    · simp only [List.mem_map] at hm
      obtain ⟨m0, hm0, rfl⟩ := hm
      by_cases he : m0.id = a.hdr.src
      · right; left
        exact ⟨m0, hm0, he, by simp [he], hq'⟩
      · left; simp [he, hm0]
    · rename_i hany
      split at hm
      · simp only [List.mem_append, List.mem_singleton] at hm
        rcases hm with h | h
        · left; exact h
        · right; right
          refine ⟨h, hq', ?_⟩
          intro ⟨m0, hm0, he⟩
          apply hany
          simp only [List.any_eq_true, decide_eq_true_eq]
          exact ⟨m0, hm0, he⟩
      · left; exact hm

theorem qualified_inv (l : FML) (a : Ann) (h : l.qualified a = true) :
    a.hdr.src.clock ≠ l.own.clock ∧ a.body.steps < STEPS_CUTOFF := by
  unfold FML.qualified at h
  simp only [Bool.and_eq_true, decide_eq_true_eq] at h
  exact ⟨h.1.1, h.2⟩

end Statime
