import StatimeModel.Model.Net
/-
Lemmas about the abstract network model (Model/Net.lean): where advertisements come from, and what a
Slave decision of `stepNode` implies about the node's data sets.
-/
namespace Statime.Net
open Statime

theorem bestOf_mem (rc rp : Nat) (l : List Adv) (a : Adv) (h : bestOf rc rp l = some a) : a ∈ l := by
  cases l with
  | nil => simp [bestOf] at h
  | cons x xs =>
    simp only [bestOf, Option.some.injEq] at h
    subst h
    have : ∀ (ys : List Adv) (acc : Adv), acc ∈ x :: xs → (∀ y ∈ ys, y ∈ x :: xs) → ys.foldl (better rc rp) acc ∈ x :: xs := by
      intro ys
      induction ys with
      | nil => intro acc h _; exact h
      | cons y ys ih =>
        intro acc hacc hys
        simp only [List.foldl_cons]
        apply ih
        · unfold better; split
          · exact hacc
          · exact hys y (by simp)
        · intro z hz; exact hys z (by simp [hz])
    exact this xs x (by simp) (fun y hy => by simp [hy])

/-- what is advertised on a segment comes from an alive node's Master port there, and carries that node's data -/
theorem advsOn_spec (net : Net) (seg x j : Nat) (a : Adv) (h : a ∈ advsOn net seg x j) :
    ∃ n c s k pc, net[n]? = some (c, s) ∧ c.alive = true ∧ c.ports[k]? = some pc ∧ pc.seg = seg ∧ pc.attached = true ∧
      s.ports.getD k .listening = .master ∧ ¬(n = x ∧ k = j) ∧
      a = { gm := s.gm, steps := s.steps, sender := c.id, senderPort := k + 1 } := by
  unfold advsOn at h
  simp only [List.mem_flatMap] at h
  obtain ⟨⟨⟨c, s⟩, n⟩, hmem, hin⟩ := h
  have hn := List.mem_zipIdx_iff_getElem?.mp hmem
  simp only at hin hn
  split at hin
  · simp at hin
  · rename_i halive
    simp only [List.mem_filterMap] at hin
    obtain ⟨⟨pc, k⟩, hk, hsome⟩ := hin
    have hk' := List.mem_zipIdx_iff_getElem?.mp hk
    simp only at hsome hk'
    split at hsome
    · rename_i hcond
      simp only [Option.some.injEq] at hsome
      refine ⟨n, c, s, k, pc, hn, by simpa using halive, hk', hcond.1, hcond.2.1, hcond.2.2.2, ?_, hsome.symm⟩
      have h3 := hcond.2.2.1
      intro hc
      simp [hc.1, hc.2] at h3
    · simp at hsome

theorem decide_slave (c : NodeCfg) (ebest : Option (Adv × Nat)) (erbest : Option Adv) (j : Nat) (a : Adv)
    (h : decide c ebest erbest j = .s a) : ebest = some (a, j) ∧ erbest = some a := by
  unfold decide at h
  simp only at h
  split at h
  · split at h
    · cases h
    · split at h <;> cases h
  · split at h
    · cases h
    · rename_i g gj
      split at h
      · split at h
        · cases h
        · rename_i e
          split at h
          · rename_i hc
            cases h
            exact ⟨by rw [hc.1], by rw [hc.2]⟩
          · split at h <;> cases h
      · cases h

theorem foldl_betterCand_mem (c : NodeCfg) (ys : List (Adv × Nat)) (l : List (Adv × Nat)) :
    ∀ acc, acc ∈ l → (∀ y ∈ ys, y ∈ l) → ys.foldl (betterCand c) acc ∈ l := by
  induction ys with
  | nil => intro acc h _; exact h
  | cons y ys ih =>
    intro acc hacc hys
    simp only [List.foldl_cons]
    apply ih
    · unfold betterCand; split
      · exact hacc
      · exact hys y (by simp)
    · intro z hz; exact hys z (by simp [hz])

theorem ebestOf_mem (c : NodeCfg) (erbests : List (Option Adv)) (g : Adv × Nat) (h : ebestOf c erbests = some g) :
    g ∈ candsOf c erbests := by
  unfold ebestOf at h
  split at h
  · cases h
  · rename_i a rest heq
    simp only [Option.some.injEq] at h
    subst h
    rw [heq]
    exact foldl_betterCand_mem c rest (a :: rest) a (by simp) (fun y hy => by simp [hy])

theorem candsOf_spec (c : NodeCfg) (erbests : List (Option Adv)) (a : Adv) (j : Nat) (h : (a, j) ∈ candsOf c erbests) :
    erbests[j]? = some (some a) := by
  unfold candsOf at h
  simp only [List.mem_filterMap] at h
  obtain ⟨⟨⟨pc, e⟩, k⟩, hk, hs⟩ := h
  have hk' := List.mem_zipIdx_iff_getElem?.mp hk
  simp only at hk' hs
  split at hs
  · cases hs
  · cases e with
    | none => simp at hs
    | some a' =>
      simp only [Option.map_some, Option.some.injEq, Prod.mk.injEq] at hs
      obtain ⟨rfl, rfl⟩ := hs
      have := List.getElem?_zip_eq_some.mp hk'
      exact this.2

theorem erbestsOf_spec (net : Net) (x : Nat) (c : NodeCfg) (j : Nat) (a : Adv)
    (h : (erbestsOf net x c)[j]? = some (some a)) :
    ∃ pc, c.ports[j]? = some pc ∧ pc.attached = true ∧ a ∈ advsOn net pc.seg x j ∧ qualified c a = true := by
  unfold erbestsOf at h
  simp only [List.getElem?_map] at h
  cases hz : c.ports.zipIdx[j]? with
  | none => rw [hz] at h; simp at h
  | some v =>
    obtain ⟨pc, k⟩ := v
    rw [hz] at h
    simp only [Option.map_some, Option.some.injEq] at h
    rw [List.getElem?_zipIdx] at hz
    cases hp : c.ports[j]? with
    | none => rw [hp] at hz; simp at hz
    | some pc' =>
      rw [hp] at hz
      simp only [Option.map_some, Nat.zero_add, Option.some.injEq, Prod.mk.injEq] at hz
      obtain ⟨rfl, rfl⟩ := hz
      refine ⟨pc', rfl, ?_⟩
      split at h
      · cases h
      · rename_i hat
        have hm := bestOf_mem _ _ _ _ h
        simp only [List.mem_filter] at hm
        exact ⟨by simpa using hat, hm.1, hm.2⟩

/-- node `x` is at a fixed point of its re-evaluation -/
def StableAt (net : Net) (x : Nat) (c : NodeCfg) (s : NodeSt) : Prop :=
  net[x]? = some (c, s) ∧ c.alive = true ∧ stepNode net x = s

theorem stepNode_eq (net : Net) (x : Nat) (c : NodeCfg) (s : NodeSt) (hx : net[x]? = some (c, s)) (ha : c.alive = true) :
    stepNode net x =
      (match slaveDec (decsOf c s (erbestsOf net x c)) with
       | some a => { ports := (decsOf c s (erbestsOf net x c)).zipIdx.map fun (d, j) => portOf net x c s d j,
                     parentClock := a.sender, parentPort := a.senderPort, steps := a.steps + 1, gm := a.gm }
       | none =>
         if (decsOf c s (erbestsOf net x c)).any (· = some .gm) then
           { ports := (decsOf c s (erbestsOf net x c)).zipIdx.map fun (d, j) => portOf net x c s d j,
             parentClock := c.id, parentPort := 0, steps := 0, gm := c.ownGm }
         else { s with ports := (decsOf c s (erbestsOf net x c)).zipIdx.map fun (d, j) => portOf net x c s d j }) := by
  unfold stepNode
  rw [hx]
  simp only [ha, Bool.not_true, Bool.false_eq_true, if_false]
  rfl

theorem stepNode_ports (net : Net) (x : Nat) (c : NodeCfg) (s : NodeSt) (hx : net[x]? = some (c, s)) (ha : c.alive = true) :
    (stepNode net x).ports = (decsOf c s (erbestsOf net x c)).zipIdx.map fun (d, j) => portOf net x c s d j := by
  rw [stepNode_eq net x c s hx ha]
  split
  · rfl
  · split <;> rfl

/-- the decision behind a port state of the re-evaluated node -/
theorem port_decision (net : Net) (x : Nat) (c : NodeCfg) (s : NodeSt) (h : StableAt net x c s) (j : Nat) (st : PSt)
    (hj : s.ports[j]? = some st) :
    ∃ d, (decsOf c s (erbestsOf net x c))[j]? = some d ∧ portOf net x c s d j = st := by
  obtain ⟨hx, ha, hs⟩ := h
  have hp := stepNode_ports net x c s hx ha
  rw [hs] at hp
  rw [hp] at hj
  simp only [List.getElem?_map] at hj
  cases hz : (decsOf c s (erbestsOf net x c)).zipIdx[j]? with
  | none => rw [hz] at hj; simp at hj
  | some v =>
    obtain ⟨d, k⟩ := v
    rw [hz] at hj
    rw [List.getElem?_zipIdx] at hz
    cases hd : (decsOf c s (erbestsOf net x c))[j]? with
    | none => rw [hd] at hz; simp at hz
    | some d' =>
      rw [hd] at hz
      simp only [Option.map_some, Nat.zero_add, Option.some.injEq, Prod.mk.injEq] at hz
      obtain ⟨rfl, rfl⟩ := hz
      exact ⟨d', rfl, by simpa using hj⟩

theorem portOf_slave (net : Net) (x : Nat) (c : NodeCfg) (s : NodeSt) (d : Option Dec) (j : Nat)
    (h : portOf net x c s d j = .slave) : ∃ a, d = some (.s a) := by
  unfold portOf at h
  split at h
  · split at h <;> cases h
  · exact ⟨_, rfl⟩
  · cases h
  · split at h
    · cases h
    · split at h <;> cases h
  · split at h
    · cases h
    · split at h <;> cases h

theorem decsOf_get (c : NodeCfg) (s : NodeSt) (erbests : List (Option Adv)) (j : Nat) (d : Option Dec)
    (h : (decsOf c s erbests)[j]? = some d) :
    ∃ e, erbests[j]? = some e ∧
      d = (if s.ports.getD j .listening = .listening ∧ e.isNone then none else some (Net.decide c (ebestOf c erbests) e j)) := by
  unfold decsOf at h
  simp only [List.getElem?_map] at h
  cases hz : erbests.zipIdx[j]? with
  | none => rw [hz] at h; simp at h
  | some v =>
    obtain ⟨e, k⟩ := v
    rw [hz] at h
    rw [List.getElem?_zipIdx] at hz
    cases he : erbests[j]? with
    | none => rw [he] at hz; simp at hz
    | some e' =>
      rw [he] at hz
      simp only [Option.map_some, Nat.zero_add, Option.some.injEq, Prod.mk.injEq] at hz
      obtain ⟨rfl, rfl⟩ := hz
      simp only [Option.map_some, Option.some.injEq] at h
      exact ⟨e', rfl, h.symm⟩

/-- a Slave decision comes from an advertisement heard on that very port -/
theorem slave_decision_source (net : Net) (x : Nat) (c : NodeCfg) (s : NodeSt) (j : Nat) (a : Adv)
    (h : (decsOf c s (erbestsOf net x c))[j]? = some (some (Dec.s a))) :
    ∃ pc : PortCfg, c.ports[j]? = some pc ∧ pc.attached = true ∧ a ∈ advsOn net pc.seg x j ∧ qualified c a = true := by
  obtain ⟨e, he, hd⟩ := decsOf_get c s _ j _ h
  split at hd
  · cases hd
  · simp only [Option.some.injEq] at hd
    obtain ⟨_, h2⟩ := decide_slave c _ e j a hd.symm
    subst h2
    exact erbestsOf_spec net x c j a he

theorem slaveDec_some (decs : List (Option Dec)) (a : Adv) (h : slaveDec decs = some a) :
    ∃ j : Nat, decs[j]? = some (some (Dec.s a)) := by
  unfold slaveDec at h
  obtain ⟨d, hd, hs⟩ := List.exists_of_findSome?_eq_some h
  obtain ⟨j, hj, rfl⟩ := List.getElem_of_mem hd
  refine ⟨j, ?_⟩
  rw [List.getElem?_eq_getElem hj]
  split at hs
  · simp only [Option.some.injEq] at hs; subst hs; rename_i heq; rw [heq]
  · cases hs

theorem slaveDec_of_mem (decs : List (Option Dec)) (j : Nat) (a : Adv) (h : decs[j]? = some (some (Dec.s a))) :
    ∃ b, slaveDec decs = some b := by
  unfold slaveDec
  cases hf : decs.findSome? (fun d => match d with | some (.s a) => some a | _ => none) with
  | some b => exact ⟨b, rfl⟩
  | none =>
    exfalso
    rw [List.findSome?_eq_none_iff] at hf
    have hm : some (Dec.s a) ∈ decs := List.mem_of_getElem? h
    have := hf _ hm
    simp at this

theorem portOf_master (net : Net) (x : Nat) (c : NodeCfg) (s : NodeSt) (d : Option Dec) (j : Nat)
    (h : portOf net x c s d j = .master) : d = none ∨ d = some .gm ∨ d = some .m3 := by
  unfold portOf at h
  split at h
  · left; rfl
  · cases h
  · cases h
  · right; left; rfl
  · right; right; rfl

theorem decide_m3 (c : NodeCfg) (ebest : Option (Adv × Nat)) (erbest : Option Adv) (j : Nat)
    (h : Net.decide c ebest erbest j = .m3) : ∃ g gj, ebest = some (g, gj) := by
  unfold Net.decide at h
  simp only at h
  split at h
  · split at h
    · cases h
    · split at h <;> cases h
  · split at h
    · cases h
    · exact ⟨_, _, rfl⟩

/-- the port `Ebest` was heard on gets the Slave decision whenever some port gets M3 (`Ebest` is better than
the instance's own data set) -/
theorem ebest_port_is_slave (c : NodeCfg) (s : NodeSt) (erbests : List (Option Adv)) (j : Nat) (e : Option Adv)
    (hm3 : Net.decide c (ebestOf c erbests) e j = .m3) :
    ∃ (g : Adv) (gj : Nat), ebestOf c erbests = some (g, gj) ∧ (decsOf c s erbests)[gj]? = some (some (Dec.s g)) := by
  obtain ⟨g, gj, hg⟩ := decide_m3 c _ e j hm3
  refine ⟨g, gj, hg, ?_⟩
  have hmem := ebestOf_mem c erbests (g, gj) hg
  have hgj := candsOf_spec c erbests g gj hmem
  -- the decision on port gj
  have hlen : gj < erbests.length := by
    rcases Nat.lt_or_ge gj erbests.length with h | h
    · exact h
    · rw [List.getElem?_eq_none h] at hgj; cases hgj
  unfold decsOf
  simp only [List.getElem?_map, List.getElem?_zipIdx, hgj, Option.map_some, Nat.zero_add]
  have : ¬(s.ports.getD gj .listening = .listening ∧ (some g).isNone = true) := by simp
  simp only [this, if_false, Option.some.injEq]
  -- decide on that port with erbest = g: own is worse than Ebest (as on port j), the port is Ebest's
  unfold Net.decide at hm3 ⊢
  simp only at hm3 ⊢
  split at hm3
  · split at hm3
    · cases hm3
    · split at hm3 <;> cases hm3
  · rename_i hcls
    simp only [hcls, if_false]
    rw [hg] at hm3 ⊢
    simp only at hm3 ⊢
    split at hm3
    · rename_i hlt
      simp [hlt]
    · cases hm3

/-- **Every Slave port follows a Master port of its own segment, one step closer to the same grandmaster.**
In a fixed point, an instance with a Slave port has as parent a live instance with a Master port attached
to the segment of one of its own ports; its stepsRemoved is the parent's plus one and it carries the
parent's grandmaster attributes. The parent is a different clock. -/
theorem slave_follows_master_port (net : Net) (x : Nat) (c : NodeCfg) (s : NodeSt) (h : StableAt net x c s)
    (j : Nat) (hj : s.ports[j]? = some PSt.slave) :
    ∃ (n : Nat) (cn : NodeCfg) (sn : NodeSt) (k : Nat) (pc : PortCfg) (j' : Nat) (pc' : PortCfg),
      net[n]? = some (cn, sn) ∧ cn.alive = true ∧ cn.ports[k]? = some pc ∧ pc.attached = true ∧
      sn.ports.getD k PSt.listening = PSt.master ∧ c.ports[j']? = some pc' ∧ pc'.attached = true ∧ pc.seg = pc'.seg ∧
      s.parentClock = cn.id ∧ s.parentPort = k + 1 ∧ s.steps = sn.steps + 1 ∧ s.gm = sn.gm ∧ cn.id ≠ c.id := by
  obtain ⟨d, hd, hp⟩ := port_decision net x c s h j .slave hj
  obtain ⟨a0, rfl⟩ := portOf_slave net x c s d j hp
  obtain ⟨b, hb⟩ := slaveDec_of_mem _ j a0 hd
  obtain ⟨hx, ha, hs⟩ := h
  have he := stepNode_eq net x c s hx ha
  rw [hs, hb] at he
  obtain ⟨j', hj'⟩ := slaveDec_some _ b hb
  obtain ⟨pc', hpc', hat', hmem, hq⟩ := slave_decision_source net x c s j' b hj'
  obtain ⟨n, cn, sn, k, pc, hn, hal, hk, hseg, hatt, hm, _, hb'⟩ := advsOn_spec net pc'.seg x j' b hmem
  refine ⟨n, cn, sn, k, pc, j', pc', hn, hal, hk, hatt, hm, hpc', hat', hseg, ?_, ?_, ?_, ?_, ?_⟩
  · rw [he, hb']
  · rw [he, hb']
  · rw [he, hb']
  · rw [he, hb']
  · unfold qualified at hq
    rw [hb'] at hq
    simp at hq
    exact hq.1

/-- an instance in the grandmaster state: stepsRemoved 0, its own attributes as grandmaster attributes -/
def IsGm (c : NodeCfg) (s : NodeSt) : Prop := s.steps = 0 ∧ s.gm = c.ownGm ∧ s.parentClock = c.id

/-- **Whoever advertises is a grandmaster or a slave itself.** In a fixed point a live instance with a
Master port is either in the grandmaster state or has a Slave port of its own. -/
theorem master_port_node (net : Net) (x : Nat) (c : NodeCfg) (s : NodeSt) (h : StableAt net x c s)
    (k : Nat) (hk : s.ports.getD k .listening = .master) :
    IsGm c s ∨ ∃ j : Nat, s.ports[j]? = some PSt.slave := by
  have hk' : s.ports[k]? = some PSt.master := by
    cases hg : s.ports[k]? with
    | none => simp [List.getD, hg] at hk
    | some v => simp [List.getD, hg] at hk; rw [hk]
  obtain ⟨d, hd, hp⟩ := port_decision net x c s h k .master hk'
  obtain ⟨hx, ha, hs⟩ := h
  have he := stepNode_eq net x c s hx ha
  rw [hs] at he
  have hports := stepNode_ports net x c s hx ha
  rw [hs] at hports
  -- a slave decision anywhere gives a Slave port
  have slave_port : ∀ b, slaveDec (decsOf c s (erbestsOf net x c)) = some b → ∃ j : Nat, s.ports[j]? = some PSt.slave := by
    intro b hb
    obtain ⟨j, hj⟩ := slaveDec_some _ b hb
    refine ⟨j, ?_⟩
    rw [hports]
    simp only [List.getElem?_map, List.getElem?_zipIdx, hj, Option.map_some, Nat.zero_add]
    rfl
  rcases portOf_master net x c s d k hp with rfl | rfl | rfl
  · -- no decision: the port would have to be Listening
    obtain ⟨e, _, hd2⟩ := decsOf_get c s _ k _ hd
    split at hd2
    · rename_i hl
      rw [hk] at hl
      cases hl.1
    · cases hd2
  · -- M1 / M2
    cases hsd : slaveDec (decsOf c s (erbestsOf net x c)) with
    | some b => right; exact slave_port b hsd
    | none =>
      left
      rw [hsd] at he
      have hany : (decsOf c s (erbestsOf net x c)).any (· = some .gm) = true := by
        rw [List.any_eq_true]
        exact ⟨some .gm, List.mem_of_getElem? hd, by simp⟩
      simp only [hany, if_true] at he
      unfold IsGm
      rw [he]
      exact ⟨rfl, rfl, rfl⟩
  · -- M3: Ebest is better than own, so its port is Slave
    right
    obtain ⟨e, _, hd2⟩ := decsOf_get c s _ k _ hd
    split at hd2
    · cases hd2
    · simp only [Option.some.injEq] at hd2
      obtain ⟨g, gj, _, hs1⟩ := ebest_port_is_slave c s _ k e hd2.symm
      obtain ⟨b, hb⟩ := slaveDec_of_mem _ gj g hs1
      exact slave_port b hb

/-- every live node of the network is at its fixed point -/
def Stable (net : Net) : Prop := ∀ x c s, net[x]? = some (c, s) → c.alive = true → stepNode net x = s

/-- **No loops, no phantom grandmaster.** In a fixed point of the whole network, every instance with a
Slave port follows, over exactly `stepsRemoved` parent hops, a live instance that is in the grandmaster
state, and the grandmaster attributes it holds are that instance's own. (Parent chains strictly decrease in
stepsRemoved by `slave_follows_master_port`, so the parent relation has no cycle.) -/
theorem slave_reaches_live_grandmaster (net : Net) (hst : Stable net) :
    ∀ (d x : Nat) (c : NodeCfg) (s : NodeSt), net[x]? = some (c, s) → c.alive = true →
      (∃ j : Nat, s.ports[j]? = some PSt.slave) → s.steps = d →
      ∃ (r : Nat) (cr : NodeCfg) (sr : NodeSt), net[r]? = some (cr, sr) ∧ cr.alive = true ∧ IsGm cr sr ∧ s.gm = cr.ownGm ∧ 0 < d := by
  intro d
  induction d using Nat.strongRecOn with
  | ind d ih =>
    intro x c s hx ha ⟨j, hj⟩ hd
    have hsx : StableAt net x c s := ⟨hx, ha, hst x c s hx ha⟩
    obtain ⟨n, cn, sn, k, pc, j', pc', hn, hal, hk, hatt, hm, _, _, _, _, _, hsteps, hgm, _⟩ :=
      slave_follows_master_port net x c s hsx j hj
    have hsn : StableAt net n cn sn := ⟨hn, hal, hst n cn sn hn hal⟩
    rcases master_port_node net n cn sn hsn k hm with hgmn | hsl
    · exact ⟨n, cn, sn, hn, hal, hgmn, by rw [hgm, hgmn.2.1], by omega⟩
    · have hlt : sn.steps < d := by omega
      obtain ⟨r, cr, sr, hr, har, hgr, hgme, _⟩ := ih sn.steps hlt n cn sn hn hal hsl rfl
      exact ⟨r, cr, sr, hr, har, hgr, by rw [hgm, hgme], by omega⟩

end Statime.Net
