import StatimeModel.Model.Net
/-
Lemmas about the abstract network model (Model/Net.lean): where advertisements come from, and what a
Slave decision of `stepNode` implies about the node's data sets.
-/
namespace Statime.Net
open Statime

theorem bestOf_mem (rc rp : Nat) (l : List Adv) (a : Adv) (h : bestOf rc rp l = some a) : a ∈ l := by
  cases l with
  | nil => simp [bestOf] at h
  | cons x xs =>
    simp only [bestOf, Option.some.injEq] at h
    subst h
    have : ∀ (ys : List Adv) (acc : Adv), acc ∈ x :: xs → (∀ y ∈ ys, y ∈ x :: xs) → ys.foldl (better rc rp) acc ∈ x :: xs := by
      intro ys
      induction ys with
      | nil => intro acc h _; exact h
      | cons y ys ih =>
        intro acc hacc hys
        simp only [List.foldl_cons]
        apply ih
        · unfold better; split
          · exact hacc
          · exact hys y (by simp)
        · intro z hz; exact hys z (by simp [hz])
    exact this xs x (by simp) (fun y hy => by simp [hy])

/-- what is advertised on a segment comes from an alive node's Master port there, and carries that node's data -/
theorem advsOn_spec (net : Net) (seg x j : Nat) (a : Adv) (h : a ∈ advsOn net seg x j) :
    ∃ n c s k pc, net[n]? = some (c, s) ∧ c.alive = true ∧ c.ports[k]? = some pc ∧ pc.seg = seg ∧ pc.attached = true ∧
      s.ports.getD k .listening = .master ∧ ¬(n = x ∧ k = j) ∧
      a = { gm := s.gm, steps := s.steps, sender := c.id, senderPort := k + 1 } := by
  unfold advsOn at h
  simp only [List.mem_flatMap] at h
  obtain ⟨⟨⟨c, s⟩, n⟩, hmem, hin⟩ := h
  have hn := List.mem_zipIdx_iff_getElem?.mp hmem
  simp only at hin hn
  split at hin
  · simp at hin
  · rename_i halive
    simp only [List.mem_filterMap] at hin
    obtain ⟨⟨pc, k⟩, hk, hsome⟩ := hin
    have hk' := List.mem_zipIdx_iff_getElem?.mp hk
    simp only at hsome hk'
    split at hsome
    · rename_i hcond
      simp only [Option.some.injEq] at hsome
      refine ⟨n, c, s, k, pc, hn, by simpa using halive, hk', hcond.1, hcond.2.1, hcond.2.2.2, ?_, hsome.symm⟩
      have h3 := hcond.2.2.1
      intro hc
      simp [hc.1, hc.2] at h3
    · simp at hsome

theorem decide_slave (c : NodeCfg) (ebest : Option (Adv × Nat)) (erbest : Option Adv) (j : Nat) (a : Adv)
    (h : decide c ebest erbest j = .s a) : ebest = some (a, j) ∧ erbest = some a := by
  unfold decide at h
  simp only at h
  split at h
  · split at h
    · cases h
    · split at h <;> cases h
  · split at h
    · cases h
    · rename_i g gj
      split at h
      · split at h
        · cases h
        · rename_i e
          split at h
          · rename_i hc
            cases h
            exact ⟨by rw [hc.1], by rw [hc.2]⟩
          · split at h <;> cases h
      · cases h

theorem foldl_betterCand_mem (c : NodeCfg) (ys : List (Adv × Nat)) (l : List (Adv × Nat)) :
    ∀ acc, acc ∈ l → (∀ y ∈ ys, y ∈ l) → ys.foldl (betterCand c) acc ∈ l := by
  induction ys with
  | nil => intro acc h _; exact h
  | cons y ys ih =>
    intro acc hacc hys
    simp only [List.foldl_cons]
    apply ih
    · unfold betterCand; split
      · exact hacc
      · exact hys y (by simp)
    · intro z hz; exact hys z (by simp [hz])

theorem ebestOf_mem (c : NodeCfg) (erbests : List (Option Adv)) (g : Adv × Nat) (h : ebestOf c erbests = some g) :
    g ∈ candsOf c erbests := by
  unfold ebestOf at h
  split at h
  · cases h
  · rename_i a rest heq
    simp only [Option.some.injEq] at h
    subst h
    rw [heq]
    exact foldl_betterCand_mem c rest (a :: rest) a (by simp) (fun y hy => by simp [hy])

theorem candsOf_spec (c : NodeCfg) (erbests : List (Option Adv)) (a : Adv) (j : Nat) (h : (a, j) ∈ candsOf c erbests) :
    erbests[j]? = some (some a) := by
  unfold candsOf at h
  simp only [List.mem_filterMap] at h
  obtain ⟨⟨⟨pc, e⟩, k⟩, hk, hs⟩ := h
  have hk' := List.mem_zipIdx_iff_getElem?.mp hk
  simp only at hk' hs
  split at hs
  · cases hs
  · cases e with
    | none => simp at hs
    | some a' =>
      simp only [Option.map_some, Option.some.injEq, Prod.mk.injEq] at hs
      obtain ⟨rfl, rfl⟩ := hs
      have := List.getElem?_zip_eq_some.mp hk'
      exact this.2

theorem erbestsOf_spec (net : Net) (x : Nat) (c : NodeCfg) (j : Nat) (a : Adv)
    (h : (erbestsOf net x c)[j]? = some (some a)) :
    ∃ pc, c.ports[j]? = some pc ∧ pc.attached = true ∧ a ∈ advsOn net pc.seg x j ∧ qualified c a = true := by
  unfold erbestsOf at h
  simp only [List.getElem?_map] at h
  cases hz : c.ports.zipIdx[j]? with
  | none => rw [hz] at h; simp at h
  | some v =>
    obtain ⟨pc, k⟩ := v
    rw [hz] at h
    simp only [Option.map_some, Option.some.injEq] at h
    rw [List.getElem?_zipIdx] at hz
    cases hp : c.ports[j]? with
    | none => rw [hp] at hz; simp at hz
    | some pc' =>
      rw [hp] at hz
      simp only [Option.map_some, Nat.zero_add, Option.some.injEq, Prod.mk.injEq] at hz
      obtain ⟨rfl, rfl⟩ := hz
      refine ⟨pc', rfl, ?_⟩
      split at h
      · cases h
      · rename_i hat
        have hm := bestOf_mem _ _ _ _ h
        simp only [List.mem_filter] at hm
        exact ⟨by simpa using hat, hm.1, hm.2⟩

end Statime.Net
