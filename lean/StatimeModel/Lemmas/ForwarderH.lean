import StatimeModel.Lemmas.ForwarderL
/-
History invariant of the forwarded-TLV queue: whatever a forwarder has handed out so far is a
subsequence — by position — of the part of the channel log it has consumed.
-/
namespace Statime.Fwd

def AllWf (s : St) : Prop := ∀ r ∈ s.rxs, Wf s.log r

/-- the values forwarder `i` handed out during a run (ops paired with their outputs) -/
def delivered (i : Nat) : List Op → List (Option Item) → List Item
  | .next j _ :: ops, some v :: os => if j = i then v :: delivered i ops os else delivered i ops os
  | _ :: ops, _ :: os => delivered i ops os
  | _, _ => []

/-- what forwarder `i` has handed out is a subsequence of the log prefix it has consumed; a forwarder
that does not exist yet has handed out nothing -/
def Inv (s : St) (i : Nat) (d : List Item) : Prop :=
  match s.rxs[i]? with
  | some r => d.Sublist (s.log.take r.readPos)
  | none => d = []

theorem take_sublist_take {α} (l : List α) {m n : Nat} (h : m ≤ n) : (l.take m).Sublist (l.take n) := by
  have : l.take m = (l.take n).take m := by rw [List.take_take]; congr 1; omega
  rw [this]; exact List.take_sublist _ _

theorem allWf_init : AllWf {} := by
  intro r hr
  simp only [List.mem_singleton] at hr
  subst hr
  exact ⟨Nat.le_refl _, by intro w hw; cases hw⟩

theorem inv_init (i : Nat) : Inv {} i [] := by
  unfold Inv
  cases i with
  | zero => simp
  | succ n => simp

theorem allWf_set (s : St) (i : Nat) (r : Rx) (h : AllWf s) (hr : Wf s.log r) : AllWf (setRx s i r) := by
  intro x hx
  simp only [setRx] at hx
  rcases List.mem_or_eq_of_mem_set hx with h1 | h1
  · exact h x h1
  · subst h1; exact hr

theorem allWf_step (s : St) (op : Op) (h : AllWf s) : AllWf (step s op).1 := by
  cases op with
  | dup i =>
    simp only [step]
    split
    · intro r hr
      simp only [List.mem_append, List.mem_singleton] at hr
      rcases hr with h1 | h1
      · exact h r h1
      · subst h1; exact ⟨Nat.le_refl _, by intro w hw; cases hw⟩
    · exact h
  | forward v =>
    intro r hr
    exact wf_forward s.log r v (h r hr)
  | next i m =>
    simp only [step]
    cases hg : s.rxs[i]? with
    | none => exact h
    | some r => exact allWf_set s i _ h (wf_next s.log r m (h r (List.mem_of_getElem? hg)))
  | empty i =>
    simp only [step]
    cases hg : s.rxs[i]? with
    | none => exact h
    | some r => exact allWf_set s i _ h (wf_empty s.log r)
  | bmca i pol m =>
    simp only [step]
    cases hg : s.rxs[i]? with
    | none => exact h
    | some r =>
      apply allWf_set s i _ h
      unfold afterBmca
      split
      · exact wf_empty s.log r
      · exact h r (List.mem_of_getElem? hg)

/-- replacing forwarder `j` by one that has consumed at least as much keeps the invariant of `i` -/
theorem inv_set_grow (s : St) (i j : Nat) (d : List Item) (r r' : Rx) (hg : s.rxs[j]? = some r)
    (hle : r.readPos ≤ r'.readPos) (h : Inv s i d) : Inv (setRx s j r') i d := by
  unfold Inv at h ⊢
  simp only [setRx]
  by_cases hij : j = i
  · subst hij
    have hlt : j < s.rxs.length := by
      rcases Nat.lt_or_ge j s.rxs.length with h' | h'
      · exact h'
      · rw [List.getElem?_eq_none h'] at hg; cases hg
    rw [List.getElem?_set_self hlt]
    rw [hg] at h
    exact h.trans (take_sublist_take _ hle)
  · rw [List.getElem?_set_ne hij]; exact h

theorem inv_step (s : St) (op : Op) (i : Nat) (d : List Item) (hw : AllWf s) (h : Inv s i d) :
    Inv (step s op).1 i (d ++ delivered i [op] [(step s op).2]) := by
  cases op with
  | dup j =>
    simp only [step, delivered, List.append_nil]
    split
    · unfold Inv at h ⊢
      simp only
      by_cases hi : i < s.rxs.length
      · rw [List.getElem?_append_left hi]; exact h
      · rw [List.getElem?_eq_none (by omega)] at h
        subst h
        cases hx : (s.rxs ++ [⟨s.log.length, none⟩])[i]? <;> simp
    · exact h
  | forward v =>
    simp only [step, delivered, List.append_nil]
    unfold Inv at h ⊢
    simp only
    cases hg : s.rxs[i]? with
    | none => rw [hg] at h; exact h
    | some r =>
      rw [hg] at h
      simp only
      have := readPos_le_length s.log r (hw r (List.mem_of_getElem? hg))
      rw [List.take_append_of_le_length this]; exact h
  | next j m =>
    simp only [step]
    cases hg : s.rxs[j]? with
    | none => simp only [delivered]; cases hx : (none : Option Item) <;> simpa [delivered] using h
    | some r =>
      simp only
      have hwr := hw r (List.mem_of_getElem? hg)
      cases ho : (nextIfSmaller s.log r m).1 with
      | none =>
        simp only [delivered, List.append_nil]
        exact inv_set_grow s i j d r _ hg (readPos_next_le s.log r m hwr) h
      | some v =>
        simp only [delivered]
        by_cases hij : j = i
        · subst hij
          rw [if_pos rfl]
          obtain ⟨k, hk1, hk2, hk3⟩ := next_delivers_from_log s.log r m v hwr ho
          unfold Inv at h ⊢
          simp only [setRx]
          have hlt : j < s.rxs.length := by
            rcases Nat.lt_or_ge j s.rxs.length with h' | h'
            · exact h'
            · rw [List.getElem?_eq_none h'] at hg; cases hg
          rw [List.getElem?_set_self hlt]
          rw [hg] at h
          simp only
          rw [hk3]
          have hklt : k < s.log.length := by
            rcases Nat.lt_or_ge k s.log.length with h' | h'
            · exact h'
            · rw [List.getElem?_eq_none h'] at hk2; cases hk2
          have htk : s.log.take (k + 1) = s.log.take k ++ [v] := by
            rw [List.take_add_one, hk2]; rfl
          rw [htk]
          exact List.Sublist.append (h.trans (take_sublist_take _ hk1)) (List.Sublist.refl _)
        · rw [if_neg hij, List.append_nil]
          unfold Inv at h ⊢
          simp only [setRx]
          rw [List.getElem?_set_ne hij]; exact h
  | empty j =>
    simp only [step]
    cases hg : s.rxs[j]? with
    | none => simpa [delivered] using h
    | some r =>
      simp only [delivered, List.append_nil]
      have hwr := hw r (List.mem_of_getElem? hg)
      exact inv_set_grow s i j d r _ hg (by simpa [emptyRx, Rx.readPos] using readPos_le_length s.log r hwr) h
  | bmca j pol m =>
    simp only [step]
    cases hg : s.rxs[j]? with
    | none => simpa [delivered] using h
    | some r =>
      simp only [delivered, List.append_nil]
      have hwr := hw r (List.mem_of_getElem? hg)
      apply inv_set_grow s i j d r _ hg _ h
      unfold afterBmca
      split
      · simpa [emptyRx, Rx.readPos] using readPos_le_length s.log r hwr
      · exact Nat.le_refl _

theorem delivered_cons (i : Nat) (op : Op) (o : Option Item) (ops : List Op) (os : List (Option Item)) :
    delivered i (op :: ops) (o :: os) = delivered i [op] [o] ++ delivered i ops os := by
  cases op <;> cases o <;> simp [delivered]
  split <;> simp

theorem inv_run (ops : List Op) : ∀ (s : St) (i : Nat) (d : List Item), AllWf s → Inv s i d →
    AllWf (run s ops).1 ∧ Inv (run s ops).1 i (d ++ delivered i ops (run s ops).2) := by
  induction ops with
  | nil => intro s i d hw h; simpa [run, delivered] using ⟨hw, h⟩
  | cons op ops ih =>
    intro s i d hw h
    have h1 := allWf_step s op hw
    have h2 := inv_step s op i d hw h
    have := ih (step s op).1 i _ h1 h2
    simp only [run]
    refine ⟨this.1, ?_⟩
    rw [delivered_cons, ← List.append_assoc]
    exact this.2

end Statime.Fwd
