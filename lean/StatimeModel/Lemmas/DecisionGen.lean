import StatimeModel.Model.Bmca
/-!
# An interpreter for the state decision the translator extracts

`translator/extract_bmca.py` reads `statime/src/bmc/bmca.rs` on every run and writes
`Generated/StateDecision.lean`: the guard and the class range of
`calculate_recommended_state`, the arms of `_low_class` / `_high_class`, of
`compare_d0_best` and of `compare_global_and_port`, as a `Table`.  `evalRecommend`
gives the table its meaning; `Props/C05.lean` proves it equal to the model's
`recommend` for every own data set, Ebest, Erbest and prior state.
-/
namespace Statime.DecGen
open Statime

/-- which best message a name in the source denotes: Ebest (`best_global_announce_message` and what is
bound from it) or Erbest (`best_port_announce_message` and what is bound from it) -/
inductive Who | global | port
  deriving DecidableEq, Repr, Inhabited

def Who.get : Who → Option Best → Option Best → Option Best
  | .global, g, _ => g
  | .port, _, p => p

inductive Leaf
  | m1 | m2                                               -- `M1(*own_data)`, `M2(*own_data)`
  | m3 (w : Who) | p1 (w : Who) | p2 (w : Who) | s1 (w : Who)   -- `X(w.message)`
  | gp                                                    -- `Self::compare_global_and_port(..)`
  deriving DecidableEq, Repr, Inhabited

/-- `MessageComparison` -/
inductive MC | better | same | worse
  deriving DecidableEq, Repr, Inhabited

structure Table where
  guardNone : Bool              -- `if best_port.is_none() && matches!(port_state, Listening) { None }` comes first
  lowLo : Nat
  lowHi : Nat                   -- inclusive class range of the low-class branch
  lowCmp : Who
  lowBetter : Leaf
  lowSame : Leaf
  lowWorse : Leaf
  highCmp : Who
  highBetter : Leaf
  highSame : Leaf
  matched : Who                 -- the option matched inside the `Worse` arm
  highWorseNone : Leaf
  highWorseSome : Leaf
  gpEqL : Who
  gpEqR : Who
  gpEq : Leaf
  gpL : Who
  gpR : Who
  gpPat : DOrd
  gpThen : Leaf
  gpElse : Leaf
  d0None : MC
  d0Less : MC
  d0Equal : MC
  d0Greater : MC
  deriving Repr, Inhabited

def Leaf.evalBase (own : DefaultDS) (g p : Option Best) : Leaf → Option Recommended
  | .m1 => some (.m1 own)
  | .m2 => some (.m2 own)
  | .m3 w => (w.get g p).map (fun b => .m3 b.ann)
  | .p1 w => (w.get g p).map (fun b => .p1 b.ann)
  | .p2 w => (w.get g p).map (fun b => .p2 b.ann)
  | .s1 w => (w.get g p).map (fun b => .s1 b.ann)
  | .gp => none

def evalGP (t : Table) (own : DefaultDS) (g p : Option Best) : Option Recommended :=
  match t.gpEqL.get g p, t.gpEqR.get g p, t.gpL.get g p, t.gpR.get g p with
  | some x, some y, some l, some r =>
    if x = y then t.gpEq.evalBase own g p
    else if (CmpDS.ofAnnounce l.ann l.identity).compare (CmpDS.ofAnnounce r.ann r.identity) = t.gpPat
    then t.gpThen.evalBase own g p else t.gpElse.evalBase own g p
  | _, _, _, _ => none

def Leaf.eval (t : Table) (own : DefaultDS) (g p : Option Best) (l : Leaf) : Option Recommended :=
  if l = .gp then evalGP t own g p else l.evalBase own g p

/-- `compare_d0_best`; `worse` needs a message to carry -/
def evalD0 (t : Table) (own : DefaultDS) : Option Best → Option MC
  | none => if t.d0None = .worse then none else some t.d0None
  | some b =>
    match ((CmpDS.ofOwn own).compare (CmpDS.ofAnnounce b.ann b.identity)).asOrdering with
    | .lt => some t.d0Less
    | .eq => some t.d0Equal
    | .gt => some t.d0Greater

def evalLow (t : Table) (own : DefaultDS) (g p : Option Best) : Option Recommended :=
  match evalD0 t own (t.lowCmp.get g p) with
  | some .better => t.lowBetter.eval t own g p
  | some .same => t.lowSame.eval t own g p
  | some .worse => t.lowWorse.eval t own g p
  | none => none

def evalHigh (t : Table) (own : DefaultDS) (g p : Option Best) : Option Recommended :=
  match evalD0 t own (t.highCmp.get g p) with
  | some .better => t.highBetter.eval t own g p
  | some .same => t.highSame.eval t own g p
  | some .worse =>
    (match t.matched.get g p with
     | none => t.highWorseNone.eval t own g p
     | some _ => t.highWorseSome.eval t own g p)
  | none => none

/-- outer `none`: the table does not evaluate (never the case for a table the theorem accepts);
inner `none`: the port keeps its state -/
def evalRecommend (t : Table) (own : DefaultDS) (ebest erbest : Option Best) (listening : Bool) :
    Option (Option Recommended) :=
  if t.guardNone && (erbest.isNone && listening) then some none
  else if t.lowLo ≤ own.quality.clockClass ∧ own.quality.clockClass ≤ t.lowHi then
    (evalLow t own ebest erbest).map some
  else (evalHigh t own ebest erbest).map some

/-! ### `BestAnnounceMessage::compare` -/

/-- `lhsSelf`: `compare_dataset` builds its left operand from `self`; `tieOtherFirst`: the tie-break is
`other.age.cmp(&self.age)`; `datasetFirst`: the data set ordering is consulted before the tie-break -/
structure BestCmpTable where
  lhsSelf : Bool
  tieOtherFirst : Bool
  datasetFirst : Bool
  deriving Repr, Inhabited

def ordThen (a b : Ordering) : Ordering :=
  match a with
  | .eq => b
  | o => o

def evalBestCompare (t : BestCmpTable) (x y : Best) : Ordering :=
  let dx := CmpDS.ofAnnounce x.ann x.identity
  let dy := CmpDS.ofAnnounce y.ann y.identity
  let ds := (if t.lhsSelf then dx.compare dy else dy.compare dx).asOrdering
  let tie := if t.tieOtherFirst then cmpInt y.age x.age else cmpInt x.age y.age
  if t.datasetFirst then ordThen ds tie else ordThen tie ds

end Statime.DecGen
