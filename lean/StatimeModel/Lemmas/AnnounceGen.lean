import StatimeModel.Model.Port
/-!
# An interpreter for the Announce constructor the translator extracts

`translator/extract_announce.py` reads `Message::announce` (and `base_header`) in
`statime/src/datastructures/messages/mod.rs` on every run and writes
`Generated/AnnounceCtor.lean`: for every header flag and every body field of the
Announce, which data set member it is taken from.  `buildAnnounce` gives the two
tables their meaning; `Props/C11.lean` proves it equal to the model's
`msgAnnounce` for every instance state, port identity and sequence number.
-/
namespace Statime.AnnGen
open Statime

inductive FlagF
  | alternateMaster | twoStep | unicast | profile1 | profile2 | leap61 | leap59 | utcValid
  | ptpTimescale | timeTraceable | freqTraceable | syncUncertain
  deriving DecidableEq, Repr, Inhabited

/-- right-hand sides of the flag assignments -/
inductive FlagSrc
  | leapIs59 | leapIs61          -- `time_properties_ds.leap_indicator == LeapIndicator::LeapNN`
  | utcIsSome                    -- `time_properties_ds.current_utc_offset.is_some()`
  | tpPtpTimescale | tpTimeTraceable | tpFreqTraceable
  | lit (b : Bool)
  deriving DecidableEq, Repr, Inhabited

def FlagSrc.val (tp : TimeProps) : FlagSrc → Bool
  | .leapIs59 => decide (tp.leap = .leap59)
  | .leapIs61 => decide (tp.leap = .leap61)
  | .utcIsSome => tp.utcOffset.isSome
  | .tpPtpTimescale => tp.ptpTimescale
  | .tpTimeTraceable => tp.timeTraceable
  | .tpFreqTraceable => tp.freqTraceable
  | .lit b => b

inductive BodyF | origin | utcOffset | p1 | quality | p2 | gm | steps | timeSource
  deriving DecidableEq, Repr, Inhabited

/-- right-hand sides of the body assignments -/
inductive BodySrc
  | dflt                         -- `Default::default()`
  | utcOrDefault                 -- `time_properties_ds.current_utc_offset.unwrap_or_default()`
  | parentP1 | parentQuality | parentP2 | parentGm   -- `global.parent_ds.grandmaster_*`
  | currentSteps                 -- `global.current_ds.steps_removed`
  | tpTimeSource                 -- `time_properties_ds.time_source`
  deriving DecidableEq, Repr, Inhabited

inductive Val | ts (w : WireTs) | int (i : Int) | nat (n : Nat) | q (c a v : Nat)
  deriving DecidableEq, Repr, Inhabited

def BodySrc.val (s : InstState) : BodySrc → Option Val
  | .dflt => none                -- resolved per field below (the default of the field's type)
  | .utcOrDefault => some (.int (s.tp.utcOffset.getD 0))
  | .parentP1 => some (.nat s.parent.gmP1)
  | .parentQuality => some (.q s.parent.gmQuality.clockClass s.parent.gmQuality.accuracy s.parent.gmQuality.variance)
  | .parentP2 => some (.nat s.parent.gmP2)
  | .parentGm => some (.nat s.parent.gmIdentity)
  | .currentSteps => some (.nat s.stepsRemoved)
  | .tpTimeSource => some (.nat s.tp.timeSource)

def BodyF.default : BodyF → Val
  | .origin => .ts ⟨0, 0⟩
  | .utcOffset => .int 0
  | .quality => .q 0 0 0
  | _ => .nat 0

def bodyVal (tbl : List (BodyF × BodySrc)) (s : InstState) (f : BodyF) : Option Val :=
  match tbl.lookup f with
  | none => none
  | some .dflt => some f.default
  | some src => src.val s

def buildBody (tbl : List (BodyF × BodySrc)) (s : InstState) : Option AnnounceBody :=
  match bodyVal tbl s .origin, bodyVal tbl s .utcOffset, bodyVal tbl s .p1, bodyVal tbl s .quality,
        bodyVal tbl s .p2, bodyVal tbl s .gm, bodyVal tbl s .steps, bodyVal tbl s .timeSource with
  | some (.ts o), some (.int u), some (.nat p1), some (.q c a v), some (.nat p2), some (.nat gm), some (.nat st), some (.nat tsrc) =>
    some { origin := o, utcOffset := u, p1 := p1, clockClass := c, accuracy := a, variance := v, p2 := p2, gm := gm,
           steps := st, timeSource := tsrc }
  | _, _, _, _, _, _, _, _ => none

/-- a flag takes its value from the table, or keeps the one of the base header -/
def flagVal (tbl : List (FlagF × FlagSrc)) (tp : TimeProps) (f : FlagF) (base : Bool) : Bool :=
  match tbl.lookup f with
  | none => base
  | some src => src.val tp

def buildFlags (tbl : List (FlagF × FlagSrc)) (tp : TimeProps) (b : Flags) : Flags :=
  { alternateMaster := flagVal tbl tp .alternateMaster b.alternateMaster
    twoStep := flagVal tbl tp .twoStep b.twoStep
    unicast := flagVal tbl tp .unicast b.unicast
    profile1 := flagVal tbl tp .profile1 b.profile1
    profile2 := flagVal tbl tp .profile2 b.profile2
    leap61 := flagVal tbl tp .leap61 b.leap61
    leap59 := flagVal tbl tp .leap59 b.leap59
    utcValid := flagVal tbl tp .utcValid b.utcValid
    ptpTimescale := flagVal tbl tp .ptpTimescale b.ptpTimescale
    timeTraceable := flagVal tbl tp .timeTraceable b.timeTraceable
    freqTraceable := flagVal tbl tp .freqTraceable b.freqTraceable
    syncUncertain := flagVal tbl tp .syncUncertain b.syncUncertain }

/-- `Message::announce` for the extracted tables -/
def buildAnnounce (ft : List (FlagF × FlagSrc)) (bt : List (BodyF × BodySrc))
    (s : InstState) (pid : PortId) (seq minor : Nat) : Option Msg :=
  let base := baseHeader s.dflt pid seq minor
  (buildBody bt s).map fun ab =>
    { header := { base with flags := buildFlags ft s.tp base.flags }, body := .announce ab, suffix := [] }

/-! ### the receiving side: `AnnounceMessage::time_properties` -/

def FlagF.get (f : FlagF) (x : Flags) : Bool :=
  match f with
  | .alternateMaster => x.alternateMaster | .twoStep => x.twoStep | .unicast => x.unicast
  | .profile1 => x.profile1 | .profile2 => x.profile2 | .leap61 => x.leap61 | .leap59 => x.leap59
  | .utcValid => x.utcValid | .ptpTimescale => x.ptpTimescale | .timeTraceable => x.timeTraceable
  | .freqTraceable => x.freqTraceable | .syncUncertain => x.syncUncertain

/-- what `time_properties()` reads: the `if`-chain of the leap indicator, the flag guarding the UTC offset,
the flags of the three booleans; `utcFromBody` / `timeSourceFromBody`: the values come from
`self.current_utc_offset` / `self.time_source` -/
structure TpTable where
  leapChain : List (FlagF × Leap)
  leapElse : Leap
  utcGuard : FlagF
  utcFromBody : Bool
  timeTraceable : FlagF
  freqTraceable : FlagF
  ptpTimescale : FlagF
  timeSourceFromBody : Bool
  deriving Repr, Inhabited

def evalLeap (x : Flags) : List (FlagF × Leap) → Leap → Leap
  | [], e => e
  | (f, l) :: rest, e => if f.get x then l else evalLeap x rest e

def buildTp (t : TpTable) (a : Ann) : Option TimeProps :=
  if t.utcFromBody && t.timeSourceFromBody then
    some { utcOffset := if t.utcGuard.get a.hdr.flags then some a.body.utcOffset else none
           leap := evalLeap a.hdr.flags t.leapChain t.leapElse
           timeTraceable := t.timeTraceable.get a.hdr.flags
           freqTraceable := t.freqTraceable.get a.hdr.flags
           ptpTimescale := t.ptpTimescale.get a.hdr.flags
           timeSource := a.body.timeSource }
  else none

end Statime.AnnGen
