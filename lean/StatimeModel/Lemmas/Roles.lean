import StatimeModel.Lemmas.Slave
import StatimeModel.Lemmas.WireBasic
/-
Port-level role lemmas (C08, C10, C12): which handler can emit which message type, who can
feed the servo, and that no handler other than the BMCA decision S1 ever makes a port Slave.
-/
namespace Statime

/-- the four per-type sequence counters of a port -/
def Port.seqs (p : Port) : Nat × Nat × Nat × Nat := (p.annSeq, p.syncSeq, p.delaySeq, p.pdelaySeq)

/-- what the BMCA run never touches: the sequence counters, the peer delay state, the mean delay -/
def Port.inert (p : Port) : (Nat × Nat × Nat × Nat) × PeerSt × Option Int := (p.seqs, p.peer, p.meanDelay)

theorem inert_seqs {p p' : Port} (h : p'.inert = p.inert) : p'.seqs = p.seqs := congrArg (fun x => x.1) h
theorem inert_peer {p p' : Port} (h : p'.inert = p.inert) : p'.peer = p.peer := congrArg (fun x => x.2.1) h
theorem inert_meanDelay {p p' : Port} (h : p'.inert = p.inert) : p'.meanDelay = p.meanDelay := congrArg (fun x => x.2.2) h

/-- message type of a frame in an action -/
def Out.sendType : Out → Option MsgType
  | .sendEvent _ b _ => MsgType.ofNibble (byteAt b 0 % 16)
  | .sendGeneral b _ => MsgType.ofNibble (byteAt b 0 % 16)
  | _ => none

theorem encode_type (m : Msg) : MsgType.ofNibble (byteAt (encode m) 0 % 16) = some m.body.type := by
  have hn : m.body.type.toNibble < 16 := by cases m.body.type <;> decide
  have p0 : byteAt (encode m) 0 % 16 = m.body.type.toNibble := by
    unfold encode writeHeader
    simp only [List.cons_append, List.append_assoc, byteAt_cons_zero, UInt8.toNat_ofNat', Nat.reducePow]
    omega
  rw [p0]
  cases m.body.type <;> rfl

/-- the message types only a Master port may emit -/
def MsgType.masterOnly : MsgType → Bool
  | .announce | .sync | .followUp | .delayResp => true
  | _ => false

def PState.isMaster : PState → Bool | .master => true | _ => false

theorem isMaster_iff (st : PState) : st.isMaster = true ↔ st = .master := by
  cases st <;> simp [PState.isMaster]

/-- the role discipline of one action list produced by a port whose state (before the call) was
Master (`ma`) / Slave (`sl`) -/
def Guarded (ma sl : Bool) (outs : List Out) : Prop :=
  ∀ o ∈ outs,
    (∀ ty, o.sendType = some ty → (ty.masterOnly = true → ma = true) ∧ (ty = .delayReq → sl = true)) ∧
    (∀ m, o = .measurement m → (m.rawSync.isSome ∨ m.rawDelay.isSome) → sl = true)

theorem guarded_nil (ma sl : Bool) : Guarded ma sl [] := by intro o ho; cases ho

theorem guarded_append {ma sl : Bool} {a b : List Out} (ha : Guarded ma sl a) (hb : Guarded ma sl b) :
    Guarded ma sl (a ++ b) := by
  intro o ho
  rcases List.mem_append.1 ho with h | h
  · exact ha o h
  · exact hb o h

/-- an action list without sends and measurements is always fine -/
theorem guarded_plain (ma sl : Bool) (outs : List Out)
    (h : ∀ o ∈ outs, o.sendType = none ∧ ∀ m, o ≠ .measurement m) : Guarded ma sl outs := by
  intro o ho
  obtain ⟨h1, h2⟩ := h o ho
  exact ⟨(by intro ty e; rw [h1] at e; cases e), (by intro m e; exact absurd e (h2 m))⟩

theorem map_ok {α β : Type} (x : R α) (f : α → β) (b : β) (h : (x.map f) = .ok b) : ∃ a, x = .ok a ∧ f a = b := by
  cases x with
  | error e => cases h
  | ok a => exact ⟨a, rfl, by simpa [Except.map] using h⟩

/-- what every port-level handler preserves: configuration, identity, and "not newly Slave" -/
def KeepsW (p p' : Port) : Prop :=
  p'.cfg = p.cfg ∧ p'.id = p.id ∧ (p'.st.isSlave = true → p.st.isSlave = true) ∧ p'.fml.own = p.fml.own

/-- what every port-level handler except the announce receipt timeout preserves: additionally "not newly Master" -/
def Keeps (p p' : Port) : Prop :=
  p'.cfg = p.cfg ∧ p'.id = p.id ∧ (p'.st.isSlave = true → p.st.isSlave = true) ∧ p'.fml.own = p.fml.own ∧
  (p'.st.isMaster = true → p.st.isMaster = true)

theorem Keeps.weak {p p' : Port} (h : Keeps p p') : KeepsW p p' := ⟨h.1, h.2.1, h.2.2.1, h.2.2.2.1⟩

theorem keeps_refl (p : Port) : Keeps p p := ⟨rfl, rfl, fun h => h, rfl, fun h => h⟩

theorem keeps_trans {a b c : Port} (h1 : Keeps a b) (h2 : Keeps b c) : Keeps a c :=
  ⟨h2.1.trans h1.1, h2.2.1.trans h1.2.1, fun h => h1.2.2.1 (h2.2.2.1 h), h2.2.2.2.1.trans h1.2.2.2.1,
   fun h => h1.2.2.2.2 (h2.2.2.2.2 h)⟩

theorem timeMeasurement_roles (p p' : Port) (outs : List Out) (h : p.timeMeasurement = .ok (p', outs)) :
    Guarded p.st.isMaster p.st.isSlave outs ∧ Keeps p p' := by
  obtain ⟨p1, m, o1, hex, hm⟩ := timeMeasurement_spec p p' outs h
  obtain ⟨r1, r2, r3, r4, r5, r6⟩ := extract_roles p p1 m o1 hex
  have r7 : p1.st.isMaster = true → p.st.isMaster = true :=
    fun hh => (isMaster_iff _).2 (extract_noNewMaster p p1 m o1 hex ((isMaster_iff _).1 hh))
  have g1 : Guarded p.st.isMaster p.st.isSlave o1 := by
    apply guarded_plain
    intro o ho
    rw [r3 o ho]
    exact ⟨rfl, by intro m e; cases e⟩
  cases m with
  | none =>
    simp only at hm
    obtain ⟨rfl, rfl⟩ := hm
    exact ⟨g1, r4, r5, r2, by rw [r6], r7⟩
  | some mm =>
    simp only at hm
    obtain ⟨rfl, hp'⟩ := hm
    refine ⟨guarded_append g1 ?_, ?_⟩
    · intro o ho
      simp only [List.mem_singleton] at ho
      subst ho
      exact ⟨(by intro ty e; cases e), (by intro m e hh; cases e; exact r1 mm rfl hh)⟩
    · rw [hp']
      split
      · exact ⟨r4, r5, r2, by rw [r6], r7⟩
      · exact ⟨r4, r5, r2, by rw [r6], r7⟩

/-- measuring on an updated slave state of a slave port -/
theorem timeMeasurement_withSlave (p p' : Port) (remote : PortId) (sy : SyncSt) (dl : DelaySt) (last : Option Int)
    (outs : List Out) (hs : p.st.isSlave = true)
    (h : (p.withSlave remote sy dl last).timeMeasurement = .ok (p', outs)) :
    Guarded p.st.isMaster p.st.isSlave outs ∧ Keeps p p' := by
  obtain ⟨g, k1, k2, k3, k4, k5⟩ := timeMeasurement_roles _ _ _ h
  have hm : p.st.isMaster = false := by cases hst : p.st <;> simp_all [PState.isSlave, PState.isMaster]
  refine ⟨?_, k1, k2, fun _ => hs, k4, fun hh => by cases (k5 hh)⟩
  rw [hs, hm]
  exact g

theorem handleSync_roles (p p' : Port) (h : Header) (o : WireTs) (ts : Nat) (outs : List Out)
    (hr : p.handleSync h o ts = .ok (p', outs)) : Guarded p.st.isMaster p.st.isSlave outs ∧ Keeps p p' := by
  unfold Port.handleSync at hr
  cases hst : p.st with
  | slave remote sy dl last =>
    have hs : p.st.isSlave = true := by rw [hst]; rfl
    rw [hst] at hr
    simp only at hr
    rw [← hst]
    split at hr
    · simp only [Except.ok.injEq, Prod.mk.injEq] at hr; rw [← hr.1, ← hr.2]; exact ⟨guarded_nil _ _, keeps_refl _⟩
    · obtain ⟨c, _, hs2⟩ := orOv_ok _ _ _ hr
      unfold Port.syncStore at hs2
      have stay : (p', outs) = (p, []) → Guarded p.st.isMaster p.st.isSlave outs ∧ Keeps p p' := by
        intro e; simp only [Prod.mk.injEq] at e; rw [e.1, e.2]; exact ⟨guarded_nil _ _, keeps_refl _⟩
      have store : ∀ sy1, (p', outs) = (p.withSlave remote sy1 dl last, []) →
          Guarded p.st.isMaster p.st.isSlave outs ∧ Keeps p p' := by
        intro sy1 e; simp only [Prod.mk.injEq] at e; rw [e.1, e.2]
        exact ⟨guarded_nil _ _, rfl, rfl, fun _ => hs, rfl, fun h => by cases h⟩
      split at hs2
      · split at hs2
        · split at hs2
          · split at hs2
            · exact stay (Except.ok.inj hs2).symm
            · exact timeMeasurement_withSlave p p' _ _ _ _ outs hs hs2
          · exact store _ (Except.ok.inj hs2).symm
        · exact store _ (Except.ok.inj hs2).symm
      · split at hs2
        · split at hs2
          · exact stay (Except.ok.inj hs2).symm
          · obtain ⟨s, _, hm⟩ := orOv_ok _ _ _ hs2
            exact timeMeasurement_withSlave p p' _ _ _ _ outs hs hm
        · obtain ⟨s, _, hm⟩ := orOv_ok _ _ _ hs2
          exact timeMeasurement_withSlave p p' _ _ _ _ outs hs hm
  | faulty | listening | master | passive =>
    rw [hst] at hr
    simp only [Except.ok.injEq, Prod.mk.injEq] at hr
    rw [← hr.1, ← hr.2]; exact ⟨guarded_nil _ _, keeps_refl _⟩

theorem handleFollowUp_roles (p p' : Port) (h : Header) (o : WireTs) (outs : List Out)
    (hr : p.handleFollowUp h o = .ok (p', outs)) : Guarded p.st.isMaster p.st.isSlave outs ∧ Keeps p p' := by
  unfold Port.handleFollowUp at hr
  cases hst : p.st with
  | slave remote sy dl last =>
    have hs : p.st.isSlave = true := by rw [hst]; rfl
    rw [hst] at hr
    simp only at hr
    rw [← hst]
    split at hr
    · simp only [Except.ok.injEq, Prod.mk.injEq] at hr; rw [← hr.1, ← hr.2]; exact ⟨guarded_nil _ _, keeps_refl _⟩
    · obtain ⟨t0, _, hr1⟩ := orOv_ok _ _ _ hr
      obtain ⟨s, _, hs2⟩ := orOv_ok _ _ _ hr1
      unfold Port.followUpStore at hs2
      split at hs2
      · split at hs2
        · split at hs2
          · simp only [Except.ok.injEq, Prod.mk.injEq] at hs2; rw [← hs2.1, ← hs2.2]; exact ⟨guarded_nil _ _, keeps_refl _⟩
          · exact timeMeasurement_withSlave p p' _ _ _ _ outs hs hs2
        · exact timeMeasurement_withSlave p p' _ _ _ _ outs hs hs2
      · exact timeMeasurement_withSlave p p' _ _ _ _ outs hs hs2
  | faulty | listening | master | passive =>
    rw [hst] at hr
    simp only [Except.ok.injEq, Prod.mk.injEq] at hr
    rw [← hr.1, ← hr.2]; exact ⟨guarded_nil _ _, keeps_refl _⟩

theorem handleDelayResp_roles (p p' : Port) (h : Header) (rx : WireTs) (req : PortId) (outs : List Out)
    (hr : p.handleDelayResp h rx req = .ok (p', outs)) : Guarded p.st.isMaster p.st.isSlave outs ∧ Keeps p p' := by
  unfold Port.handleDelayResp at hr
  have stay : (p', outs) = (p, []) → Guarded p.st.isMaster p.st.isSlave outs ∧ Keeps p p' := by
    intro e; simp only [Prod.mk.injEq] at e; rw [e.1, e.2]; exact ⟨guarded_nil _ _, keeps_refl _⟩
  cases hst : p.st with
  | slave remote sy dl last =>
    have hs : p.st.isSlave = true := by rw [hst]; rfl
    rw [hst] at hr
    simp only at hr
    rw [← hst]
    split at hr
    · exact stay (Except.ok.inj hr).symm
    · split at hr
      · split at hr
        · split at hr
          · exact stay (Except.ok.inj hr).symm
          · obtain ⟨t0, _, hr1⟩ := orOv_ok _ _ _ hr
            obtain ⟨r, _, hm⟩ := orOv_ok _ _ _ hr1
            exact timeMeasurement_withSlave p p' _ _ _ _ outs hs hm
        · exact stay (Except.ok.inj hr).symm
      · exact stay (Except.ok.inj hr).symm
  | faulty | listening | master | passive =>
    rw [hst] at hr
    exact (by rw [← hst] at *; exact stay (Except.ok.inj hr).symm)

theorem handleDelayTs_roles (p p' : Port) (id ts : Nat) (outs : List Out)
    (hr : p.handleDelayTs id ts = .ok (p', outs)) : Guarded p.st.isMaster p.st.isSlave outs ∧ Keeps p p' := by
  unfold Port.handleDelayTs at hr
  have stay : (p', outs) = (p, []) → Guarded p.st.isMaster p.st.isSlave outs ∧ Keeps p p' := by
    intro e; simp only [Prod.mk.injEq] at e; rw [e.1, e.2]; exact ⟨guarded_nil _ _, keeps_refl _⟩
  split at hr
  · rename_i remote sy i send recv last hst
    have hs : p.st.isSlave = true := by rw [hst]; rfl
    split at hr
    · split at hr
      · exact stay (Except.ok.inj hr).symm
      · exact timeMeasurement_withSlave p p' _ _ _ _ outs hs hr
    · exact stay (Except.ok.inj hr).symm
  · exact stay (Except.ok.inj hr).symm

/-- updating only the peer state does not change the role -/
theorem timeMeasurement_withPeer (p p' : Port) (ps : PeerSt) (outs : List Out)
    (h : ({ p with peer := ps } : Port).timeMeasurement = .ok (p', outs)) :
    Guarded p.st.isMaster p.st.isSlave outs ∧ Keeps p p' :=
  timeMeasurement_roles ({ p with peer := ps } : Port) p' outs h

theorem setState_keeps (p : Port) (st : PState) (hns : st.isSlave = false) (hnm : st.isMaster = false) :
    Keeps p (p.setState st).1 ∧ Guarded p.st.isMaster p.st.isSlave (p.setState st).2 := by
  refine ⟨⟨rfl, rfl, ?_, rfl, ?_⟩, ?_⟩
  · intro h; simp only [Port.setState] at h; rw [hns] at h; cases h
  · intro h; simp only [Port.setState] at h; rw [hnm] at h; cases h
  · apply guarded_plain
    intro o ho
    simp only [Port.setState] at ho
    split at ho
    · simp only [List.mem_singleton] at ho; subst ho; exact ⟨rfl, by intro m e; cases e⟩
    · cases ho

theorem handlePdelayTs_roles (p p' : Port) (id ts : Nat) (outs : List Out)
    (hr : p.handlePdelayTs id ts = .ok (p', outs)) : Guarded p.st.isMaster p.st.isSlave outs ∧ Keeps p p' := by
  unfold Port.handlePdelayTs at hr
  have stay : (p', outs) = (p, []) → Guarded p.st.isMaster p.st.isSlave outs ∧ Keeps p p' := by
    intro e; simp only [Prod.mk.injEq] at e; rw [e.1, e.2]; exact ⟨guarded_nil _ _, keeps_refl _⟩
  split at hr
  · split at hr
    · split at hr
      · exact stay (Except.ok.inj hr).symm
      · exact timeMeasurement_withPeer p p' _ outs hr
    · exact stay (Except.ok.inj hr).symm
  · exact stay (Except.ok.inj hr).symm

theorem handlePdelayResp_roles (p p' : Port) (h : Header) (rx : WireTs) (req : PortId) (ts : Nat) (outs : List Out)
    (hr : p.handlePdelayResp h rx req ts = .ok (p', outs)) : Guarded p.st.isMaster p.st.isSlave outs ∧ Keeps p p' := by
  unfold Port.handlePdelayResp at hr
  have stay : (p', outs) = (p, []) → Guarded p.st.isMaster p.st.isSlave outs ∧ Keeps p p' := by
    intro e; simp only [Prod.mk.injEq] at e; rw [e.1, e.2]; exact ⟨guarded_nil _ _, keeps_refl _⟩
  split at hr
  · exact stay (Except.ok.inj hr).symm
  · split at hr
    · exact stay (Except.ok.inj hr).symm
    · have := setState_keeps p .faulty rfl rfl
      simp only [Except.ok.injEq] at hr
      have e1 : p' = (p.setState .faulty).1 := by rw [hr]
      have e2 : outs = (p.setState .faulty).2 := by rw [hr]
      rw [e1, e2]
      exact ⟨this.2, this.1⟩
    · split at hr
      · split at hr
        · exact stay (Except.ok.inj hr).symm
        · obtain ⟨rr, _, hr1⟩ := orOv_ok _ _ _ hr
          obtain ⟨rq, _, hm⟩ := orOv_ok _ _ _ hr1
          exact timeMeasurement_withPeer p p' _ outs hm
      · exact stay (Except.ok.inj hr).symm

theorem handlePdelayRespFu_roles (p p' : Port) (h : Header) (o : WireTs) (req : PortId) (outs : List Out)
    (hr : p.handlePdelayRespFu h o req = .ok (p', outs)) : Guarded p.st.isMaster p.st.isSlave outs ∧ Keeps p p' := by
  unfold Port.handlePdelayRespFu at hr
  have stay : (p', outs) = (p, []) → Guarded p.st.isMaster p.st.isSlave outs ∧ Keeps p p' := by
    intro e; simp only [Prod.mk.injEq] at e; rw [e.1, e.2]; exact ⟨guarded_nil _ _, keeps_refl _⟩
  split at hr
  · exact stay (Except.ok.inj hr).symm
  · split at hr
    · exact stay (Except.ok.inj hr).symm
    · have := setState_keeps p .faulty rfl rfl
      simp only [Except.ok.injEq] at hr
      have e1 : p' = (p.setState .faulty).1 := by rw [hr]
      have e2 : outs = (p.setState .faulty).2 := by rw [hr]
      rw [e1, e2]
      exact ⟨this.2, this.1⟩
    · split at hr
      · split at hr
        · exact stay (Except.ok.inj hr).symm
        · obtain ⟨t0, _, hr1⟩ := orOv_ok _ _ _ hr
          obtain ⟨s, _, hm⟩ := orOv_ok _ _ _ hr1
          exact timeMeasurement_withPeer p p' _ outs hm
      · exact stay (Except.ok.inj hr).symm

end Statime

namespace Statime

theorem guarded_reset (ma sl : Bool) (k : Timer) (d : Dur) : Guarded ma sl [.reset k d] :=
  guarded_plain _ _ _ (by intro o ho; simp only [List.mem_singleton] at ho; subst ho; exact ⟨rfl, by intro m e; cases e⟩)

/-- one send of a message whose type is allowed in the given role -/
theorem guarded_send_general (ma sl : Bool) (m : Msg) (ll : Bool)
    (h1 : m.body.type.masterOnly = true → ma = true) (h2 : m.body.type = .delayReq → sl = true) :
    Guarded ma sl [.sendGeneral (encode m) ll] := by
  intro o ho
  simp only [List.mem_singleton] at ho
  subst ho
  refine ⟨?_, by intro mm e; cases e⟩
  intro ty e
  simp only [Out.sendType, encode_type] at e
  cases e
  exact ⟨h1, h2⟩

theorem guarded_send_event (ma sl : Bool) (m : Msg) (ctx : TsCtx) (ll : Bool)
    (h1 : m.body.type.masterOnly = true → ma = true) (h2 : m.body.type = .delayReq → sl = true) :
    Guarded ma sl [.sendEvent ctx (encode m) ll] := by
  intro o ho
  simp only [List.mem_singleton] at ho
  subst ho
  refine ⟨?_, by intro mm e; cases e⟩
  intro ty e
  simp only [Out.sendType, encode_type] at e
  cases e
  exact ⟨h1, h2⟩

theorem sendSync_roles (p p' : Port) (s : InstState) (outs : List Out) (hr : p.sendSync s = .ok (p', outs)) :
    Guarded p.st.isMaster p.st.isSlave outs ∧ Keeps p p' := by
  unfold Port.sendSync at hr
  split at hr
  · rename_i hm
    have hma : p.st.isMaster = true := (isMaster_iff _).2 hm
    simp only [Except.ok.injEq, Prod.mk.injEq] at hr
    rw [← hr.1, ← hr.2]
    refine ⟨?_, rfl, rfl, fun h => h, rfl, fun h => h⟩
    have : ([Out.reset .sync (.exact (intervalNs p.cfg.syncLog)),
             Out.sendEvent (.sync p.syncSeq) (encode (msgSync s.dflt p.id p.syncSeq p.cfg.minorVersion)) false] : List Out) =
        [Out.reset .sync (.exact (intervalNs p.cfg.syncLog))] ++
        [Out.sendEvent (.sync p.syncSeq) (encode (msgSync s.dflt p.id p.syncSeq p.cfg.minorVersion)) false] := rfl
    rw [this]
    exact guarded_append (guarded_reset _ _ _ _) (guarded_send_event _ _ _ _ _ (fun _ => hma) (by intro e; cases e))
  · simp only [Except.ok.injEq, Prod.mk.injEq] at hr
    rw [← hr.1, ← hr.2]; exact ⟨guarded_nil _ _, keeps_refl _⟩

theorem handleSyncTs_roles (p p' : Port) (s : InstState) (id ts : Nat) (outs : List Out)
    (hr : p.handleSyncTs s id ts = .ok (p', outs)) : Guarded p.st.isMaster p.st.isSlave outs ∧ Keeps p p' := by
  unfold Port.handleSyncTs at hr
  split at hr
  · rename_i hm
    have hma : p.st.isMaster = true := (isMaster_iff _).2 hm
    simp only [bind, Except.bind] at hr
    cases hf : msgFollowUp s.dflt p.id id ts p.cfg.minorVersion with
    | error e => rw [hf] at hr; cases hr
    | ok m =>
      rw [hf] at hr
      simp only [Except.ok.injEq, Prod.mk.injEq] at hr
      rw [← hr.1, ← hr.2]
      exact ⟨guarded_send_general _ _ _ _ (fun _ => hma) (by
        intro e
        unfold msgFollowUp at hf
        simp only [bind, Except.bind] at hf
        cases hw : liftOv (timeToWire ts) with
        | error e' => rw [hw] at hf; cases hf
        | ok w => rw [hw] at hf; simp only [Except.ok.injEq] at hf; rw [← hf] at e; cases e), keeps_refl _⟩
  · simp only [Except.ok.injEq, Prod.mk.injEq] at hr
    rw [← hr.1, ← hr.2]; exact ⟨guarded_nil _ _, keeps_refl _⟩

theorem sendAnnounce_roles (p p' : Port) (s : InstState) (q q' : List FwdTlv) (loose : Bool) (outs : List Out)
    (hr : p.sendAnnounce s q loose = .ok (p', outs, q')) : Guarded p.st.isMaster p.st.isSlave outs ∧ Keeps p p' := by
  unfold Port.sendAnnounce at hr
  split at hr
  · rename_i hm
    have hma : p.st.isMaster = true := (isMaster_iff _).2 hm
    simp only [Except.ok.injEq, Prod.mk.injEq] at hr
    rw [← hr.1, ← hr.2.1]
    refine ⟨?_, rfl, rfl, fun h => h, rfl, fun h => h⟩
    have : ∀ (m : Msg) (r : Out), ([r, Out.sendGeneral (encode m) false] : List Out) = [r] ++ [Out.sendGeneral (encode m) false] :=
      fun _ _ => rfl
    rw [this]
    exact guarded_append (guarded_reset _ _ _ _) (guarded_send_general _ _ _ _ (fun _ => hma) (by intro e; cases e))
  · simp only [Except.ok.injEq, Prod.mk.injEq] at hr
    rw [← hr.1, ← hr.2.1]; exact ⟨guarded_nil _ _, keeps_refl _⟩

theorem handleDelayReq_roles (p p' : Port) (h : Header) (ts : Nat) (outs : List Out)
    (hr : p.handleDelayReq h ts = .ok (p', outs)) : Guarded p.st.isMaster p.st.isSlave outs ∧ Keeps p p' := by
  unfold Port.handleDelayReq at hr
  split at hr
  · rename_i hm
    have hma : p.st.isMaster = true := (isMaster_iff _).2 hm
    simp only [bind, Except.bind] at hr
    cases hf : msgDelayResp h p.id p.cfg.delayLog ts with
    | error e => rw [hf] at hr; cases hr
    | ok m =>
      rw [hf] at hr
      simp only [Except.ok.injEq, Prod.mk.injEq] at hr
      rw [← hr.1, ← hr.2]
      refine ⟨guarded_send_general _ _ _ _ (fun _ => hma) ?_, keeps_refl _⟩
      intro e
      unfold msgDelayResp at hf
      simp only [bind, Except.bind] at hf
      cases h2 : liftOv (timeToWire ts) with
      | error e' => rw [h2] at hf; cases hf
      | ok w => rw [h2] at hf; simp only [Except.ok.injEq] at hf; rw [← hf] at e; cases e
  · simp only [Except.ok.injEq, Prod.mk.injEq] at hr
    rw [← hr.1, ← hr.2]; exact ⟨guarded_nil _ _, keeps_refl _⟩

theorem handlePdelayReq_roles (p p' : Port) (s : InstState) (h : Header) (ts : Nat) (outs : List Out)
    (hr : p.handlePdelayReq s h ts = .ok (p', outs)) : Guarded p.st.isMaster p.st.isSlave outs ∧ Keeps p p' := by
  unfold Port.handlePdelayReq at hr
  simp only [bind, Except.bind] at hr
  cases hf : msgPdelayResp s.dflt p.id h ts p.cfg.minorVersion with
  | error e => rw [hf] at hr; cases hr
  | ok m =>
    rw [hf] at hr
    simp only [Except.ok.injEq, Prod.mk.injEq] at hr
    rw [← hr.1, ← hr.2]
    have hty : m.body.type = .pdelayResp := by
      unfold msgPdelayResp at hf
      simp only [bind, Except.bind] at hf
      cases h2 : liftOv (timeToWire ts) with
      | error e' => rw [h2] at hf; cases hf
      | ok w => rw [h2] at hf; simp only [Except.ok.injEq] at hf; rw [← hf]; rfl
    exact ⟨guarded_send_event _ _ _ _ _ (by rw [hty]; intro e; cases e) (by rw [hty]; intro e; cases e), keeps_refl _⟩

theorem handlePdelayRespTs_roles (p p' : Port) (s : InstState) (id : Nat) (req : PortId) (ts : Nat) (outs : List Out)
    (hr : p.handlePdelayRespTs s id req ts = .ok (p', outs)) : Guarded p.st.isMaster p.st.isSlave outs ∧ Keeps p p' := by
  unfold Port.handlePdelayRespTs at hr
  simp only [bind, Except.bind] at hr
  cases hf : msgPdelayRespFu s.dflt p.id req id ts p.cfg.minorVersion with
  | error e => rw [hf] at hr; cases hr
  | ok m =>
    rw [hf] at hr
    simp only [Except.ok.injEq, Prod.mk.injEq] at hr
    rw [← hr.1, ← hr.2]
    have hty : m.body.type = .pdelayRespFu := by
      unfold msgPdelayRespFu at hf
      simp only [bind, Except.bind] at hf
      cases h2 : liftOv (timeToWire ts) with
      | error e' => rw [h2] at hf; cases hf
      | ok w => rw [h2] at hf; simp only [Except.ok.injEq] at hf; rw [← hf]; rfl
    exact ⟨guarded_send_general _ _ _ _ (by rw [hty]; intro e; cases e) (by rw [hty]; intro e; cases e), keeps_refl _⟩

theorem sendDelayRequest_roles (p p' : Port) (s : InstState) (outs : List Out)
    (hr : p.sendDelayRequest s = .ok (p', outs)) : Guarded p.st.isMaster p.st.isSlave outs ∧ Keeps p p' := by
  unfold Port.sendDelayRequest at hr
  split at hr
  · simp only [Except.ok.injEq, Prod.mk.injEq] at hr
    rw [← hr.1, ← hr.2]
    refine ⟨?_, rfl, rfl, fun h => h, rfl, fun h => h⟩
    have : ∀ (m : Msg) (r : Out) (c : TsCtx), ([r, Out.sendEvent c (encode m) true] : List Out) = [r] ++ [Out.sendEvent c (encode m) true] :=
      fun _ _ _ => rfl
    rw [this]
    exact guarded_append (guarded_reset _ _ _ _) (guarded_send_event _ _ _ _ _ (by intro e; cases e) (by intro e; cases e))
  · cases hst : p.st with
    | slave remote sy dl last =>
      rw [hst] at hr
      simp only [Except.ok.injEq, Prod.mk.injEq] at hr
      rw [← hr.1, ← hr.2]
      refine ⟨?_, rfl, rfl, fun _ => by rw [hst]; rfl, rfl, fun h => by cases h⟩
      have : ∀ (m : Msg) (r : Out) (c : TsCtx), ([r, Out.sendEvent c (encode m) false] : List Out) = [r] ++ [Out.sendEvent c (encode m) false] :=
        fun _ _ _ => rfl
      rw [this]
      exact guarded_append (guarded_reset _ _ _ _) (guarded_send_event _ _ _ _ _ (by intro e; cases e) (fun _ => rfl))
    | faulty | listening | master | passive =>
      rw [hst] at hr
      simp only [Except.ok.injEq, Prod.mk.injEq] at hr
      rw [← hr.1, ← hr.2]; exact ⟨guarded_nil _ _, keeps_refl _⟩

theorem handleReceiptTimer_roles (p : Port) (s : InstState) :
    Guarded p.st.isMaster p.st.isSlave (p.handleReceiptTimer s).2 ∧ KeepsW p (p.handleReceiptTimer s).1 ∧
    ((p.handleReceiptTimer s).1.st.isMaster = true → p.st.isMaster = true ∨ s.dflt.slaveOnly = false) := by
  have setM : KeepsW p (p.setState .master).1 ∧ Guarded p.st.isMaster p.st.isSlave (p.setState .master).2 := by
    refine ⟨⟨rfl, rfl, ?_, rfl⟩, ?_⟩
    · intro h; cases h
    · apply guarded_plain
      intro o ho
      simp only [Port.setState] at ho
      split at ho
      · simp only [List.mem_singleton] at ho; subst ho; exact ⟨rfl, by intro m e; cases e⟩
      · cases ho
  have two : ∀ ma sl, Guarded ma sl [Out.reset .announce (.exact 0), Out.reset .sync (.exact 0)] := by
    intro ma sl
    apply guarded_plain
    intro o ho
    simp only [List.mem_cons, List.mem_nil_iff, or_false] at ho
    rcases ho with rfl | rfl <;> exact ⟨rfl, by intro m e; cases e⟩
  unfold Port.handleReceiptTimer
  split
  · exact ⟨guarded_reset _ _ _ _, (keeps_refl _).weak, fun h => Or.inl h⟩
  · split
    · split
      · have := setState_keeps p .listening rfl rfl
        exact ⟨guarded_append this.2 (guarded_reset _ _ _ _), this.1.weak, fun h => Or.inl (this.1.2.2.2.2 h)⟩
      · exact ⟨guarded_reset _ _ _ _, (keeps_refl _).weak, fun h => Or.inl h⟩
    · rename_i hso
      have hso' : s.dflt.slaveOnly = false := by cases hh : s.dflt.slaveOnly with
        | true => exact absurd hh hso
        | false => rfl
      split
      · exact ⟨guarded_append setM.2 (two _ _), setM.1, fun _ => Or.inr hso'⟩
      · exact ⟨two _ _, (keeps_refl _).weak, fun h => Or.inl h⟩

end Statime

namespace Statime

/-- actions that are neither frames nor measurements -/
def Out.plain : Out → Prop
  | .sendEvent .. | .sendGeneral .. | .measurement _ => False
  | _ => True

theorem guarded_of_plain (ma sl : Bool) (outs : List Out) (h : ∀ o ∈ outs, o.plain) : Guarded ma sl outs := by
  apply guarded_plain
  intro o ho
  have := h o ho
  cases o <;> simp_all [Out.plain, Out.sendType]

theorem setState_plain (p : Port) (st : PState) : ∀ o ∈ (p.setState st).2, o.plain := by
  intro o ho
  simp only [Port.setState] at ho
  split at ho
  · simp only [List.mem_singleton] at ho; subst ho; trivial
  · cases ho

theorem bmcaRegister_own (l : FML) (acc : Option (List Nat)) (a : Ann) : (bmcaRegister l acc a).1.own = l.own := by
  unfold bmcaRegister
  split
  · unfold FML.register
    split
    · rfl
    · split
      · rfl
      · split <;> rfl
  · rfl

theorem storePath_spec (s1 s2 : InstState) (pt : Option Tlv) (h : storePath s1 pt = .ok s2) :
    (pt = none ∧ s2 = s1) ∨
    ∃ t, pt = some t ∧ s2 = { s1 with pathTrace := (pathOf t.value).take PATH_TRACE_CAP } ∧ s2.pathTrace.length ≤ PATH_TRACE_CAP := by
  unfold storePath at h
  cases pt with
  | none => simp only [Except.ok.injEq] at h; exact Or.inl ⟨rfl, h.symm⟩
  | some t =>
    simp only at h
    simp only [Except.ok.injEq] at h
    exact Or.inr ⟨t, rfl, h.symm, by rw [← h]; exact List.length_take_le _ _⟩

/-- the three ways `handle_announce` treats the data sets -/
theorem announceUpdate_cases (p : Port) (s s1 : InstState) (m : Msg) (a : Ann) (loop : Bool)
    (h : p.announceUpdate s m a = .ok (s1, loop)) :
    (¬ (p.st.isSlave = true ∧ a.hdr.src = s.parent.parentPort) ∧ s1 = s ∧ loop = false) ∨
    (p.st.isSlave = true ∧ a.hdr.src = s.parent.parentPort ∧ loopsBack s (pathTlvOf s m) = true ∧ s1 = s ∧ loop = true) ∨
    (p.st.isSlave = true ∧ a.hdr.src = s.parent.parentPort ∧ loopsBack s (pathTlvOf s m) = false ∧ loop = false ∧
      ∃ s2, s.applyParent a = .ok s2 ∧ storePath s2 (pathTlvOf s m) = .ok s1) := by
  unfold Port.announceUpdate at h
  by_cases hc : p.st.isSlave = true ∧ a.hdr.src = s.parent.parentPort
  · rw [if_pos hc] at h
    cases hl : loopsBack s (pathTlvOf s m) with
    | true =>
      rw [hl] at h
      simp only [if_true, Except.ok.injEq, Prod.mk.injEq] at h
      exact Or.inr (Or.inl ⟨hc.1, hc.2, rfl, h.1.symm, h.2.symm⟩)
    | false =>
      rw [hl] at h
      simp only [Bool.false_eq_true, if_false] at h
      cases hap : s.applyParent a with
      | error e => rw [hap] at h; cases h
      | ok s2 =>
        rw [hap] at h
        simp only at h
        obtain ⟨s3, hs3, he⟩ := map_ok _ _ _ h
        simp only [Prod.mk.injEq] at he
        exact Or.inr (Or.inr ⟨hc.1, hc.2, rfl, he.2.symm, s2, rfl, by rw [hs3, he.1]⟩)
  · rw [if_neg hc] at h
    simp only [Except.ok.injEq, Prod.mk.injEq] at h
    exact Or.inl ⟨hc, h.1.symm, h.2.symm⟩

theorem announceRegister_roles (p : Port) (m : Msg) (a : Ann) :
    (∀ o ∈ (p.announceRegister m a).2, o.plain) ∧ Keeps p (p.announceRegister m a).1 := by
  unfold Port.announceRegister
  have hf : ∀ o ∈ ((tlvs m.suffix).filter (fun t => tlvPropagates t.ty)).map (fun t => Out.forward t m.header.src), o.plain := by
    intro o ho
    simp only [List.mem_map] at ho
    obtain ⟨t, _, rfl⟩ := ho
    trivial
  have hown := bmcaRegister_own p.fml p.cfg.acceptable a
  split
  · simp only
    split
    · split
      · refine ⟨?_, rfl, rfl, fun h => h, hown, fun h => h⟩
        intro o ho
        rcases List.mem_append.1 ho with h | h
        · simp only [List.mem_singleton] at h; subst h; trivial
        · exact hf o h
      · refine ⟨?_, rfl, rfl, ?_, hown, ?_⟩
        · intro o ho
          rcases List.mem_append.1 ho with h | h
          · rcases List.mem_append.1 h with h1 | h1
            · exact setState_plain _ _ o h1
            · simp only [List.mem_singleton] at h1; subst h1; trivial
          · exact hf o h
        · intro h; simp [Port.setState, PState.isSlave] at h
        · intro h; simp [Port.setState, PState.isMaster] at h
    · refine ⟨?_, rfl, rfl, fun h => h, hown, fun h => h⟩
      intro o ho
      rcases List.mem_append.1 ho with h | h
      · simp only [List.mem_singleton] at h; subst h; trivial
      · exact hf o h
  · exact ⟨(by intro o ho; cases ho), keeps_refl _⟩

theorem handleAnnounce_roles (p p' : Port) (s s' : InstState) (m : Msg) (ab : AnnounceBody) (outs : List Out)
    (hr : p.handleAnnounce s m ab = .ok (p', s', outs)) : (∀ o ∈ outs, o.plain) ∧ Keeps p p' := by
  unfold Port.handleAnnounce at hr
  split at hr
  · cases hr
  · split at hr
    · simp only [Except.ok.injEq, Prod.mk.injEq] at hr
      rw [← hr.1, ← hr.2.2]; exact ⟨(by intro o ho; cases ho), keeps_refl _⟩
    · simp only [Except.ok.injEq, Prod.mk.injEq] at hr
      rw [← hr.1, ← hr.2.2]; exact announceRegister_roles p m _

theorem handleGeneralInternal_roles (p p' : Port) (s s' : InstState) (m : Msg) (outs : List Out)
    (hr : p.handleGeneralInternal s m = .ok (p', s', outs)) : Guarded p.st.isMaster p.st.isSlave outs ∧ Keeps p p' := by
  unfold Port.handleGeneralInternal at hr
  split at hr
  · obtain ⟨h1, h2⟩ := handleAnnounce_roles _ _ _ _ _ _ _ hr
    exact ⟨guarded_of_plain _ _ _ h1, h2⟩
  · obtain ⟨⟨q, o⟩, hx, he⟩ := map_ok _ _ _ hr
    simp only [Prod.mk.injEq] at he
    rw [← he.1, ← he.2.2]; exact handleFollowUp_roles _ _ _ _ _ hx
  · obtain ⟨⟨q, o⟩, hx, he⟩ := map_ok _ _ _ hr
    simp only [Prod.mk.injEq] at he
    rw [← he.1, ← he.2.2]; exact handleDelayResp_roles _ _ _ _ _ _ hx
  · obtain ⟨⟨q, o⟩, hx, he⟩ := map_ok _ _ _ hr
    simp only [Prod.mk.injEq] at he
    rw [← he.1, ← he.2.2]; exact handlePdelayRespFu_roles _ _ _ _ _ _ hx
  · simp only [Except.ok.injEq, Prod.mk.injEq] at hr
    rw [← hr.1, ← hr.2.2]; exact ⟨guarded_nil _ _, keeps_refl _⟩

theorem handleGeneralReceive_roles (p p' : Port) (s s' : InstState) (data : List UInt8) (outs : List Out)
    (hr : p.handleGeneralReceive s data = .ok (p', s', outs)) : Guarded p.st.isMaster p.st.isSlave outs ∧ Keeps p p' := by
  unfold Port.handleGeneralReceive at hr
  split at hr
  · simp only [Except.ok.injEq, Prod.mk.injEq] at hr
    rw [← hr.1, ← hr.2.2]; exact ⟨guarded_nil _ _, keeps_refl _⟩
  · exact handleGeneralInternal_roles _ _ _ _ _ _ hr

theorem handleEventReceive_roles (p p' : Port) (s s' : InstState) (data : List UInt8) (ts : Nat) (outs : List Out)
    (hr : p.handleEventReceive s data ts = .ok (p', s', outs)) : Guarded p.st.isMaster p.st.isSlave outs ∧ Keeps p p' := by
  unfold Port.handleEventReceive at hr
  split at hr
  · simp only [Except.ok.injEq, Prod.mk.injEq] at hr
    rw [← hr.1, ← hr.2.2]; exact ⟨guarded_nil _ _, keeps_refl _⟩
  · split at hr
    · obtain ⟨⟨q, o⟩, hx, he⟩ := map_ok _ _ _ hr
      simp only [Prod.mk.injEq] at he
      rw [← he.1, ← he.2.2]; exact handleSync_roles _ _ _ _ _ _ hx
    · obtain ⟨⟨q, o⟩, hx, he⟩ := map_ok _ _ _ hr
      simp only [Prod.mk.injEq] at he
      rw [← he.1, ← he.2.2]; exact handleDelayReq_roles _ _ _ _ _ hx
    · obtain ⟨⟨q, o⟩, hx, he⟩ := map_ok _ _ _ hr
      simp only [Prod.mk.injEq] at he
      rw [← he.1, ← he.2.2]; exact handlePdelayReq_roles _ _ _ _ _ _ hx
    · obtain ⟨⟨q, o⟩, hx, he⟩ := map_ok _ _ _ hr
      simp only [Prod.mk.injEq] at he
      rw [← he.1, ← he.2.2]; exact handlePdelayResp_roles _ _ _ _ _ _ _ hx
    · exact handleGeneralInternal_roles _ _ _ _ _ _ hr

theorem handleSendTimestamp_roles (p p' : Port) (s : InstState) (ctx : TsCtx) (ts : Nat) (outs : List Out)
    (hr : p.handleSendTimestamp s ctx ts = .ok (p', outs)) : Guarded p.st.isMaster p.st.isSlave outs ∧ Keeps p p' := by
  unfold Port.handleSendTimestamp at hr
  cases ctx with
  | sync id => exact handleSyncTs_roles _ _ _ _ _ _ hr
  | delayReq id => exact handleDelayTs_roles _ _ _ _ _ hr
  | pdelayReq id => exact handlePdelayTs_roles _ _ _ _ _ hr
  | pdelayResp id req => exact handlePdelayRespTs_roles _ _ _ _ _ _ _ hr

end Statime
