import StatimeModel.Model.Servo
import StatimeModel.Lemmas.F64L
/-
Lemmas about the servo's control path (Model/Servo.lean): what commands each call can give the clock.
Nothing here looks inside the rounding operations `A`.
-/
namespace Statime.Servo
open Statime

theorem obind {α β} {x : Option α} {f : α → Option β} {b : β} (h : x.bind f = some b) :
    ∃ a, x = some a ∧ f a = some b := by
  cases x with
  | none => cases h
  | some a => exact ⟨a, rfl, h⟩

theorem omap {α β} {x : Option α} {f : α → β} {b : β} (h : x.map f = some b) : ∃ a, x = some a ∧ f a = b := by
  cases x with
  | none => cases h
  | some a => exact ⟨a, rfl, by simpa using h⟩

/-- `f` lies within `-bound ..= bound` as the comparison sees it -/
def Within (bound f : Nat) : Prop := f64Lt bound f = false ∧ f64Lt f (f64Neg bound) = false

/-- a usable bound: finite and not negative -/
def GoodBound (b : Nat) : Prop := f64IsFinite b = true ∧ f64Lt b (f64Neg b) = false

theorem goodBound_key (b : Nat) (h : GoodBound b) : f64IsNaN b = false ∧ 0 ≤ f64Key b := by
  have hn := f64_finite_not_nan b h.1
  refine ⟨hn, ?_⟩
  have h2 := h.2
  cases hlt : decide (f64Key b < f64Key (f64Neg b))
  · simp at hlt; rw [f64Key_neg] at hlt; omega
  · exfalso
    have : f64Lt b (f64Neg b) = true := by
      unfold f64Lt; rw [f64IsNaN_neg, hn, hlt]; rfl
    rw [this] at h2; cases h2

theorem within_bound (b : Nat) (h : GoodBound b) : Within b b := by
  obtain ⟨hn, hk⟩ := goodBound_key b h
  exact ⟨f64Lt_irrefl b, h.2⟩

theorem within_negBound (b : Nat) (h : GoodBound b) : Within b (f64Neg b) := by
  obtain ⟨hn, hk⟩ := goodBound_key b h
  refine ⟨?_, f64Lt_irrefl _⟩
  cases h1 : f64Lt b (f64Neg b)
  · rfl
  · rw [h.2] at h1; cases h1

theorem within_zero (b : Nat) (h : GoodBound b) : Within b cZero := by
  obtain ⟨hn, hk⟩ := goodBound_key b h
  have k0 : f64Key cZero = 0 := by unfold f64Key f64Sign f64Mag cZero; simp
  constructor
  · cases h1 : f64Lt b cZero
    · rfl
    · have := (f64Lt_iff _ _).mp h1; omega
  · cases h1 : f64Lt cZero (f64Neg b)
    · rfl
    · have := (f64Lt_iff _ _).mp h1; rw [f64Key_neg] at this; omega

/-- the clamp keeps every result within the bound … -/
theorem clampFrequency_within (A : Arith) (cur err b : Nat) (h : GoodBound b) :
    Within b (clampFrequency A cur err b) := by
  unfold clampFrequency
  simp only
  split
  · exact within_bound b h
  · split
    · exact within_negBound b h
    · rename_i h1 h2
      exact ⟨by simpa using h1, by simpa using h2⟩

/-- … and finite, unless the arithmetic produced a NaN -/
theorem clampFrequency_finite (A : Arith) (cur err b : Nat) (h : GoodBound b)
    (hn : f64IsNaN (A.add cur err) = false) : f64IsFinite (clampFrequency A cur err b) = true := by
  obtain ⟨hbn, hk⟩ := goodBound_key b h
  unfold clampFrequency
  simp only
  split
  · exact h.1
  · split
    · rw [f64IsFinite_neg]; exact h.1
    · rename_i h1 h2
      generalize A.add cur err = f at *
      have a1 : ¬ (f64Key b < f64Key f) := by
        intro hc; exact h1 ((f64Lt_iff _ _).mpr ⟨hbn, hn, hc⟩)
      have a2 : ¬ (f64Key f < f64Key (f64Neg b)) := by
        intro hc; exact h2 ((f64Lt_iff _ _).mpr ⟨hn, by rw [f64IsNaN_neg]; exact hbn, hc⟩)
      rw [f64Key_neg] at a2
      have hbf := h.1
      unfold f64IsFinite at *
      unfold f64Key at *
      simp at hbf ⊢
      rcases f64Sign_le f with s | s <;> rcases f64Sign_le b with t | t <;> simp only [s, t] at a1 a2 hk <;> simp at a1 a2 hk <;> omega

end Statime.Servo

namespace Statime.Servo
open Statime

theorem clampFrequency_finite' (A : Arith) (cur err b : Nat) (h : GoodBound b)
    (hn : f64IsNaN (clampFrequency A cur err b) = false) : f64IsFinite (clampFrequency A cur err b) = true := by
  cases hadd : f64IsNaN (A.add cur err)
  · exact clampFrequency_finite A cur err b h hadd
  · exfalso
    have l1 : f64Lt b (A.add cur err) = false := by unfold f64Lt; rw [hadd]; simp
    have l2 : f64Lt (A.add cur err) (f64Neg b) = false := by unfold f64Lt; rw [hadd]; simp
    have : clampFrequency A cur err b = A.add cur err := by
      unfold clampFrequency; simp only [l1, l2]; simp
    rw [this, hadd] at hn; cases hn

/-- a frequency command the property allows: within the configured bound, and finite unless NaN -/
def FreqOK (c : Cfg) (f : Nat) : Prop := Within c.mf f ∧ (f64IsNaN f = false → f64IsFinite f = true)

/-- a step command the property allows: at least the step threshold, both passed through `Duration::from_seconds` -/
def StepOK (A : Arith) (c : Cfg) (d : Int) : Prop :=
  ∀ dthr, durFromSeconds (durSeconds A c.thr) = some dthr → dthr ≤ (d.natAbs : Int)

def CmdOK (A : Arith) (c : Cfg) : Cmd → Prop
  | .freq f _ => FreqOK c f
  | .step d _ => StepOK A c d

theorem freqOK_zero (c : Cfg) (h : GoodBound c.mf) : FreqOK c cZero := by
  refine ⟨within_zero _ h, fun _ => ?_⟩
  unfold f64IsFinite f64Mag cZero F64INF P63; decide

theorem changeFrequency_spec (A : Arith) (k k' : Kalman) (t : Nat) (clk : ClockIn) (cs : List Cmd)
    (hg : GoodBound k.cfg.mf) (h : k.changeFrequency A t clk = some (k', cs)) :
    k'.cfg = k.cfg ∧ (cs = [] ∨ ∃ f ok, cs = [.freq f ok] ∧ FreqOK k.cfg f) ∧ (k.cur = none → cs = [] ∧ k' = k) := by
  unfold Kalman.changeFrequency at h
  cases hc : k.cur with
  | none =>
    rw [hc] at h
    simp only at h
    cases h
    exact ⟨rfl, Or.inl rfl, fun _ => ⟨rfl, rfl⟩⟩
  | some cur =>
    rw [hc] at h
    simp only at h
    have fok : FreqOK k.cfg (clampFrequency A cur (A.sub t (A.mul k.run.freqOffset c1e6)) k.cfg.mf) :=
      ⟨clampFrequency_within A _ _ _ hg, clampFrequency_finite' A _ _ _ hg⟩
    split at h
    · cases h
      exact ⟨rfl, Or.inr ⟨_, false, rfl, fok⟩, fun hh => by cases hh⟩
    · obtain ⟨run, _, h⟩ := obind h
      obtain ⟨wan, _, h⟩ := omap h
      cases h
      exact ⟨rfl, Or.inr ⟨_, true, rfl, fok⟩, fun hh => by cases hh⟩

theorem ensureFreqInit_spec (k : Kalman) (clk : ClockIn) (hg : GoodBound k.cfg.mf) :
    (k.ensureFreqInit clk).1.cfg = k.cfg ∧
    ((k.ensureFreqInit clk).2 = [] ∨ ∃ ok, (k.ensureFreqInit clk).2 = [.freq cZero ok]) := by
  unfold Kalman.ensureFreqInit
  cases k.cur with
  | some c => exact ⟨rfl, Or.inl rfl⟩
  | none =>
    simp only
    split
    · exact ⟨rfl, Or.inr ⟨false, rfl⟩⟩
    · exact ⟨rfl, Or.inr ⟨true, rfl⟩⟩

/-- `step`: one step command, the converted negated offset -/
theorem stepClock_spec (A : Arith) (k k' : Kalman) (off : Nat) (clk : ClockIn) (cs : List Cmd)
    (h : k.stepClock A off clk = some (k', cs)) :
    k'.cfg = k.cfg ∧ ∃ d ok, cs = [.step d ok] ∧ durFromSeconds (f64Neg off) = some d := by
  unfold Kalman.stepClock at h
  obtain ⟨d, hd, h⟩ := obind h
  split at h
  · cases h; exact ⟨rfl, d, false, rfl, hd⟩
  · obtain ⟨run, _, h⟩ := obind h
    obtain ⟨wan, _, h⟩ := omap h
    cases h
    exact ⟨rfl, d, true, rfl, hd⟩

/-- a step is at least the threshold whenever the servo did not find `|error| < threshold` -/
theorem step_magnitude (A : Arith) (c : Cfg) (err : Nat) (d : Int)
    (hnot : f64Lt (f64Abs err) (durSeconds A c.thr) = false)
    (hd : durFromSeconds (f64Neg err) = some d) : StepOK A c d := by
  intro dthr hthr
  obtain ⟨vt, hvt, et⟩ := durFromSeconds_val _ _ hthr
  obtain ⟨vn, hvn, en⟩ := durFromSeconds_val _ _ hd
  obtain ⟨hft, evt, _⟩ := f64ToFixed32_val _ _ hvt
  obtain ⟨hfn, evn, _⟩ := f64ToFixed32_val _ _ hvn
  rw [f64IsFinite_neg] at hfn
  -- neither side is NaN, so the failed comparison means thr <= |err|
  have nt := f64_finite_not_nan _ hft
  have ne := f64_finite_not_nan _ hfn
  have hk : f64Key (durSeconds A c.thr) ≤ f64Key (f64Abs err) := by
    cases hlt : decide (f64Key (f64Abs err) < f64Key (durSeconds A c.thr))
    · simp at hlt; exact hlt
    · exfalso
      have : f64Lt (f64Abs err) (durSeconds A c.thr) = true := by
        unfold f64Lt; rw [f64Abs_nan, ne, nt, hlt]; rfl
      rw [this] at hnot; cases hnot
  have m1 := f64FixedSigned_mono _ _ hk
  -- |fixed(-err)| = fixed(|err|)
  have habs : f64FixedSigned (f64Abs (f64Neg err)) = f64FixedSigned (f64Abs err) := by
    unfold f64Abs; rw [f64Neg_mag]
  have h3 := f64FixedSigned_abs (f64Neg err)
  have h4 := f64FixedSigned_abs_nonneg (f64Neg err)
  rw [habs] at h3 h4
  subst et; subst en; subst evt; subst evn
  have hns : (0 : Int) < (NS : Int) := by unfold NS; decide
  generalize f64FixedSigned (durSeconds A c.thr) = a at *
  generalize f64FixedSigned (f64Abs err) = b at *
  generalize f64FixedSigned (f64Neg err) = n at *
  have hb : b = n ∨ b = -n := h3
  have : a * (NS : Int) ≤ b * (NS : Int) := Int.mul_le_mul_of_nonneg_right m1 (Int.le_of_lt hns)
  have e2 : ((n * (NS : Int)).natAbs : Int) = b * (NS : Int) := by
    rcases hb with e | e
    · subst e
      have : 0 ≤ b * (NS : Int) := Int.mul_nonneg h4 (Int.le_of_lt hns)
      omega
    · have hn0 : n ≤ 0 := by omega
      have : n * (NS : Int) ≤ 0 := Int.mul_nonpos_of_nonpos_of_nonneg hn0 (Int.le_of_lt hns)
      have e3 : b * (NS : Int) = -(n * (NS : Int)) := by rw [e, Int.neg_mul]
      omega
  omega

end Statime.Servo

namespace Statime.Servo
open Statime

theorem steer_spec (A : Arith) (k k' : Kalman) (clk : ClockIn) (cs : List Cmd) (u : Upd)
    (hg : GoodBound k.cfg.mf) (h : k.steer A clk = some (k', cs, u)) :
    k'.cfg = k.cfg ∧ cs.length ≤ 1 ∧ ∀ c ∈ cs, CmdOK A k.cfg c := by
  unfold Kalman.steer at h
  simp only at h
  split at h
  · -- slew
    obtain ⟨target, _, h⟩ := obind h
    obtain ⟨⟨k1, c1⟩, hcf, h⟩ := obind h
    simp only at h
    split at h
    · obtain ⟨md, _, h⟩ := omap h
      cases h
      obtain ⟨e1, e2, _⟩ := changeFrequency_spec A k k' target clk cs hg hcf
      refine ⟨e1, ?_, ?_⟩
      · rcases e2 with e | ⟨f, ok, e, _⟩ <;> rw [e] <;> simp
      · intro c hc
        rcases e2 with e | ⟨f, ok, e, fok⟩
        · rw [e] at hc; cases hc
        · rw [e] at hc; simp at hc; subst hc; exact fok
    · cases h
  · -- step
    rename_i hnot
    obtain ⟨⟨k1, c1⟩, hst, h⟩ := obind h
    simp only at h
    obtain ⟨md, _, h⟩ := omap h
    cases h
    obtain ⟨e1, d, ok, e2, hd⟩ := stepClock_spec A k k' _ clk cs hst
    refine ⟨e1, by rw [e2]; simp, ?_⟩
    intro c hc
    rw [e2] at hc; simp at hc; subst hc
    exact step_magnitude A k.cfg _ d (by simpa using hnot) hd

theorem wanderScoreUpdate_cfg (A : Arith) (k k' : Kalman) (u p a : Nat)
    (h : k.wanderScoreUpdate A u p a = some k') : k'.cfg = k.cfg ∧ k'.cur = k.cur := by
  unfold Kalman.wanderScoreUpdate at h
  obtain ⟨mv, _, h⟩ := omap h
  simp only at h
  split at h
  · cases h; exact ⟨rfl, rfl⟩
  · split at h
    · cases h; exact ⟨rfl, rfl⟩
    · cases h; exact ⟨rfl, rfl⟩

theorem updateWander_cfg (A : Arith) (k k' : Kalman) (m : Meas)
    (h : k.updateWander A m = some k') : k'.cfg = k.cfg ∧ k'.cur = k.cur := by
  unfold Kalman.updateWander at h
  obtain ⟨wan, _, h⟩ := obind h
  simp only at h
  obtain ⟨k1, h1, h⟩ := obind h
  obtain ⟨k2, h2, h⟩ := obind h
  have e1 : k1.cfg = k.cfg ∧ k1.cur = k.cur := by
    cases hs : m.rawSync with
    | none => rw [hs] at h1; simp only at h1; cases h1; exact ⟨rfl, rfl⟩
    | some so =>
      rw [hs] at h1; simp only at h1
      have := wanderScoreUpdate_cfg A _ _ _ _ _ h1
      exact this
  have e2 : k2.cfg = k1.cfg ∧ k2.cur = k1.cur := by
    cases hs : m.rawDelay with
    | none => rw [hs] at h2; simp only at h2; cases h2; exact ⟨rfl, rfl⟩
    | some so => rw [hs] at h2; simp only at h2; exact wanderScoreUpdate_cfg A _ _ _ _ _ h2
  split at h
  · cases h
  · cases h
    constructor
    · split <;> split <;> simp [e1.1, e2.1]
    · split <;> split <;> simp [e1.2, e2.2]

end Statime.Servo

namespace Statime.Servo
open Statime

/-- the optional "ensure_freq_init, then absorb an offset" step of `measurement` -/
theorem absorbStep_spec (A : Arith) (k : Kalman) (clk : ClockIn) (x : Option Int) (h : Mat)
    (r : Kalman × List Cmd) (hg : GoodBound k.cfg.mf)
    (hr : (match x with
      | some so =>
        let (k, c) := k.ensureFreqInit clk
        (k.noiseFor A).map fun v => ({ k with run := k.run.absorbOffset A (durSeconds A so) v h k.cfg }, c)
      | none => some (k, [])) = some r) :
    r.1.cfg = k.cfg ∧ ∀ c ∈ r.2, CmdOK A k.cfg c := by
  cases x with
  | none => simp only at hr; cases hr; exact ⟨rfl, fun c hc => by cases hc⟩
  | some so =>
    simp only at hr
    obtain ⟨e1, e2⟩ := ensureFreqInit_spec k clk hg
    generalize k.ensureFreqInit clk = p at *
    obtain ⟨k1, c1⟩ := p
    simp only at hr e1 e2
    obtain ⟨v, _, hr⟩ := omap hr
    cases hr
    refine ⟨e1, ?_⟩
    intro c hc
    simp only at hc
    rcases e2 with e | ⟨ok, e⟩
    · rw [e] at hc; cases hc
    · rw [e] at hc; simp at hc; subst hc; exact freqOK_zero _ hg

theorem measurement_spec (A : Arith) (k k' : Kalman) (m : Meas) (clk : ClockIn) (cs : List Cmd) (u : Upd)
    (hg : GoodBound k.cfg.mf) (h : k.measurement A m clk = some (k', cs, u)) :
    k'.cfg = k.cfg ∧ ∀ c ∈ cs, CmdOK A k.cfg c := by
  unfold Kalman.measurement at h
  split at h
  · cases h; exact ⟨rfl, fun c hc => by cases hc⟩
  · obtain ⟨est, _, h⟩ := obind h
    simp only at h
    obtain ⟨k1, hw, h⟩ := obind h
    have c1 : k1.cfg = k.cfg := (updateWander_cfg A _ _ _ hw).1
    obtain ⟨run, _, h⟩ := obind h
    obtain ⟨⟨k2, cs1⟩, h2, h⟩ := obind h
    have g1 : GoodBound ({ k1 with run := run } : Kalman).cfg.mf := by
      show GoodBound k1.cfg.mf; rw [c1]; exact hg
    have s2 := absorbStep_spec A { k1 with run := run } clk m.rawSync hSync (k2, cs1) g1 h2
    simp only at h s2
    obtain ⟨⟨k3, cs2⟩, h3, h⟩ := obind h
    have g2 : GoodBound k2.cfg.mf := by rw [s2.1, c1]; exact hg
    have s3 := absorbStep_spec A k2 clk m.rawDelay hDelay (k3, cs2) g2 h3
    simp only at h s3
    obtain ⟨k4, h4, h⟩ := obind h
    have c4 : k4.cfg = k3.cfg := by
      cases hp : m.peerDelay with
      | none => rw [hp] at h4; simp only at h4; cases h4; rfl
      | some pd =>
        rw [hp] at h4; simp only at h4
        obtain ⟨v, _, h4⟩ := omap h4
        cases h4; rfl
    obtain ⟨⟨k5, cs3, u5⟩, h5, h⟩ := omap h
    simp only at h
    cases h
    have g4 : GoodBound k4.cfg.mf := by rw [c4, s3.1, s2.1, c1]; exact hg
    obtain ⟨e5, _, a5⟩ := steer_spec A k4 k' clk cs3 u g4 h5
    have ecfg : k4.cfg = k.cfg := by rw [c4, s3.1, s2.1, c1]
    refine ⟨by rw [e5, ecfg], ?_⟩
    intro c hc
    simp only [List.mem_append] at hc
    rcases hc with (hc | hc) | hc
    · have := s2.2 c hc; rw [c1] at this; exact this
    · have := s3.2 c hc; rw [s2.1, c1] at this; exact this
    · have := a5 c hc; rw [ecfg] at this; exact this

theorem update_spec (A : Arith) (k k' : Kalman) (clk : ClockIn) (cs : List Cmd) (u : Upd)
    (hg : GoodBound k.cfg.mf) (h : k.update A clk = some (k', cs, u)) :
    k'.cfg = k.cfg ∧ cs.length ≤ 1 ∧ (∀ c ∈ cs, CmdOK A k.cfg c) ∧ (k.cur = none → cs = []) := by
  unfold Kalman.update at h
  obtain ⟨⟨k1, c1⟩, hcf, h⟩ := obind h
  simp only at h
  obtain ⟨md, _, h⟩ := omap h
  cases h
  obtain ⟨e1, e2, e3⟩ := changeFrequency_spec A k k' cZero clk cs hg hcf
  refine ⟨e1, ?_, ?_, fun hn => (e3 hn).1⟩
  · rcases e2 with e | ⟨f, ok, e, _⟩ <;> rw [e] <;> simp
  · intro c hc
    rcases e2 with e | ⟨f, ok, e, fok⟩
    · rw [e] at hc; cases hc
    · rw [e] at hc; simp at hc; subst hc; exact fok

/-- leaving the slave state: at most one command, a frequency within the bound -/
theorem demobilize_spec (A : Arith) (k : Kalman) (clk : ClockIn) (cs : List Cmd)
    (hg : GoodBound k.cfg.mf) (h : k.demobilize A clk = some cs) :
    (cs = [] ∨ ∃ f ok, cs = [.freq f ok] ∧ FreqOK k.cfg f) ∧ (k.cur = none → cs = []) := by
  unfold Kalman.demobilize at h
  obtain ⟨⟨k1, c1⟩, hcf, h⟩ := omap h
  simp only at h
  subst h
  obtain ⟨_, e2, e3⟩ := changeFrequency_spec A k k1 cZero clk c1 hg hcf
  exact ⟨e2, fun hn => (e3 hn).1⟩

end Statime.Servo
