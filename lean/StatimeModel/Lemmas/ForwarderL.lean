import StatimeModel.Model.Forwarder
/-
Lemmas about the forwarded-TLV queue model: the receiver invariant, the pending view, the
refinement of `next_if_smaller` to "pop the head if it fits", and the history invariant
(delivered values are a subsequence of what was sent, by position).
-/
namespace Statime.Fwd

/-- number of log entries this forwarder has finally consumed (the peeked one is not consumed yet) -/
def Rx.readPos (r : Rx) : Nat := if r.peek.isSome then r.pos - 1 else r.pos

/-- the cursor is inside the log and the peeked value is the log entry just before the cursor -/
def Wf (log : List Item) (r : Rx) : Prop :=
  r.pos ≤ log.length ∧ ∀ v, r.peek = some v → 1 ≤ r.pos ∧ log[r.pos - 1]? = some v

/-- what this forwarder will still hand out, in order, if nothing is lost -/
def pending (log : List Item) (r : Rx) : List Item := r.peek.toList ++ log.drop r.pos

/-- the receiver has not fallen more than the channel capacity behind -/
def NoLag (log : List Item) (r : Rx) : Prop := log.length ≤ r.pos + CAP

theorem pending_eq_drop (log : List Item) (r : Rx) (h : Wf log r) : pending log r = log.drop r.readPos := by
  unfold pending Rx.readPos
  cases hp : r.peek with
  | none => simp
  | some v =>
    obtain ⟨h1, h2⟩ := h.2 v hp
    simp only [Option.toList_some, Option.isSome_some, ↓reduceIte]
    have hlt : r.pos - 1 < log.length := by have := h.1; omega
    rw [List.drop_eq_getElem_cons hlt]
    have : log[r.pos - 1] = v := by
      have := List.getElem?_eq_getElem hlt
      rw [this] at h2; exact Option.some.inj h2
    rw [this]
    have : r.pos - 1 + 1 = r.pos := by omega
    rw [this]; rfl

theorem wf_forward (log : List Item) (r : Rx) (v : Item) (h : Wf log r) : Wf (log ++ [v]) r := by
  refine ⟨by have := h.1; simp; omega, ?_⟩
  intro w hw
  obtain ⟨h1, h2⟩ := h.2 w hw
  refine ⟨h1, ?_⟩
  have hlt : r.pos - 1 < log.length := by have := h.1; omega
  rw [List.getElem?_append_left hlt]; exact h2

/-- **forwarding appends to every forwarder's pending list** -/
theorem pending_forward (log : List Item) (r : Rx) (v : Item) (h : Wf log r) :
    pending (log ++ [v]) r = pending log r ++ [v] := by
  unfold pending
  rw [List.drop_append_of_le_length h.1, List.append_assoc]

theorem tryRecv_some (log : List Item) (r : Rx) (v : Item) (hn : NoLag log r) (hg : log[r.pos]? = some v) :
    tryRecv log r = (.ok v, { r with pos := r.pos + 1 }) := by
  unfold tryRecv
  have : ¬ r.pos + CAP < log.length := by unfold NoLag at hn; omega
  rw [if_neg this, hg]

theorem tryRecv_none (log : List Item) (r : Rx) (hn : NoLag log r) (hg : log[r.pos]? = none) :
    tryRecv log r = (.empty, r) := by
  unfold tryRecv
  have : ¬ r.pos + CAP < log.length := by unfold NoLag at hn; omega
  rw [if_neg this, hg]

theorem fill_some (log : List Item) (r : Rx) (v : Item) (hn : NoLag log r) (hp : r.peek = none)
    (hg : log[r.pos]? = some v) : fill log r = { pos := r.pos + 1, peek := some v } := by
  unfold fill
  rw [hp]
  simp only
  rw [tryRecv_some log r v hn hg]

theorem fill_none (log : List Item) (r : Rx) (hn : NoLag log r) (hp : r.peek = none)
    (hg : log[r.pos]? = none) : fill log r = r := by
  unfold fill
  rw [hp]
  simp only
  rw [tryRecv_none log r hn hg]

theorem fill_peeked (log : List Item) (r : Rx) (v : Item) (hp : r.peek = some v) : fill log r = r := by
  unfold fill
  rw [hp]

theorem wf_fill (log : List Item) (r : Rx) (h : Wf log r) : Wf log (fill log r) := by
  unfold fill
  cases hp : r.peek with
  | some v => simpa [hp] using h
  | none =>
    simp only
    unfold tryRecv
    by_cases hl : r.pos + CAP < log.length
    · rw [if_pos hl]
      simp only
      have hc : ¬ (log.length - CAP + CAP < log.length) := by omega
      rw [if_neg hc]
      have hlt : log.length - CAP < log.length := by unfold CAP at *; omega
      rw [List.getElem?_eq_getElem hlt]
      simp only
      refine ⟨by simp; omega, ?_⟩
      intro w hw
      simp only [Option.some.injEq] at hw
      subst hw
      simp only [Nat.add_sub_cancel]
      exact ⟨by omega, List.getElem?_eq_getElem hlt⟩
    · rw [if_neg hl]
      cases hg : log[r.pos]? with
      | none => simp only; exact ⟨h.1, by intro w hw; rw [hp] at hw; cases hw⟩
      | some v =>
        simp only
        have hlt : r.pos < log.length := by
          rcases Nat.lt_or_ge r.pos log.length with h' | h'
          · exact h'
          · rw [List.getElem?_eq_none h'] at hg; cases hg
        refine ⟨by simp; omega, ?_⟩
        intro w hw
        simp only [Option.some.injEq] at hw
        subst hw
        simp only [Nat.add_sub_cancel]
        exact ⟨by omega, hg⟩

theorem wf_next (log : List Item) (r : Rx) (m : Nat) (h : Wf log r) : Wf log (nextIfSmaller log r m).2 := by
  have hf := wf_fill log r h
  unfold nextIfSmaller
  cases hp : (fill log r).peek with
  | none => simpa using hf
  | some v =>
    simp only
    split
    · exact ⟨hf.1, by intro w hw; cases hw⟩
    · exact hf

theorem wf_empty (log : List Item) (r : Rx) : Wf log (emptyRx log r) :=
  ⟨Nat.le_refl _, by intro w hw; cases hw⟩

/-- **what comes out fits** -/
theorem next_fits (log : List Item) (r : Rx) (m : Nat) (v : Item) (h : (nextIfSmaller log r m).1 = some v) :
    v.size ≤ m := by
  unfold nextIfSmaller at h
  cases hp : (fill log r).peek with
  | none => rw [hp] at h; cases h
  | some w =>
    rw [hp] at h
    simp only at h
    split at h
    · simp only [Option.some.injEq] at h; subst h; assumption
    · cases h

/-- filling does not change the pending list while the receiver keeps up -/
theorem pending_fill (log : List Item) (r : Rx) (h : Wf log r) (hn : NoLag log r) :
    pending log (fill log r) = pending log r := by
  cases hp : r.peek with
  | some v => rw [fill_peeked log r v hp]
  | none =>
    cases hg : log[r.pos]? with
    | none => rw [fill_none log r hn hp hg]
    | some v =>
      rw [fill_some log r v hn hp hg]
      unfold pending
      rw [hp]
      simp only [Option.toList_some, Option.toList_none, List.nil_append]
      have hlt : r.pos < log.length := by
        rcases Nat.lt_or_ge r.pos log.length with h' | h'
        · exact h'
        · rw [List.getElem?_eq_none h'] at hg; cases hg
      rw [List.drop_eq_getElem_cons hlt]
      have : log[r.pos] = v := by
        rw [List.getElem?_eq_getElem hlt] at hg; exact Option.some.inj hg
      rw [this]; rfl

theorem peek_fill (log : List Item) (r : Rx) (h : Wf log r) (hn : NoLag log r) :
    (fill log r).peek = (pending log r).head? := by
  cases hp : r.peek with
  | some v => rw [fill_peeked log r v hp]; unfold pending; rw [hp]; simp
  | none =>
    unfold pending
    rw [hp]
    simp only [Option.toList_none, List.nil_append, List.head?_drop]
    cases hg : log[r.pos]? with
    | none => rw [fill_none log r hn hp hg]; exact hp
    | some v => rw [fill_some log r v hn hp hg]

/-- **`next_if_smaller` is "pop the head of the pending list if it fits"** (the loose provider of the
port model, `fwdFits true`), as long as the receiver has not lagged -/
theorem next_refines_queue (log : List Item) (r : Rx) (m : Nat) (h : Wf log r) (hn : NoLag log r) :
    (pending log r = [] → (nextIfSmaller log r m).1 = none ∧ pending log (nextIfSmaller log r m).2 = []) ∧
    (∀ v rest, pending log r = v :: rest →
      (v.size ≤ m → (nextIfSmaller log r m).1 = some v ∧ pending log (nextIfSmaller log r m).2 = rest) ∧
      (¬ v.size ≤ m → (nextIfSmaller log r m).1 = none ∧ pending log (nextIfSmaller log r m).2 = v :: rest)) := by
  have hpk := peek_fill log r h hn
  have hpf := pending_fill log r h hn
  constructor
  · intro he
    rw [he] at hpk
    unfold nextIfSmaller
    simp only [List.head?_nil] at hpk
    rw [hpk]
    exact ⟨rfl, by rw [hpf]; exact he⟩
  · intro v rest he
    rw [he] at hpk
    simp only [List.head?_cons] at hpk
    unfold nextIfSmaller
    rw [hpk]
    simp only
    constructor
    · intro hs
      rw [if_pos hs]
      refine ⟨rfl, ?_⟩
      -- dropping the peeked value leaves the tail
      have : pending log (fill log r) = v :: rest := by rw [hpf]; exact he
      unfold pending at this ⊢
      rw [hpk] at this
      simp only [Option.toList_some, List.singleton_append, List.cons.injEq, true_and] at this
      simpa using this
    · intro hs
      rw [if_neg hs]
      exact ⟨rfl, by rw [hpf]; exact he⟩

/-- the consumed prefix only grows -/
theorem readPos_fill_le (log : List Item) (r : Rx) (h : Wf log r) : r.readPos ≤ (fill log r).readPos := by
  unfold fill
  cases hp : r.peek with
  | some v => simp [hp]
  | none =>
    simp only
    unfold tryRecv
    by_cases hl : r.pos + CAP < log.length
    · rw [if_pos hl]
      simp only
      have hc : ¬ (log.length - CAP + CAP < log.length) := by omega
      rw [if_neg hc]
      have hlt : log.length - CAP < log.length := by unfold CAP at *; omega
      rw [List.getElem?_eq_getElem hlt]
      simp only [Rx.readPos, hp, Option.isSome_none, Bool.false_eq_true, ↓reduceIte, Option.isSome_some,
        Nat.add_sub_cancel]
      omega
    · rw [if_neg hl]
      cases hg : log[r.pos]? with
      | none => simp [Rx.readPos, hp]
      | some v => simp [Rx.readPos, hp]

/-- a delivered value is the log entry at the old consumed position or later, and the consumed
prefix afterwards ends right behind it -/
theorem next_delivers_from_log (log : List Item) (r : Rx) (m : Nat) (v : Item) (h : Wf log r)
    (ho : (nextIfSmaller log r m).1 = some v) :
    ∃ k, r.readPos ≤ k ∧ log[k]? = some v ∧ (nextIfSmaller log r m).2.readPos = k + 1 := by
  have hf := wf_fill log r h
  have hle := readPos_fill_le log r h
  unfold nextIfSmaller at ho ⊢
  cases hp : (fill log r).peek with
  | none => rw [hp] at ho; cases ho
  | some w =>
    rw [hp] at ho
    simp only at ho ⊢
    by_cases hs : w.size ≤ m
    · rw [if_pos hs] at ho ⊢
      have hw : w = v := by simpa using ho
      subst hw
      obtain ⟨h1, h2⟩ := hf.2 w hp
      refine ⟨(fill log r).pos - 1, ?_, h2, ?_⟩
      · simpa [Rx.readPos, hp] using hle
      · simp only [Rx.readPos, Option.isSome_none, Bool.false_eq_true, ↓reduceIte]; omega
    · rw [if_neg hs] at ho; simp at ho

theorem readPos_next_le (log : List Item) (r : Rx) (m : Nat) (h : Wf log r) :
    r.readPos ≤ (nextIfSmaller log r m).2.readPos := by
  have hle := readPos_fill_le log r h
  unfold nextIfSmaller
  cases hp : (fill log r).peek with
  | none => simpa using hle
  | some w =>
    simp only
    split
    · have hf := wf_fill log r h
      obtain ⟨h1, _⟩ := hf.2 w hp
      simp only [Rx.readPos, hp, Option.isSome_some, ↓reduceIte] at hle
      simp only [Rx.readPos, Option.isSome_none, Bool.false_eq_true, ↓reduceIte]
      omega
    · exact hle

theorem readPos_le_length (log : List Item) (r : Rx) (h : Wf log r) : r.readPos ≤ log.length := by
  unfold Rx.readPos; split <;> have := h.1 <;> omega

end Statime.Fwd
