import StatimeModel.Lemmas.NetBest
/-
A concrete two-instance network (one shared segment, instance 1 better by identity) that is a fixed point,
plain, connected, with instance 0 the best: the hypotheses of C01.best_is_only_grandmaster are satisfiable.
-/
namespace Statime.Net.Demo
open Statime Statime.Net


def c0 : NodeCfg := { id := 1, p1 := 128, cls := 248, acc := 254, var := 65535, p2 := 128, slaveOnly := false, ports := [{ seg := 0, masterOnly := false }] }
def c1 : NodeCfg := { id := 2, p1 := 128, cls := 248, acc := 254, var := 65535, p2 := 128, slaveOnly := false, ports := [{ seg := 0, masterOnly := false }] }
def s0 : NodeSt := { ports := [.master], parentClock := 1, parentPort := 0, steps := 0, gm := c0.ownGm }
def s1 : NodeSt := { ports := [.slave], parentClock := 1, parentPort := 1, steps := 1, gm := c0.ownGm }
def demo : Net := [(c0, s0), (c1, s1)]

example : stepNode demo 0 = s0 := by decide
example : stepNode demo 1 = s1 := by decide

theorem demo_stable : Net.Stable demo := by
  intro x c s hx _
  match x, hx with
  | 0, hx => simp [demo] at hx; obtain ⟨rfl, rfl⟩ := hx; decide
  | 1, hx => simp [demo] at hx; obtain ⟨rfl, rfl⟩ := hx; decide
  | n + 2, hx => simp [demo] at hx

theorem demo_node (x : Nat) (c : NodeCfg) (s : NodeSt) (hx : demo[x]? = some (c, s)) :
    (x = 0 ∧ c = c0 ∧ s = s0) ∨ (x = 1 ∧ c = c1 ∧ s = s1) := by
  match x, hx with
  | 0, hx => simp [demo] at hx; left; exact ⟨rfl, hx.1.symm, hx.2.symm⟩
  | 1, hx => simp [demo] at hx; right; exact ⟨rfl, hx.1.symm, hx.2.symm⟩
  | n + 2, hx => simp [demo] at hx

theorem demo_plain : Net.Plain demo := by
  constructor
  · intro x c s hx
    rcases demo_node x c s hx with ⟨_, rfl, rfl⟩ | ⟨_, rfl, rfl⟩ <;> decide
  · intro x y cx sx cy sy hx hy hid
    rcases demo_node x cx sx hx with ⟨rfl, rfl, rfl⟩ | ⟨rfl, rfl, rfl⟩ <;>
    rcases demo_node y cy sy hy with ⟨rfl, rfl, rfl⟩ | ⟨rfl, rfl, rfl⟩ <;> first | rfl | (exfalso; revert hid; decide)
  · intro x c s i j pi pj hx hi hj _
    have one : ∀ (k : Nat) (p : PortCfg), c.ports[k]? = some p → k = 0 := by
      intro k p hk
      rcases demo_node x c s hx with ⟨_, rfl, _⟩ | ⟨_, rfl, _⟩ <;>
      (match k, hk with
       | 0, _ => rfl
       | k + 1, hk => simp [c0, c1] at hk)
    rw [one i pi hi, one j pj hj]
  · intro x c s hx
    rcases demo_node x c s hx with ⟨_, _, rfl⟩ | ⟨_, _, rfl⟩ <;> decide

theorem demo_best : Net.IsBest demo 0 c0 s0 := by
  refine ⟨rfl, ?_⟩
  intro y cy sy hy
  rcases demo_node y cy sy hy with ⟨_, rfl, _⟩ | ⟨_, rfl, _⟩ <;> decide

theorem demo_reach (y : Nat) (cy : NodeCfg) (sy : NodeSt) (hy : demo[y]? = some (cy, sy)) : Net.Reach demo 0 y := by
  rcases demo_node y cy sy hy with ⟨rfl, _, _⟩ | ⟨rfl, _, _⟩
  · exact .refl
  · exact .step .refl ⟨c0, s0, c1, s1, 0, 0, _, _, rfl, rfl, rfl, rfl, rfl⟩

end Statime.Net.Demo
