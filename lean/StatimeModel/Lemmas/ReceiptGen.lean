import StatimeModel.Model.Port
/-!
# An interpreter for the announce receipt timeout the translator extracts

`translator/extract_receipt.py` reads `Port::handle_announce_receipt_timer` (`statime/src/port/mod.rs`) on every
run and writes `Generated/ReceiptTimer.lean`: the early returns, the condition of the final `if`/`else`, and for
every branch the state it forces (unless the port is in it already) and the timer actions it returns.
`evalReceipt` gives that its meaning; `Props/C08.lean` proves it equal to the model's `Port.handleReceiptTimer`.
-/
namespace Statime.RcptGen
open Statime

/-- the states the handler names (`Slave` carries data and is never named there) -/
inductive St | faulty | listening | master | passive
  deriving DecidableEq, Repr, Inhabited

def St.toP : St → PState
  | .faulty => .faulty
  | .listening => .listening
  | .master => .master
  | .passive => .passive

inductive Cond
  | stateIs (s : St)            -- `matches!(self.port_state, PortState::S)`
  | slaveOnly                   -- `self.instance_state.with_ref(|state| state.default_ds.slave_only)`
  | masterOnly                  -- `self.config.master_only`
  | not (c : Cond)
  | and (a b : Cond)
  | or (a b : Cond)
  deriving Repr, Inhabited

def Cond.holds (p : Port) (s : InstState) : Cond → Bool
  | .stateIs st => decide (p.st = st.toP)
  | .slaveOnly => s.dflt.slaveOnly
  | .masterOnly => p.cfg.masterOnly
  | .not c => !(c.holds p s)
  | .and a b => a.holds p s && b.holds p s
  | .or a b => a.holds p s || b.holds p s

inductive Act | receiptRand | announceZero | syncZero
  deriving DecidableEq, Repr, Inhabited

def Act.out : Act → Out
  | .receiptRand => .reset .receipt .rand
  | .announceZero => .reset .announce (.exact 0)
  | .syncZero => .reset .sync (.exact 0)

/-- `force`: `set_forced_port_state(S)` unless the port is in `S` already -/
structure Branch where
  force : Option St
  acts : List Act
  deriving Repr, Inhabited

def Branch.eval (b : Branch) (p : Port) : Port × List Out :=
  match b.force with
  | some st =>
    if p.st ≠ st.toP then ((p.setState st.toP).1, (p.setState st.toP).2 ++ b.acts.map Act.out)
    else (p, b.acts.map Act.out)
  | none => (p, b.acts.map Act.out)

structure Table where
  early : List (Cond × Branch)       -- `if c { …; return actions![…]; }` in order
  cond : Cond
  thenB : Branch
  elseB : Branch
  deriving Repr, Inhabited

def evalEarly (p : Port) (s : InstState) : List (Cond × Branch) → Option (Port × List Out)
  | [] => none
  | (c, b) :: rest => if c.holds p s then some (b.eval p) else evalEarly p s rest

def evalReceipt (t : Table) (p : Port) (s : InstState) : Port × List Out :=
  match evalEarly p s t.early with
  | some r => r
  | none => if t.cond.holds p s then t.thenB.eval p else t.elseB.eval p

end Statime.RcptGen
