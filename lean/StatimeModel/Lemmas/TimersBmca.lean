import StatimeModel.Lemmas.Timers
import StatimeModel.Lemmas.InstanceInv
/-
Timer discipline of the BMCA run (C12): the pending actions a port is handed at the end of a BMCA run re-arm
what its new state waits on.
-/
namespace Statime

theorem rearm_mono {p p' : Port} {outs outs' : List Out} {f : Option Timer} (h : Rearm p p' outs f)
    (hsub : ∀ o ∈ outs, o ∈ outs') : Rearm p p' outs' f := by
  intro k hk
  rcases h k hk with h1 | ⟨d, hd⟩ | h3
  · exact Or.inl h1
  · exact Or.inr (Or.inl ⟨d, hsub _ hd⟩)
  · exact Or.inr (Or.inr h3)

/-- the state decision of one port: the new state's timers are in the pending actions -/
theorem portMove_rearm (p : Port) (r : Recommended) (d : DefaultDS) (st : PState) (pd : Option (List Out))
    (h : portMove p r d = some (st, pd)) : Rearm p (p.setState st).1 (pd.getD []) none := by
  intro k hk
  cases r <;> cases hst : p.st <;> cases hso : d.slaveOnly <;> cases hmp : p.multiportDisable <;>
    simp [portMove, hst, hso, hmp] at h <;>
    (try (obtain ⟨rfl, rfl⟩ := h)) <;>
    (try (obtain ⟨_, rfl, rfl⟩ := h)) <;>
    cases k <;>
    simp_all [Port.needs, Port.setState, PState.isSlave, PState.isMaster]

theorem setRecommendedState_rearm (p p1 : Port) (r : Recommended) (s s1 : InstState) (e : List Out) (pd : Option (List Out))
    (h : p.setRecommendedState r s = .ok (p1, s1, e, pd)) : Rearm p p1 (pd.getD []) none := by
  unfold Port.setRecommendedState at h
  obtain ⟨v, hv, h2⟩ := bindR_ok _ _ _ h
  obtain ⟨pp, ev, pend⟩ := v
  have hport : Rearm p pp (pend.getD []) none := by
    unfold Port.setRecommendedPortState at hv
    split at hv
    · cases hv
    · cases hm : portMove p r s.dflt with
      | none =>
        rw [hm] at hv
        simp only [Except.ok.injEq, Prod.mk.injEq] at hv
        rw [← hv.1, ← hv.2.2]; exact rearm_refl p _
      | some v2 =>
        obtain ⟨st, pd'⟩ := v2
        rw [hm] at hv
        simp only [Except.ok.injEq, Prod.mk.injEq] at hv
        rw [← hv.1, ← hv.2.2]; exact portMove_rearm p r s.dflt st pd' hm
  cases r with
  | m1 dd | m2 dd =>
    simp only [Except.ok.injEq, Prod.mk.injEq] at h2
    rw [← h2.1, ← h2.2.2.2]; exact hport
  | m3 aa | p1 aa | p2 aa =>
    simp only [Except.ok.injEq, Prod.mk.injEq] at h2
    rw [← h2.1, ← h2.2.2.2]; exact hport
  | s1 a =>
    simp only at h2
    obtain ⟨s2, _, h3⟩ := bindR_ok _ _ _ h2
    simp only [Except.ok.injEq, Prod.mk.injEq] at h3
    rw [← h3.1, ← h3.2.2.2]; exact hport

theorem lookup_filter_append_self {α} (pend : List (Nat × α)) (k : Nat) (a : α) :
    ((pend.filter (fun x => x.1 ≠ k)) ++ [(k, a)]).lookup k = some a := by
  induction pend with
  | nil => simp [List.lookup]
  | cons x xs ih =>
    obtain ⟨x1, x2⟩ := x
    by_cases hx : x1 = k
    · subst hx; simpa [List.filter_cons] using ih
    · have : (k == x1) = false := by simp; exact fun e => hx e.symm
      simp only [List.filter_cons, ne_eq, hx, not_false_eq_true, decide_true, if_true, List.cons_append, List.lookup, this]
      exact ih

theorem lookup_filter_append_other {α} (pend : List (Nat × α)) (k x : Nat) (a : α) (hx : x ≠ k) :
    ((pend.filter (fun y => y.1 ≠ k)) ++ [(k, a)]).lookup x = pend.lookup x := by
  induction pend with
  | nil =>
    have : (x == k) = false := by simp [hx]
    simp [List.lookup, this]
  | cons y ys ih =>
    obtain ⟨y1, y2⟩ := y
    by_cases hy : y1 = k
    · subst hy
      have : (x == y1) = false := by simp [hx]
      simp only [List.filter_cons, ne_eq, not_true_eq_false, decide_false, Bool.false_eq_true, if_false, List.lookup, this]
      exact ih
    · simp only [List.filter_cons, ne_eq, hy, not_false_eq_true, decide_true, if_true, List.cons_append, List.lookup]
      cases hh : (x == y1) with
      | true => rfl
      | false => exact ih

/-- phase 2 of the BMCA run, timers: for every port that got a decision, the pending actions it ends up with re-arm
what its new state waits on; ports outside `order` keep their state and their pending actions -/
theorem bmcaApply_rearm (ebest : Option Best) (lbs : List (Nat × Option Best)) :
    ∀ (order : List Nat), order.Nodup → ∀ (ports : List Port) (s : InstState) (ev : Obs) (pend : List (Nat × List Out))
      (ports' : List Port) (s' : InstState) (ev' : Obs) (pend' : List (Nat × List Out)),
      bmcaApply ebest lbs order ports s ev pend = .ok (ports', s', ev', pend') →
      (∀ x, x ∉ order → pend'.lookup x = pend.lookup x) ∧
      (∀ (j : Nat) (p : Port), ports[j]? = some p → ∃ p', ports'[j]? = some p' ∧
        (j + 1 ∈ order → ∀ base, (∀ o ∈ ((pend.lookup (j + 1)).getD []), o ∈ base) →
            Rearm p p' (((pend'.lookup (j + 1)).getD []) ++ base) none) ∧
        (j + 1 ∉ order → p' = p)) := by
  intro order
  induction order with
  | nil =>
    intro _ ports s ev pend ports' s' ev' pend' h
    simp only [bmcaApply, Except.ok.injEq, Prod.mk.injEq] at h
    obtain ⟨rfl, rfl, rfl, rfl⟩ := h
    exact ⟨fun _ _ => rfl, fun j p hp => ⟨p, hp, (by intro h; cases h), fun _ => rfl⟩⟩
  | cons k rest ih =>
    intro hnd ports s ev pend ports' s' ev' pend' h
    have hnd' : rest.Nodup := (List.nodup_cons.1 hnd).2
    have hk_notin : k ∉ rest := (List.nodup_cons.1 hnd).1
    simp only [bmcaApply] at h
    cases hk : portAt ports k with
    | none =>
      rw [hk] at h
      simp only at h
      obtain ⟨a1, a2⟩ := ih hnd' ports s ev pend ports' s' ev' pend' h
      refine ⟨fun x hx => a1 x (fun hh => hx (List.mem_cons_of_mem _ hh)), ?_⟩
      intro j p hp
      obtain ⟨p', hp', b1, b2⟩ := a2 j p hp
      have hjk : j + 1 ≠ k := by
        intro e; subst e; rw [portAt_succ, hp] at hk; cases hk
      refine ⟨p', hp', ?_, ?_⟩
      · intro hm
        rcases List.mem_cons.1 hm with e | e
        · exact absurd e hjk
        · exact b1 e
      · intro hm; exact b2 (fun hh => hm (List.mem_cons_of_mem _ hh))
    | some p0 =>
      rw [hk] at h
      simp only at h
      obtain ⟨k1, hkl, hkg⟩ := portAt_some hk
      cases hrec : recommend s.dflt ebest ((lbs.lookup k).getD none) (decide (p0.st = .listening)) with
      | none =>
        rw [hrec] at h
        simp only at h
        obtain ⟨a1, a2⟩ := ih hnd' ports s ev pend ports' s' ev' pend' h
        refine ⟨fun x hx => a1 x (fun hh => hx (List.mem_cons_of_mem _ hh)), ?_⟩
        intro j p hp
        obtain ⟨p', hp', b1, b2⟩ := a2 j p hp
        by_cases hjk : j + 1 = k
        · have hnotin : j + 1 ∉ rest := by rw [hjk]; exact hk_notin
          have hpp := b2 hnotin
          refine ⟨p', hp', ?_, ?_⟩
          · intro _ base _; rw [hpp]; exact rearm_refl p _
          · intro hm; exact absurd (by rw [hjk]; exact List.mem_cons_self) hm
        · refine ⟨p', hp', ?_, ?_⟩
          · intro hm
            rcases List.mem_cons.1 hm with e | e
            · exact absurd e hjk
            · exact b1 e
          · intro hm; exact b2 (fun hh => hm (List.mem_cons_of_mem _ hh))
      | some r =>
        rw [hrec] at h
        simp only [bind, Except.bind] at h
        cases hset : p0.setRecommendedState r s with
        | error er => rw [hset] at h; cases h
        | ok v =>
          obtain ⟨p1, s1, e1, pd1⟩ := v
          rw [hset] at h
          simp only at h
          have hre := setRecommendedState_rearm p0 p1 r s s1 e1 pd1 hset
          obtain ⟨a1, a2⟩ := ih hnd' (setPort ports k p1) s1 _ _ ports' s' ev' pend' h
          refine ⟨?_, ?_⟩
          · intro x hx
            have hxk : x ≠ k := fun e => hx (by rw [e]; exact List.mem_cons_self)
            rw [a1 x (fun hh => hx (List.mem_cons_of_mem _ hh))]
            cases pd1 with
            | none => rfl
            | some a => exact lookup_filter_append_other pend k x a hxk
          · intro j p hp
            have hg := getElem?_setPort ports k p1 j k1 hkl
            by_cases hjk : j + 1 = k
            · have hj : j = k - 1 := by omega
              have hpe : p = p0 := by rw [hj, hkg] at hp; cases hp; rfl
              subst hpe
              have hnotin : j + 1 ∉ rest := by rw [hjk]; exact hk_notin
              rw [if_pos hjk] at hg
              obtain ⟨p', hp', _, b2⟩ := a2 j p1 hg
              have hpp := b2 hnotin
              refine ⟨p', hp', ?_, ?_⟩
              · intro _ base hbase
                rw [hpp, a1 (j + 1) hnotin]
                cases pd1 with
                | none =>
                  simp only [Option.getD_none] at hre
                  exact rearm_mono hre (by intro o ho; cases ho)
                | some a =>
                  rw [hjk, lookup_filter_append_self]
                  simp only [Option.getD_some] at hre ⊢
                  exact rearm_mono hre (fun o ho => List.mem_append_left _ ho)
              · intro hni; exact absurd (by rw [hjk]; exact List.mem_cons_self) hni
            · rw [if_neg hjk] at hg
              obtain ⟨p', hp', b1, b2⟩ := a2 j p (by rw [hg]; exact hp)
              refine ⟨p', hp', ?_, ?_⟩
              · intro hm base hbase
                rcases List.mem_cons.1 hm with e | e
                · exact absurd e hjk
                · apply b1 e base
                  intro o ho
                  apply hbase
                  cases pd1 with
                  | none => exact ho
                  | some a =>
                    simp only at ho
                    rw [lookup_filter_append_other pend k (j + 1) a hjk] at ho
                    exact ho
              · intro hm; exact b2 (fun hh => hm (List.mem_cons_of_mem _ hh))

end Statime
