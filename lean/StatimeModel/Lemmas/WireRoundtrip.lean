import StatimeModel.Lemmas.WireBasic
import StatimeModel.Lemmas.TimeBasic
/-
Round trip `decode (encode m) = m` for well-formed messages, and well-formedness
of everything `decode` returns.
-/
namespace Statime

def PortId.WF (p : PortId) : Prop := p.clock < 18446744073709551616 ∧ p.port < 65536
def WireTs.WF (t : WireTs) : Prop := t.secs < 281474976710656 ∧ t.nanos < 4294967296
def Header.WF (h : Header) : Prop :=
  h.sdoId < 4096 ∧ h.verMajor < 16 ∧ h.verMinor < 16 ∧ h.domain < 256 ∧
  (-9223372036854775808 ≤ h.correction ∧ h.correction < 9223372036854775808) ∧ h.src.WF ∧ h.seq < 65536 ∧
  (-128 ≤ h.logInterval ∧ h.logInterval < 128)

def AnnounceBody.WF (a : AnnounceBody) : Prop :=
  a.origin.WF ∧ (-32768 ≤ a.utcOffset ∧ a.utcOffset < 32768) ∧ a.p1 < 256 ∧ a.clockClass < 256 ∧
  (a.accuracy < 256 ∧ normAccuracy a.accuracy = a.accuracy) ∧ a.variance < 65536 ∧ a.p2 < 256 ∧
  a.gm < 18446744073709551616 ∧ a.steps < 65536 ∧ a.timeSource < 256

def Body.WF : Body → Prop
  | .sync o => o.WF
  | .delayReq o => o.WF
  | .pdelayReq o => o.WF
  | .followUp o => o.WF
  | .pdelayResp rx req => rx.WF ∧ req.WF
  | .delayResp rx req => rx.WF ∧ req.WF
  | .pdelayRespFu o req => o.WF ∧ req.WF
  | .signaling t => t.WF
  | .management t s h a => t.WF ∧ s < 256 ∧ h < 256 ∧ a ≤ 5
  | .announce a => a.WF

/-- a message `encode` can represent faithfully: fields in range, TLV suffix
parseable, total size representable in the 16-bit `messageLength` -/
def Msg.WF (m : Msg) : Prop :=
  m.header.WF ∧ m.body.WF ∧ tlvCheck m.suffix.length m.suffix = .ok () ∧ m.wireSize < 65536

theorem flags0_roundtrip (f : Flags) :
    bit (flagByte0 f % 256) 0 = f.alternateMaster ∧ bit (flagByte0 f % 256) 1 = f.twoStep ∧
    bit (flagByte0 f % 256) 2 = f.unicast ∧ bit (flagByte0 f % 256) 5 = f.profile1 ∧
    bit (flagByte0 f % 256) 6 = f.profile2 := by
  rcases f with ⟨a, b, c, d, e, _, _, _, _, _, _, _⟩
  cases a <;> cases b <;> cases c <;> cases d <;> cases e <;> simp [flagByte0, b2n, bit]

theorem flags1_roundtrip (f : Flags) :
    bit (flagByte1 f % 256) 0 = f.leap61 ∧ bit (flagByte1 f % 256) 1 = f.leap59 ∧
    bit (flagByte1 f % 256) 2 = f.utcValid ∧ bit (flagByte1 f % 256) 3 = f.ptpTimescale ∧
    bit (flagByte1 f % 256) 4 = f.timeTraceable ∧ bit (flagByte1 f % 256) 5 = f.freqTraceable ∧
    bit (flagByte1 f % 256) 6 = f.syncUncertain := by
  rcases f with ⟨_, _, _, _, _, a, b, c, d, e, g, h⟩
  cases a <;> cases b <;> cases c <;> cases d <;> cases e <;> cases g <;> cases h <;>
    simp [flagByte1, b2n, bit]

theorem ofSigned64_lt (x : Int) : ofSigned 64 x < 18446744073709551616 := by
  unfold ofSigned
  have e : (2:Nat)^64 = 18446744073709551616 := by decide
  rw [e]; omega

theorem toSigned_ofSigned_64' (x : Int) (h : -9223372036854775808 ≤ x ∧ x < 9223372036854775808) :
    toSigned 64 (ofSigned 64 x) = x :=
  toSigned_ofSigned_64 x (by rw [inI64_iff]; exact h)

theorem toSigned_ofSigned_8 (x : Int) (h : -128 ≤ x ∧ x < 128) : toSigned 8 (ofSigned 8 x % 256) = x := by
  unfold toSigned ofSigned
  have e : (2:Nat)^8 = 256 := by decide
  have e2 : (2:Nat)^(8-1) = 128 := by decide
  rw [e, e2]
  split <;> omega

theorem toSigned_ofSigned_16 (x : Int) (h : -32768 ≤ x ∧ x < 32768) :
    toSigned 16 (ofSigned 16 x / 256 % 256 * 256 + ofSigned 16 x % 256) = x := by
  unfold toSigned ofSigned
  have e : (2:Nat)^16 = 65536 := by decide
  have e2 : (2:Nat)^(16-1) = 32768 := by decide
  rw [e, e2]
  split <;> omega

theorem readHeader_writeHeader (h : Header) (ty : MsgType) (n : Nat) (rest : List UInt8) (hw : h.WF) :
    readHeader (writeHeader h ty n ++ rest) = h := by
  obtain ⟨h1, h2, h3, h4, h5, ⟨h6, h7⟩, h8, h9⟩ := hw
  have hn : ty.toNibble < 16 := by cases ty <;> decide
  have f0 := flags0_roundtrip h.flags
  have f1 := flags1_roundtrip h.flags
  have hc := ofSigned64_lt h.correction
  have hcs := toSigned_ofSigned_64' h.correction h5
  have hl := toSigned_ofSigned_8 h.logInterval h9
  unfold readHeader readFlags readPortId writeHeader writePortId
  simp only [beBytes, List.nil_append, List.cons_append, beVal, byteAt_cons_succ, byteAt_cons_zero,
    Nat.zero_add, Nat.add_zero, Nat.zero_mul, UInt8.toNat_ofNat', Nat.reducePow]
  rcases h with ⟨sdo, vM, vm, dom, fl, corr, ⟨clk, prt⟩, seq, li⟩
  simp only at h1 h2 h3 h4 h5 h6 h7 h8 h9 f0 f1 hc hcs hl
  have e0 : flagByte0 fl % 256 % 256 = flagByte0 fl % 256 := Nat.mod_mod _ _
  have e1 : flagByte1 fl % 256 % 256 = flagByte1 fl % 256 := Nat.mod_mod _ _
  simp only [Header.mk.injEq, PortId.mk.injEq]
  refine ⟨by omega, by omega, by omega, by omega, ?_, ?_, ⟨by omega, by omega⟩, by omega, ?_⟩
  · rcases fl with ⟨a, b, c, d, e, f, g, i, j, k, l, m⟩
    simp only at f0 f1
    simp only [Flags.mk.injEq]
    exact ⟨f0.1, f0.2.1, f0.2.2.1, f0.2.2.2.1, f0.2.2.2.2, f1.1, f1.2.1, f1.2.2.1, f1.2.2.2.1,
      f1.2.2.2.2.1, f1.2.2.2.2.2.1, f1.2.2.2.2.2.2⟩
  · generalize ofSigned 64 corr = v at hc hcs ⊢
    have : (((((((v / 256 / 256 / 256 / 256 / 256 / 256 / 256 % 256 % 256 * 256 +
        v / 256 / 256 / 256 / 256 / 256 / 256 % 256 % 256) * 256 +
        v / 256 / 256 / 256 / 256 / 256 % 256 % 256) * 256 + v / 256 / 256 / 256 / 256 % 256 % 256) * 256 +
        v / 256 / 256 / 256 % 256 % 256) * 256 + v / 256 / 256 % 256 % 256) * 256 + v / 256 % 256 % 256) * 256 +
        v % 256 % 256) = v := by omega
    rw [this]; exact hcs
  · exact hl

end Statime

namespace Statime

theorem readBody_writeBody (body : Body) (rest : List UInt8) (hw : body.WF) :
    readBody body.type (writeBody body ++ rest) = .ok body := by
  unfold readBody
  have hl : ¬ (writeBody body ++ rest).length < body.type.bodySize := by
    rw [List.length_append, writeBody_length]; omega
  rw [if_neg hl]
  congr 1
  cases body with
  | sync o | delayReq o | followUp o =>
    obtain ⟨h1, h2⟩ := hw
    rcases o with ⟨s, n⟩
    simp only [Body.type, writeBody, writeTs, readTs, beBytes, List.nil_append, List.cons_append,
      beVal, byteAt_cons_succ, byteAt_cons_zero, Nat.zero_add, Nat.add_zero, Nat.zero_mul, UInt8.toNat_ofNat',
      Nat.reducePow, Body.sync.injEq, Body.delayReq.injEq, Body.followUp.injEq, WireTs.mk.injEq]
    simp only at h1 h2
    constructor <;> omega
  | pdelayReq o =>
    obtain ⟨h1, h2⟩ := hw
    rcases o with ⟨s, n⟩
    simp only [Body.type, writeBody, writeTs, readTs, beBytes, List.nil_append, List.cons_append,
      beVal, byteAt_cons_succ, byteAt_cons_zero, Nat.zero_add, Nat.add_zero, Nat.zero_mul, UInt8.toNat_ofNat',
      Nat.reducePow, Body.pdelayReq.injEq, WireTs.mk.injEq]
    simp only at h1 h2
    constructor <;> omega
  | pdelayResp o r | delayResp o r | pdelayRespFu o r =>
    obtain ⟨⟨h1, h2⟩, h3, h4⟩ := hw
    rcases o with ⟨s, n⟩
    rcases r with ⟨c, p⟩
    simp only [Body.type, writeBody, writeTs, writePortId, readTs, readPortId, beBytes, List.nil_append, List.cons_append,
      beVal, byteAt_cons_succ, byteAt_cons_zero, Nat.zero_add, Nat.add_zero, Nat.zero_mul,
      UInt8.toNat_ofNat', Nat.reducePow, Body.pdelayResp.injEq, Body.delayResp.injEq, Body.pdelayRespFu.injEq,
      WireTs.mk.injEq, PortId.mk.injEq]
    simp only at h1 h2 h3 h4
    refine ⟨⟨?_, ?_⟩, ?_, ?_⟩ <;> omega
  | signaling r =>
    obtain ⟨h3, h4⟩ := hw
    rcases r with ⟨c, p⟩
    simp only [Body.type, writeBody, writePortId, readPortId, beBytes, List.nil_append, List.cons_append,
      beVal, byteAt_cons_succ, byteAt_cons_zero, Nat.zero_add, Nat.add_zero, Nat.zero_mul,
      UInt8.toNat_ofNat', Nat.reducePow, Body.signaling.injEq, PortId.mk.injEq]
    simp only at h3 h4
    constructor <;> omega
  | management r s h a =>
    obtain ⟨⟨h3, h4⟩, h5, h6, h7⟩ := hw
    rcases r with ⟨c, p⟩
    simp only [Body.type, writeBody, writePortId, readPortId, beBytes, List.nil_append, List.cons_append,
      beVal, byteAt_cons_succ, byteAt_cons_zero, Nat.zero_add, Nat.add_zero, Nat.zero_mul,
      UInt8.toNat_ofNat', Nat.reducePow, Body.management.injEq, PortId.mk.injEq]
    simp only at h3 h4
    have ha : normAction (a % 256 % 16) = a := by
      unfold normAction
      have : a % 256 % 16 = a := by omega
      rw [this]; split <;> omega
    refine ⟨⟨?_, ?_⟩, ?_, ?_, ha⟩ <;> omega
  | announce a =>
    obtain ⟨⟨h1, h2⟩, h3, h4, h5, ⟨h6, h6'⟩, h7, h8, h9, h10, h11⟩ := hw
    rcases a with ⟨⟨s, n⟩, utc, p1, cc, acc, var, p2, gm, st, tsrc⟩
    have hu := toSigned_ofSigned_16 utc h3
    simp only [Body.type, writeBody, writeTs, readTs, beBytes, List.nil_append, List.cons_append,
      beVal, byteAt_cons_succ, byteAt_cons_zero, Nat.zero_add, Nat.add_zero, Nat.zero_mul,
      UInt8.toNat_ofNat', Nat.reducePow, Body.announce.injEq, AnnounceBody.mk.injEq, WireTs.mk.injEq]
    simp only at h1 h2 h4 h5 h6 h6' h7 h8 h9 h10 h11
    have hacc : normAccuracy (acc % 256) = acc := by
      have : acc % 256 = acc := by omega
      rw [this]; exact h6'
    have hu' : toSigned 16 (ofSigned 16 utc / 256 % 256 % 256 * 256 + ofSigned 16 utc % 256 % 256) = utc := by
      have : ofSigned 16 utc / 256 % 256 % 256 * 256 + ofSigned 16 utc % 256 % 256 =
          ofSigned 16 utc / 256 % 256 * 256 + ofSigned 16 utc % 256 := by omega
      rw [this]; exact hu
    refine ⟨⟨?_, ?_⟩, hu', ?_, ?_, hacc, ?_, ?_, ?_, ?_, ?_⟩ <;> omega

theorem drop_writeBody (body : Body) (rest : List UInt8) :
    (writeBody body ++ rest).drop body.type.bodySize = rest := by
  rw [← writeBody_length body]
  exact List.drop_left

end Statime

namespace Statime

/-- **round trip**: a well-formed message survives `encode` then `decode` -/
theorem decode_encode (m : Msg) (hw : m.WF) : decode (encode m) = .ok m := by
  obtain ⟨hh, hb, ht, hs⟩ := hw
  have hlen := encode_length m
  have hsz : 34 ≤ m.wireSize := by unfold Msg.wireSize; omega
  have hnib : m.body.type.toNibble < 16 := by cases m.body.type <;> decide
  have hsdo := hh.1
  -- pieces of `decode`
  have p0 : byteAt (encode m) 0 % 16 = m.body.type.toNibble := by
    unfold encode writeHeader
    simp only [List.cons_append, List.append_assoc, byteAt_cons_zero, UInt8.toNat_ofNat', Nat.reducePow]
    omega
  have pl : declaredLen (encode m) = m.wireSize := by
    unfold declaredLen encode writeHeader
    simp only [beBytes, List.nil_append, List.cons_append, List.append_assoc, beVal, byteAt_cons_succ,
      byteAt_cons_zero, Nat.zero_add, Nat.add_zero, Nat.zero_mul, UInt8.toNat_ofNat', Nat.reducePow]
    omega
  have pc : ((encode m).take (declaredLen (encode m))).drop 34 = writeBody m.body ++ m.suffix := by
    rw [pl, ← hlen, List.take_length]
    unfold encode
    rw [List.append_assoc, ← writeHeader_length m.header m.body.type m.wireSize]
    exact List.drop_left
  have ph : readHeader (encode m) = m.header := by
    unfold encode
    rw [List.append_assoc]
    exact readHeader_writeHeader _ _ _ _ hh
  unfold decode
  rw [p0, pc, ph, pl, hlen]
  have d1 : decide (m.wireSize < 34) = false := by simp; omega
  have d2 : decide (m.wireSize < m.wireSize) = false := by simp
  rw [d1, d2]
  unfold decodeAux
  have hn : MsgType.ofNibble m.body.type.toNibble = some m.body.type := by cases m.body.type <;> rfl
  simp only [Bool.false_eq_true, if_false, hn]
  rw [if_neg (by omega), readBody_writeBody _ _ hb]
  simp only [drop_writeBody, ht]

theorem readTs_WF (c : List UInt8) (i : Nat) : (readTs c i).WF :=
  ⟨beVal_lt c i 6, beVal_lt c (i + 6) 4⟩

theorem readPortId_WF (c : List UInt8) (i : Nat) : (readPortId c i).WF :=
  ⟨beVal_lt c i 8, beVal_lt c (i + 8) 2⟩

theorem toSigned64_range (v : Nat) (hv : v < 256 ^ 8) :
    -9223372036854775808 ≤ toSigned 64 v ∧ toSigned 64 v < 9223372036854775808 := by
  unfold toSigned
  have e : (2:Nat)^64 = 18446744073709551616 := by decide
  have e2 : (2:Nat)^(64-1) = 9223372036854775808 := by decide
  have e3 : (256:Nat)^8 = 18446744073709551616 := by decide
  rw [e, e2]; rw [e3] at hv
  split <;> omega

theorem toSigned16_range (v : Nat) (hv : v < 256 ^ 2) : -32768 ≤ toSigned 16 v ∧ toSigned 16 v < 32768 := by
  unfold toSigned
  have e : (2:Nat)^16 = 65536 := by decide
  have e2 : (2:Nat)^(16-1) = 32768 := by decide
  have e3 : (256:Nat)^2 = 65536 := by decide
  rw [e, e2]; rw [e3] at hv
  split <;> omega

theorem toSigned8_range (v : Nat) (hv : v < 256) : -128 ≤ toSigned 8 v ∧ toSigned 8 v < 128 := by
  unfold toSigned
  have e : (2:Nat)^8 = 256 := by decide
  have e2 : (2:Nat)^(8-1) = 128 := by decide
  rw [e, e2]
  split <;> omega

theorem normAccuracy_idem (v : Nat) : normAccuracy (normAccuracy v) = normAccuracy v := by
  unfold normAccuracy
  split
  · rename_i h; simp [h]
  · simp

theorem normAccuracy_lt (v : Nat) (h : v < 256) : normAccuracy v < 256 := by
  unfold normAccuracy; split <;> omega

theorem normAction_le (v : Nat) : normAction v ≤ 5 := by
  unfold normAction; split <;> omega

/-- everything `decode` returns is well-formed -/
theorem decode_WF {b : List UInt8} {m : Msg} (h : decode b = .ok m) (hb : b.length < 65536) : m.WF := by
  obtain ⟨ty, body, _, _, h34, hle, hbody, htlv, hm⟩ := decode_inv h
  obtain ⟨hsz, hbt⟩ := readBody_inv hbody
  have hc := contentOf_length h34 hle
  subst hm
  refine ⟨?_, ?_, htlv, ?_⟩
  · -- header
    have s64 := toSigned64_range (beVal b 8 8) (beVal_lt b 8 8)
    have s8 := toSigned8_range (byteAt b 33) (byteAt_lt b 33)
    have b0 := byteAt_lt b 0
    have b1 := byteAt_lt b 1
    have b4 := byteAt_lt b 4
    have b5 := byteAt_lt b 5
    have v30 := beVal_lt b 30 2
    exact ⟨by simp only [readHeader]; omega, by simp only [readHeader]; omega, by simp only [readHeader]; omega,
      b4, s64, readPortId_WF b 20, v30, s8⟩
  · -- body
    unfold readBody at hbody
    rw [if_neg (by omega)] at hbody
    injection hbody with hbody
    subst hbody
    cases ty
    case sync => exact readTs_WF _ _
    case delayReq => exact readTs_WF _ _
    case pdelayReq => exact readTs_WF _ _
    case followUp => exact readTs_WF _ _
    case pdelayResp => exact ⟨readTs_WF _ _, readPortId_WF _ _⟩
    case delayResp => exact ⟨readTs_WF _ _, readPortId_WF _ _⟩
    case pdelayRespFu => exact ⟨readTs_WF _ _, readPortId_WF _ _⟩
    case signaling => exact readPortId_WF _ _
    case management => exact ⟨readPortId_WF _ _, byteAt_lt _ _, byteAt_lt _ _, normAction_le _⟩
    case announce =>
      have s16 := toSigned16_range (beVal (contentOf b) 10 2) (beVal_lt _ 10 2)
      exact ⟨readTs_WF _ _, s16, byteAt_lt _ _, byteAt_lt _ _,
        ⟨normAccuracy_lt _ (byteAt_lt _ _), normAccuracy_idem _⟩, beVal_lt _ 16 2, byteAt_lt _ _,
        beVal_lt _ 19 8, beVal_lt _ 27 2, byteAt_lt _ _⟩
  · -- size
    simp only [Msg.wireSize, hbt, List.length_drop, hc]
    omega

end Statime
