import StatimeModel.Lemmas.Frames
/-
Timer discipline (C12): which timers a port waits on in each state, and that every handler that moves a
port into a state re-arms what that state waits on.
-/
namespace Statime

/-- the port's state after a slave-side handler: unchanged, still Slave, newly Faulty, or recovering from Faulty -/
def StRel (p p' : Port) : Prop :=
  p'.st = p.st ∨ (p.st.isSlave = true ∧ p'.st.isSlave = true) ∨ p'.st = .faulty ∨ (p.st = .faulty ∧ p'.st = .listening)

def Out.isReset : Out → Bool
  | .reset .. => true
  | _ => false

/-- a slave-side handler call: the state relation above, and no timer is touched -/
def Calm (p p' : Port) (outs : List Out) : Prop := StRel p p' ∧ ∀ o ∈ outs, o.isReset = false

theorem calm_refl (p : Port) : Calm p p [] := ⟨Or.inl rfl, (by intro o ho; cases ho)⟩

theorem setState_faulty_calm (p : Port) : Calm p (p.setState .faulty).1 (p.setState .faulty).2 := by
  refine ⟨Or.inr (Or.inr (Or.inl rfl)), ?_⟩
  intro o ho
  simp only [Port.setState] at ho
  split at ho
  · simp only [List.mem_singleton] at ho; subst ho; rfl
  · cases ho

theorem extract_calm (p p' : Port) (m : Option Measurement) (o : List Out) (h : p.extract = .ok (p', m, o)) : StRel p p' := by
  unfold Port.extract at h
  split at h
  · obtain ⟨mm, h1, h2⟩ := orOv_ok _ _ _ h
    split at h2
    · rename_i hf
      simp only [Port.setState, Except.ok.injEq, Prod.mk.injEq] at h2
      rw [← h2.1]
      exact Or.inr (Or.inr (Or.inr ⟨hf, rfl⟩))
    · simp only [Except.ok.injEq, Prod.mk.injEq] at h2
      rw [← h2.1]; exact Or.inl rfl
  · unfold Port.extractSlave at h
    cases hst : p.st with
    | slave remote sy dl last =>
      have hsl : p.st.isSlave = true := by rw [hst]; rfl
      rw [hst] at h
      simp only at h
      split at h
      · obtain ⟨rm, _, h2⟩ := orOv_ok _ _ _ h
        simp only [Except.ok.injEq, Prod.mk.injEq] at h2
        rw [← h2.1]; exact Or.inr (Or.inl ⟨hsl, rfl⟩)
      · split at h
        · obtain ⟨rm, _, h2⟩ := orOv_ok _ _ _ h
          simp only [Except.ok.injEq, Prod.mk.injEq] at h2
          rw [← h2.1]; exact Or.inr (Or.inl ⟨hsl, rfl⟩)
        · simp only [Except.ok.injEq, Prod.mk.injEq] at h
          rw [← h.1]; exact Or.inl rfl
    | faulty | listening | master | passive =>
      rw [hst] at h
      simp only [Except.ok.injEq, Prod.mk.injEq] at h
      rw [← h.1]; exact Or.inl rfl

theorem timeMeasurement_calm (p p' : Port) (outs : List Out) (h : p.timeMeasurement = .ok (p', outs)) : Calm p p' outs := by
  obtain ⟨p1, m, o1, hex, hm⟩ := timeMeasurement_spec p p' outs h
  have hc := extract_calm p p1 m o1 hex
  obtain ⟨_, _, r3, _⟩ := extract_roles p p1 m o1 hex
  have g1 : ∀ o ∈ o1, o.isReset = false := by intro o ho; rw [r3 o ho]; rfl
  cases m with
  | none =>
    simp only at hm
    rw [hm.1, hm.2]; exact ⟨hc, g1⟩
  | some mm =>
    simp only at hm
    have : p'.st = p1.st := by
      rw [hm.2]; split <;> rfl
    refine ⟨?_, ?_⟩
    · unfold StRel at hc ⊢
      rw [this]; exact hc
    · rw [hm.1]
      intro o ho
      rcases List.mem_append.1 ho with h1 | h1
      · exact g1 o h1
      · simp only [List.mem_singleton] at h1; subst h1; rfl

theorem timeMeasurement_withSlave_calm (p p' : Port) (remote : PortId) (sy : SyncSt) (dl : DelaySt) (last : Option Int)
    (outs : List Out) (hs : p.st.isSlave = true)
    (h : (p.withSlave remote sy dl last).timeMeasurement = .ok (p', outs)) : Calm p p' outs := by
  obtain ⟨hr, ho⟩ := timeMeasurement_calm _ _ _ h
  refine ⟨?_, ho⟩
  rcases hr with h1 | ⟨_, h1⟩ | h1 | h1
  · exact Or.inr (Or.inl ⟨hs, by rw [h1]; rfl⟩)
  · exact Or.inr (Or.inl ⟨hs, h1⟩)
  · exact Or.inr (Or.inr (Or.inl h1))
  · cases h1.1

theorem timeMeasurement_withPeer_calm (p p' : Port) (ps : PeerSt) (outs : List Out)
    (h : ({ p with peer := ps } : Port).timeMeasurement = .ok (p', outs)) : Calm p p' outs :=
  timeMeasurement_calm ({ p with peer := ps } : Port) p' outs h

theorem handleSync_calm (p p' : Port) (h : Header) (o : WireTs) (ts : Nat) (outs : List Out)
    (hr : p.handleSync h o ts = .ok (p', outs)) : Calm p p' outs := by
  unfold Port.handleSync at hr
  cases hst : p.st with
  | slave remote sy dl last =>
    have hs : p.st.isSlave = true := by rw [hst]; rfl
    rw [hst] at hr
    simp only at hr
    split at hr
    · simp only [Except.ok.injEq, Prod.mk.injEq] at hr; rw [← hr.1, ← hr.2]; exact calm_refl _
    · obtain ⟨c, _, hs2⟩ := orOv_ok _ _ _ hr
      unfold Port.syncStore at hs2
      have stay : (p', outs) = (p, []) → Calm p p' outs := by
        intro e; simp only [Prod.mk.injEq] at e; rw [e.1, e.2]; exact calm_refl _
      have store : ∀ sy1, (p', outs) = (p.withSlave remote sy1 dl last, []) →
          Calm p p' outs := by
        intro sy1 e; simp only [Prod.mk.injEq] at e; rw [e.1, e.2]
        exact ⟨Or.inr (Or.inl ⟨hs, rfl⟩), (by intro o ho; cases ho)⟩
      split at hs2
      · split at hs2
        · split at hs2
          · split at hs2
            · exact stay (Except.ok.inj hs2).symm
            · exact timeMeasurement_withSlave_calm p p' _ _ _ _ outs hs hs2
          · exact store _ (Except.ok.inj hs2).symm
        · exact store _ (Except.ok.inj hs2).symm
      · split at hs2
        · split at hs2
          · exact stay (Except.ok.inj hs2).symm
          · obtain ⟨s, _, hm⟩ := orOv_ok _ _ _ hs2
            exact timeMeasurement_withSlave_calm p p' _ _ _ _ outs hs hm
        · obtain ⟨s, _, hm⟩ := orOv_ok _ _ _ hs2
          exact timeMeasurement_withSlave_calm p p' _ _ _ _ outs hs hm
  | faulty | listening | master | passive =>
    rw [hst] at hr
    simp only [Except.ok.injEq, Prod.mk.injEq] at hr
    rw [← hr.1, ← hr.2]; exact calm_refl _

theorem handleFollowUp_calm (p p' : Port) (h : Header) (o : WireTs) (outs : List Out)
    (hr : p.handleFollowUp h o = .ok (p', outs)) : Calm p p' outs := by
  unfold Port.handleFollowUp at hr
  cases hst : p.st with
  | slave remote sy dl last =>
    have hs : p.st.isSlave = true := by rw [hst]; rfl
    rw [hst] at hr
    simp only at hr
    split at hr
    · simp only [Except.ok.injEq, Prod.mk.injEq] at hr; rw [← hr.1, ← hr.2]; exact calm_refl _
    · obtain ⟨t0, _, hr1⟩ := orOv_ok _ _ _ hr
      obtain ⟨s, _, hs2⟩ := orOv_ok _ _ _ hr1
      unfold Port.followUpStore at hs2
      split at hs2
      · split at hs2
        · split at hs2
          · simp only [Except.ok.injEq, Prod.mk.injEq] at hs2; rw [← hs2.1, ← hs2.2]; exact calm_refl _
          · exact timeMeasurement_withSlave_calm p p' _ _ _ _ outs hs hs2
        · exact timeMeasurement_withSlave_calm p p' _ _ _ _ outs hs hs2
      · exact timeMeasurement_withSlave_calm p p' _ _ _ _ outs hs hs2
  | faulty | listening | master | passive =>
    rw [hst] at hr
    simp only [Except.ok.injEq, Prod.mk.injEq] at hr
    rw [← hr.1, ← hr.2]; exact calm_refl _

theorem handleDelayResp_calm (p p' : Port) (h : Header) (rx : WireTs) (req : PortId) (outs : List Out)
    (hr : p.handleDelayResp h rx req = .ok (p', outs)) : Calm p p' outs := by
  unfold Port.handleDelayResp at hr
  have stay : (p', outs) = (p, []) → Calm p p' outs := by
    intro e; simp only [Prod.mk.injEq] at e; rw [e.1, e.2]; exact calm_refl _
  cases hst : p.st with
  | slave remote sy dl last =>
    have hs : p.st.isSlave = true := by rw [hst]; rfl
    rw [hst] at hr
    simp only at hr
    split at hr
    · exact stay (Except.ok.inj hr).symm
    · split at hr
      · split at hr
        · split at hr
          · exact stay (Except.ok.inj hr).symm
          · obtain ⟨t0, _, hr1⟩ := orOv_ok _ _ _ hr
            obtain ⟨r, _, hm⟩ := orOv_ok _ _ _ hr1
            exact timeMeasurement_withSlave_calm p p' _ _ _ _ outs hs hm
        · exact stay (Except.ok.inj hr).symm
      · exact stay (Except.ok.inj hr).symm
  | faulty | listening | master | passive =>
    rw [hst] at hr
    exact (by rw [← hst] at *; exact stay (Except.ok.inj hr).symm)

theorem handleDelayTs_calm (p p' : Port) (id ts : Nat) (outs : List Out)
    (hr : p.handleDelayTs id ts = .ok (p', outs)) : Calm p p' outs := by
  unfold Port.handleDelayTs at hr
  have stay : (p', outs) = (p, []) → Calm p p' outs := by
    intro e; simp only [Prod.mk.injEq] at e; rw [e.1, e.2]; exact calm_refl _
  split at hr
  · rename_i remote sy i send recv last hst
    have hs : p.st.isSlave = true := by rw [hst]; rfl
    split at hr
    · split at hr
      · exact stay (Except.ok.inj hr).symm
      · exact timeMeasurement_withSlave_calm p p' _ _ _ _ outs hs hr
    · exact stay (Except.ok.inj hr).symm
  · exact stay (Except.ok.inj hr).symm

theorem handlePdelayTs_calm (p p' : Port) (id ts : Nat) (outs : List Out)
    (hr : p.handlePdelayTs id ts = .ok (p', outs)) : Calm p p' outs := by
  unfold Port.handlePdelayTs at hr
  have stay : (p', outs) = (p, []) → Calm p p' outs := by
    intro e; simp only [Prod.mk.injEq] at e; rw [e.1, e.2]; exact calm_refl _
  split at hr
  · split at hr
    · split at hr
      · exact stay (Except.ok.inj hr).symm
      · exact timeMeasurement_withPeer_calm p p' _ outs hr
    · exact stay (Except.ok.inj hr).symm
  · exact stay (Except.ok.inj hr).symm

theorem handlePdelayResp_calm (p p' : Port) (h : Header) (rx : WireTs) (req : PortId) (ts : Nat) (outs : List Out)
    (hr : p.handlePdelayResp h rx req ts = .ok (p', outs)) : Calm p p' outs := by
  unfold Port.handlePdelayResp at hr
  have stay : (p', outs) = (p, []) → Calm p p' outs := by
    intro e; simp only [Prod.mk.injEq] at e; rw [e.1, e.2]; exact calm_refl _
  split at hr
  · exact stay (Except.ok.inj hr).symm
  · split at hr
    · exact stay (Except.ok.inj hr).symm
    · simp only [Except.ok.injEq] at hr
      have e1 : p' = (p.setState .faulty).1 := by rw [hr]
      have e2 : outs = (p.setState .faulty).2 := by rw [hr]
      rw [e1, e2]
      exact setState_faulty_calm p
    · split at hr
      · split at hr
        · exact stay (Except.ok.inj hr).symm
        · obtain ⟨rr, _, hr1⟩ := orOv_ok _ _ _ hr
          obtain ⟨rq, _, hm⟩ := orOv_ok _ _ _ hr1
          exact timeMeasurement_withPeer_calm p p' _ outs hm
      · exact stay (Except.ok.inj hr).symm

theorem handlePdelayRespFu_calm (p p' : Port) (h : Header) (o : WireTs) (req : PortId) (outs : List Out)
    (hr : p.handlePdelayRespFu h o req = .ok (p', outs)) : Calm p p' outs := by
  unfold Port.handlePdelayRespFu at hr
  have stay : (p', outs) = (p, []) → Calm p p' outs := by
    intro e; simp only [Prod.mk.injEq] at e; rw [e.1, e.2]; exact calm_refl _
  split at hr
  · exact stay (Except.ok.inj hr).symm
  · split at hr
    · exact stay (Except.ok.inj hr).symm
    · simp only [Except.ok.injEq] at hr
      have e1 : p' = (p.setState .faulty).1 := by rw [hr]
      have e2 : outs = (p.setState .faulty).2 := by rw [hr]
      rw [e1, e2]
      exact setState_faulty_calm p
    · split at hr
      · split at hr
        · exact stay (Except.ok.inj hr).symm
        · obtain ⟨t0, _, hr1⟩ := orOv_ok _ _ _ hr
          obtain ⟨s, _, hm⟩ := orOv_ok _ _ _ hr1
          exact timeMeasurement_withPeer_calm p p' _ outs hm
      · exact stay (Except.ok.inj hr).symm



/-! ### what a state waits on -/

/-- the timers only which can move a port on: a Listening port gets no BMCA decision while it has heard no qualified
master, so it depends on the announce receipt timeout; a Master on its announce and sync timers; a Slave on its delay
request timer. (Passive and Slave ports whose master falls silent are moved by the next BMCA run.) -/
def Port.needs (p : Port) : Timer → Bool
  | .receipt => decide (p.st = .listening)
  | .announce => p.st.isMaster
  | .sync => p.st.isMaster
  | .delay => p.st.isSlave
  | .filter => false

/-- one handler call re-arms what the new state waits on: every timer the port needs afterwards was needed before
(so it is armed, by the invariant) and is not the one that just fired, or is re-armed by the returned actions —
with one exception, the recovery of a port from a peer-delay fault (known finding). -/
def Rearm (p p' : Port) (outs : List Out) (fired : Option Timer) : Prop :=
  ∀ k, p'.needs k = true →
    (p.needs k = true ∧ fired ≠ some k) ∨ (∃ d, Out.reset k d ∈ outs) ∨ (p.st = .faulty ∧ p'.st = .listening)

theorem rearm_refl (p : Port) (outs : List Out) : Rearm p p outs none :=
  fun _ h => Or.inl ⟨h, by intro e; cases e⟩

theorem needs_congr (p p' : Port) (h : p'.st = p.st) (k : Timer) : p'.needs k = p.needs k := by
  cases k <;> simp [Port.needs, h]

theorem rearm_of_strel (p p' : Port) (outs : List Out) (h : StRel p p') : Rearm p p' outs none := by
  intro k hk
  rcases h with h | ⟨h1, h2⟩ | h | ⟨h1, h2⟩
  · exact Or.inl ⟨by rw [← needs_congr p p' h k]; exact hk, by intro e; cases e⟩
  · cases k with
    | receipt =>
      simp only [Port.needs, decide_eq_true_eq] at hk
      rw [hk] at h2; cases h2
    | announce | sync =>
      have hm := (isMaster_iff _).1 hk
      rw [hm] at h2; cases h2
    | delay => exact Or.inl ⟨h1, by intro e; cases e⟩
    | filter => cases hk
  · cases k <;> simp [Port.needs, h, PState.isMaster, PState.isSlave] at hk
  · exact Or.inr (Or.inr ⟨h1, h2⟩)

theorem rearm_of_calm (p p' : Port) (outs : List Out) (h : Calm p p' outs) : Rearm p p' outs none :=
  rearm_of_strel p p' outs h.1

/-- a transition into a state that waits on nothing -/
theorem rearm_of_idle (p p' : Port) (outs : List Out) (fired : Option Timer)
    (h : p'.st = .passive ∨ p'.st = .faulty) : Rearm p p' outs fired := by
  intro k hk
  rcases h with h | h <;> cases k <;> simp [Port.needs, h, PState.isMaster, PState.isSlave] at hk

theorem announceRegister_rearm (p : Port) (m : Msg) (a : Ann) :
    Rearm p (p.announceRegister m a).1 (p.announceRegister m a).2 none := by
  unfold Port.announceRegister
  split
  · simp only
    split
    · split
      · exact rearm_of_strel _ _ _ (Or.inl rfl)
      · exact rearm_of_idle _ _ _ _ (Or.inl rfl)
    · exact rearm_of_strel _ _ _ (Or.inl rfl)
  · exact rearm_refl p _

theorem handleAnnounce_rearm (p p' : Port) (s s' : InstState) (m : Msg) (ab : AnnounceBody) (outs : List Out)
    (hr : p.handleAnnounce s m ab = .ok (p', s', outs)) : Rearm p p' outs none := by
  unfold Port.handleAnnounce at hr
  split at hr
  · cases hr
  · split at hr
    · simp only [Except.ok.injEq, Prod.mk.injEq] at hr
      rw [← hr.1, ← hr.2.2]; exact rearm_refl p _
    · simp only [Except.ok.injEq, Prod.mk.injEq] at hr
      rw [← hr.1, ← hr.2.2]; exact announceRegister_rearm p m _

theorem handleGeneralInternal_rearm (p p' : Port) (s s' : InstState) (m : Msg) (outs : List Out)
    (hr : p.handleGeneralInternal s m = .ok (p', s', outs)) : Rearm p p' outs none := by
  unfold Port.handleGeneralInternal at hr
  split at hr
  · exact handleAnnounce_rearm _ _ _ _ _ _ _ hr
  · obtain ⟨⟨q, o⟩, hx, he⟩ := map_ok _ _ _ hr
    simp only [Prod.mk.injEq] at he
    rw [← he.1, ← he.2.2]; exact rearm_of_calm _ _ _ (handleFollowUp_calm _ _ _ _ _ hx)
  · obtain ⟨⟨q, o⟩, hx, he⟩ := map_ok _ _ _ hr
    simp only [Prod.mk.injEq] at he
    rw [← he.1, ← he.2.2]; exact rearm_of_calm _ _ _ (handleDelayResp_calm _ _ _ _ _ _ hx)
  · obtain ⟨⟨q, o⟩, hx, he⟩ := map_ok _ _ _ hr
    simp only [Prod.mk.injEq] at he
    rw [← he.1, ← he.2.2]; exact rearm_of_calm _ _ _ (handlePdelayRespFu_calm _ _ _ _ _ _ hx)
  · simp only [Except.ok.injEq, Prod.mk.injEq] at hr
    rw [← hr.1, ← hr.2.2]; exact rearm_refl p _

theorem handleGeneralReceive_rearm (p p' : Port) (s s' : InstState) (data : List UInt8) (outs : List Out)
    (hr : p.handleGeneralReceive s data = .ok (p', s', outs)) : Rearm p p' outs none := by
  unfold Port.handleGeneralReceive at hr
  split at hr
  · simp only [Except.ok.injEq, Prod.mk.injEq] at hr
    rw [← hr.1, ← hr.2.2]; exact rearm_refl p _
  · exact handleGeneralInternal_rearm _ _ _ _ _ _ hr

theorem handleEventReceive_rearm (p p' : Port) (s s' : InstState) (data : List UInt8) (ts : Nat) (outs : List Out)
    (hr : p.handleEventReceive s data ts = .ok (p', s', outs)) : Rearm p p' outs none := by
  unfold Port.handleEventReceive at hr
  split at hr
  · simp only [Except.ok.injEq, Prod.mk.injEq] at hr
    rw [← hr.1, ← hr.2.2]; exact rearm_refl p _
  · split at hr
    · obtain ⟨⟨q, o⟩, hx, he⟩ := map_ok _ _ _ hr
      simp only [Prod.mk.injEq] at he
      rw [← he.1, ← he.2.2]; exact rearm_of_calm _ _ _ (handleSync_calm _ _ _ _ _ _ hx)
    · obtain ⟨⟨q, o⟩, hx, he⟩ := map_ok _ _ _ hr
      simp only [Prod.mk.injEq] at he
      rw [← he.1, ← he.2.2]
      rcases handleDelayReq_shape _ _ _ _ _ hx with ⟨_, hp, _⟩ | ⟨_, hp, _⟩ <;> (rw [hp]; exact rearm_refl _ _)
    · obtain ⟨⟨q, o⟩, hx, he⟩ := map_ok _ _ _ hr
      simp only [Prod.mk.injEq] at he
      rw [← he.1, ← he.2.2]
      rw [(handlePdelayReq_shape _ _ _ _ _ _ hx).1]; exact rearm_refl _ _
    · obtain ⟨⟨q, o⟩, hx, he⟩ := map_ok _ _ _ hr
      simp only [Prod.mk.injEq] at he
      rw [← he.1, ← he.2.2]; exact rearm_of_calm _ _ _ (handlePdelayResp_calm _ _ _ _ _ _ _ hx)
    · exact handleGeneralInternal_rearm _ _ _ _ _ _ hr

theorem handleSendTimestamp_rearm (p p' : Port) (s : InstState) (ctx : TsCtx) (ts : Nat) (outs : List Out)
    (hr : p.handleSendTimestamp s ctx ts = .ok (p', outs)) : Rearm p p' outs none := by
  unfold Port.handleSendTimestamp at hr
  split at hr
  · rcases handleSyncTs_shape _ _ _ _ _ _ hr with ⟨_, hp, _⟩ | ⟨_, hp, _⟩ <;> (rw [hp]; exact rearm_refl _ _)
  · exact rearm_of_calm _ _ _ (handleDelayTs_calm _ _ _ _ _ hr)
  · exact rearm_of_calm _ _ _ (handlePdelayTs_calm _ _ _ _ _ hr)
  · rw [(handlePdelayRespTs_shape _ _ _ _ _ _ _ hr).1]; exact rearm_refl _ _

/-- the announce timer of a Master re-arms itself -/
theorem sendAnnounce_rearm (p p' : Port) (s : InstState) (q q' : List FwdTlv) (loose : Bool) (outs : List Out)
    (hr : p.sendAnnounce s q loose = .ok (p', outs, q')) : Rearm p p' outs (some .announce) := by
  rcases sendAnnounce_shape p p' s q q' loose outs hr with ⟨hm, hp, _, ho⟩ | ⟨hm, hp, _, _⟩
  · intro k hk
    rw [hp] at hk
    cases k with
    | announce => exact Or.inr (Or.inl ⟨_, by rw [ho]; exact List.mem_cons_self⟩)
    | sync => exact Or.inl ⟨hk, by intro e; cases e⟩
    | receipt => exact Or.inl ⟨hk, by intro e; cases e⟩
    | delay => exact Or.inl ⟨hk, by intro e; cases e⟩
    | filter => cases hk
  · rw [hp]
    intro k hk
    cases k with
    | announce => exact absurd ((isMaster_iff _).1 hk) hm
    | sync => exact Or.inl ⟨hk, by intro e; cases e⟩
    | receipt => exact Or.inl ⟨hk, by intro e; cases e⟩
    | delay => exact Or.inl ⟨hk, by intro e; cases e⟩
    | filter => cases hk

/-- the sync timer of a Master re-arms itself -/
theorem sendSync_rearm (p p' : Port) (s : InstState) (outs : List Out)
    (hr : p.sendSync s = .ok (p', outs)) : Rearm p p' outs (some .sync) := by
  rcases sendSync_shape p p' s outs hr with ⟨hm, hp, ho⟩ | ⟨hm, hp, _⟩
  · intro k hk
    rw [hp] at hk
    cases k with
    | sync => exact Or.inr (Or.inl ⟨_, by rw [ho]; exact List.mem_cons_self⟩)
    | announce => exact Or.inl ⟨hk, by intro e; cases e⟩
    | receipt => exact Or.inl ⟨hk, by intro e; cases e⟩
    | delay => exact Or.inl ⟨hk, by intro e; cases e⟩
    | filter => cases hk
  · rw [hp]
    intro k hk
    cases k with
    | sync => exact absurd ((isMaster_iff _).1 hk) hm
    | announce => exact Or.inl ⟨hk, by intro e; cases e⟩
    | receipt => exact Or.inl ⟨hk, by intro e; cases e⟩
    | delay => exact Or.inl ⟨hk, by intro e; cases e⟩
    | filter => cases hk

/-- the delay request timer of a Slave (and of every P2P port) re-arms itself -/
theorem sendDelayRequest_rearm (p p' : Port) (s : InstState) (outs : List Out)
    (hr : p.sendDelayRequest s = .ok (p', outs)) : Rearm p p' outs (some .delay) := by
  rcases sendDelayRequest_shape p p' s outs hr with ⟨_, hp, ho⟩ | ⟨_, remote, sy, dl, last, hst, hp, ho⟩ | ⟨_, hns, hp, _⟩
  · intro k hk
    rw [hp] at hk
    cases k with
    | delay => exact Or.inr (Or.inl ⟨_, by rw [ho]; exact List.mem_cons_self⟩)
    | announce => exact Or.inl ⟨hk, by intro e; cases e⟩
    | receipt => exact Or.inl ⟨hk, by intro e; cases e⟩
    | sync => exact Or.inl ⟨hk, by intro e; cases e⟩
    | filter => cases hk
  · intro k hk
    cases k with
    | delay => exact Or.inr (Or.inl ⟨_, by rw [ho]; exact List.mem_cons_self⟩)
    | announce => rw [hp] at hk; cases hk
    | sync => rw [hp] at hk; cases hk
    | receipt => rw [hp] at hk; simp [Port.needs] at hk
    | filter => cases hk
  · rw [hp]
    intro k hk
    cases k with
    | delay => simp only [Port.needs] at hk; rw [hns] at hk; cases hk
    | announce => exact Or.inl ⟨hk, by intro e; cases e⟩
    | receipt => exact Or.inl ⟨hk, by intro e; cases e⟩
    | sync => exact Or.inl ⟨hk, by intro e; cases e⟩
    | filter => cases hk

/-- the announce receipt timeout: to Master with both of its timers started, or (slave-only, faulty) re-armed -/
theorem handleReceiptTimer_rearm (p : Port) (s : InstState) :
    Rearm p (p.handleReceiptTimer s).1 (p.handleReceiptTimer s).2 (some .receipt) := by
  unfold Port.handleReceiptTimer
  split
  · intro k hk
    rename_i hf
    cases k <;> simp [Port.needs, hf, PState.isMaster, PState.isSlave] at hk
  · split
    · split
      · intro k hk
        cases k with
        | receipt => exact Or.inr (Or.inl ⟨_, List.mem_append_right _ (List.mem_singleton.2 rfl)⟩)
        | announce | sync | delay => simp [Port.needs, Port.setState, PState.isMaster, PState.isSlave] at hk
        | filter => cases hk
      · intro k hk
        cases k with
        | receipt => exact Or.inr (Or.inl ⟨_, List.mem_singleton.2 rfl⟩)
        | announce => exact Or.inl ⟨hk, by intro e; cases e⟩
        | sync => exact Or.inl ⟨hk, by intro e; cases e⟩
        | delay => exact Or.inl ⟨hk, by intro e; cases e⟩
        | filter => cases hk
    · split
      · intro k hk
        cases k with
        | announce => exact Or.inr (Or.inl ⟨_, List.mem_append_right _ List.mem_cons_self⟩)
        | sync => exact Or.inr (Or.inl ⟨_, List.mem_append_right _ (List.mem_cons_of_mem _ List.mem_cons_self)⟩)
        | receipt | delay => simp [Port.needs, Port.setState, PState.isMaster, PState.isSlave] at hk
        | filter => cases hk
      · intro k hk
        cases k with
        | announce => exact Or.inr (Or.inl ⟨_, List.mem_cons_self⟩)
        | sync => exact Or.inr (Or.inl ⟨_, List.mem_cons_of_mem _ List.mem_cons_self⟩)
        | receipt =>
          rename_i hm
          simp only [Port.needs, decide_eq_true_eq] at hk
          have : p.st = .master := by
            cases hh : p.st <;> simp_all
          rw [this] at hk; cases hk
        | delay => exact Or.inl ⟨hk, by intro e; cases e⟩
        | filter => cases hk

end Statime
