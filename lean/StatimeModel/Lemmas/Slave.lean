import StatimeModel.Model.Port
import StatimeModel.Spec.Formulas
/-
Lemmas about `extract_measurement` / `handle_time_measurement` (C08, C09, C14).
-/
namespace Statime

/-- no complete peer-delay exchange is pending (it is consumed the moment it completes) -/
def PeerIdle (p : Port) : Prop :=
  ∀ id r a b c d, p.peer ≠ .measuring id (some r) (some a) (some b) (some c) (some d)

theorem liftOv_ok {α} (x : Option α) (v : α) : liftOv x = .ok v ↔ x = some v := by
  cases x <;> simp [liftOv]

theorem orOv_ok {α β : Type} (x : Option α) (f : α → R β) (r : β) (h : orOv x f = .ok r) :
    ∃ a, x = some a ∧ f a = .ok r := by
  cases x with
  | none => simp [orOv] at h
  | some a => exact ⟨a, rfl, h⟩

theorem bind_some' {α β} (x : Option α) (f : α → Option β) (b : β) (h : x.bind f = some b) :
    ∃ a, x = some a ∧ f a = some b := by
  cases x with
  | none => simp at h
  | some a => exact ⟨a, rfl, by simpa using h⟩

theorem map_some' {α β} (x : Option α) (f : α → β) (b : β) (h : x.map f = some b) :
    ∃ a, x = some a ∧ f a = b := by
  cases x with
  | none => simp at h
  | some a => exact ⟨a, rfl, by simpa using h⟩

/-- the Sync measurement is the IEEE formula -/
theorem syncMeasurement_spec (send recv : Nat) (asym : Int) (md : Option Int) (raw : Int) (m : Measurement)
    (h : syncMeasurement send recv asym md = some (raw, m)) :
    Spec.rawSync send recv asym = some raw ∧
    ∃ off, m = { eventTime := recv, rawSync := some raw, offset := off } ∧
      (∀ d, md = some d → durSub raw d = off) ∧ (md = none → off = none) := by
  unfold syncMeasurement at h
  obtain ⟨d0, h1, h⟩ := bind_some' _ _ _ h
  obtain ⟨raw', h2, h⟩ := bind_some' _ _ _ h
  have hs : Spec.rawSync send recv asym = some raw' := by
    unfold Spec.rawSync; rw [h1, Option.bind_some, h2]
  cases md with
  | none =>
    simp only [Option.some.injEq, Prod.mk.injEq] at h
    obtain ⟨e1, e2⟩ := h
    subst e1
    exact ⟨hs, none, e2.symm, (by intro d e; cases e), fun _ => rfl⟩
  | some d =>
    simp only at h
    obtain ⟨off, h3, h4⟩ := map_some' _ _ _ h
    simp only [Prod.mk.injEq] at h4
    obtain ⟨e1, e2⟩ := h4
    subst e1
    exact ⟨hs, some off, e2.symm, (by intro d' e; cases e; exact h3), (by intro e; cases e)⟩

theorem delayMeasurement_spec (send recv : Nat) (asym : Int) (last : Option Int) (m : Measurement)
    (h : delayMeasurement send recv asym last = some m) :
    ∃ raw, Spec.rawDelay send recv asym = some raw ∧
    ∃ dl, m = { eventTime := send, rawDelay := some raw, delay := dl } ∧
      (∀ rs, last = some rs → Spec.meanDelay rs raw = dl) ∧ (last = none → dl = none) := by
  unfold delayMeasurement at h
  obtain ⟨d0, h1, h⟩ := bind_some' _ _ _ h
  obtain ⟨raw, h2, h⟩ := bind_some' _ _ _ h
  refine ⟨raw, by unfold Spec.rawDelay; rw [h1, Option.bind_some, h2], ?_⟩
  cases last with
  | none =>
    simp only [Option.some.injEq] at h
    exact ⟨none, h.symm, (by intro rs e; cases e), fun _ => rfl⟩
  | some rs =>
    simp only at h
    obtain ⟨hv, h3, h4⟩ := map_some' _ _ _ h
    exact ⟨some hv, h4.symm, (by intro rs' e; cases e; exact h3), (by intro e; cases e)⟩

theorem peerMeasurement_spec (t1 t2 t3 t4 : Nat) (m : Measurement) (h : peerMeasurement t1 t2 t3 t4 = some m) :
    ∃ v, Spec.peerDelay t1 t2 t3 t4 = some v ∧ m = { eventTime := t4, peerDelay := some v } := by
  unfold peerMeasurement at h
  obtain ⟨a, h1, h⟩ := bind_some' _ _ _ h
  obtain ⟨b, h2, h⟩ := bind_some' _ _ _ h
  obtain ⟨d, h3, h⟩ := bind_some' _ _ _ h
  obtain ⟨v, h4, h5⟩ := map_some' _ _ _ h
  refine ⟨v, ?_, h5.symm⟩
  unfold Spec.peerDelay
  rw [h1, Option.bind_some, h2, Option.bind_some, h3, Option.bind_some, h4]

theorem extract_of_idle (p : Port) (hp : PeerIdle p) : p.extract = p.extractSlave := by
  unfold Port.extract
  split
  · rename_i id r a b c d hpeer
    exact absurd hpeer (hp id r a b c d)
  · rfl

/-- what `extract_measurement` does with a complete Sync pair -/
theorem extract_sync (p p' : Port) (remote : PortId) (id send recv : Nat) (delay : DelaySt) (last : Option Int)
    (m : Option Measurement) (o : List Out)
    (hst : p.st = .slave remote (.measuring id (some send) (some recv)) delay last) (hp : PeerIdle p)
    (h : p.extract = .ok (p', m, o)) :
    ∃ raw, Spec.rawSync send recv p.cfg.delayAsymmetry = some raw ∧
      o = [] ∧ p' = p.withSlave remote .empty delay (some raw) ∧
      ∃ off, m = some { eventTime := recv, rawSync := some raw, offset := off } ∧
        (∀ md, p.meanDelay = some md → durSub raw md = off) ∧ (p.meanDelay = none → off = none) := by
  rw [extract_of_idle p hp] at h
  unfold Port.extractSlave at h
  rw [hst] at h
  simp only at h
  obtain ⟨rm, h1, h2⟩ := orOv_ok _ _ _ h
  obtain ⟨raw, mm⟩ := rm
  obtain ⟨hs, off, hm, hoff⟩ := syncMeasurement_spec _ _ _ _ _ _ h1
  simp only [Except.ok.injEq, Prod.mk.injEq] at h2
  obtain ⟨e1, e2, e3⟩ := h2
  exact ⟨raw, hs, e3.symm, e1.symm, off, by rw [← e2, hm], hoff⟩

/-- the Sync pair is not complete -/
def SyncSt.incomplete : SyncSt → Prop
  | .measuring _ (some _) (some _) => False
  | _ => True

def DelaySt.incomplete : DelaySt → Prop
  | .measuring _ (some _) (some _) => False
  | _ => True

/-- … and a complete Delay pair (only looked at when the Sync pair is not complete) -/
theorem extract_delay (p p' : Port) (remote : PortId) (sync : SyncSt) (id send recv : Nat) (last : Option Int)
    (m : Option Measurement) (o : List Out)
    (hst : p.st = .slave remote sync (.measuring id (some send) (some recv)) last) (hs : sync.incomplete)
    (hp : PeerIdle p) (h : p.extract = .ok (p', m, o)) :
    ∃ raw, Spec.rawDelay send recv p.cfg.delayAsymmetry = some raw ∧
      o = [] ∧ p' = p.withSlave remote sync .empty last ∧
      ∃ dl, m = some { eventTime := send, rawDelay := some raw, delay := dl } ∧
        (∀ rs, last = some rs → Spec.meanDelay rs raw = dl) ∧ (last = none → dl = none) := by
  rw [extract_of_idle p hp] at h
  unfold Port.extractSlave at h
  rw [hst] at h
  simp only at h
  split at h
  · exact absurd hs (by simp [SyncSt.incomplete])
  · obtain ⟨mm, h1, h2⟩ := orOv_ok _ _ _ h
    obtain ⟨raw, hr, dl, hm, hd⟩ := delayMeasurement_spec _ _ _ _ _ h1
    simp only [Except.ok.injEq, Prod.mk.injEq] at h2
    obtain ⟨e1, e2, e3⟩ := h2
    exact ⟨raw, hr, e3.symm, e1.symm, dl, by rw [← e2, hm], hd⟩

/-- nothing complete: no measurement, nothing changes -/
theorem extract_none (p : Port) (remote : PortId) (sync : SyncSt) (delay : DelaySt) (last : Option Int)
    (hst : p.st = .slave remote sync delay last) (hs : sync.incomplete) (hd : delay.incomplete) (hp : PeerIdle p) :
    p.extract = .ok (p, none, []) := by
  rw [extract_of_idle p hp]
  unfold Port.extractSlave
  rw [hst]
  simp only
  split
  · exact absurd hs (by simp [SyncSt.incomplete])
  · split
    · exact absurd hd (by simp [DelaySt.incomplete])
    · rfl

/-- `handle_time_measurement` emits exactly the measurement `extract_measurement` returns -/
theorem timeMeasurement_spec (p p' : Port) (o : List Out) (h : p.timeMeasurement = .ok (p', o)) :
    ∃ p1 m o1, p.extract = .ok (p1, m, o1) ∧
      (match m with
       | none => p' = p1 ∧ o = o1
       | some mm => o = o1 ++ [.measurement mm] ∧
           p' = (match filterMeanDelay mm with | some md => { p1 with meanDelay := some md } | none => p1)) := by
  unfold Port.timeMeasurement at h
  cases he : p.extract with
  | error e => simp [he, bind, Except.bind] at h
  | ok v =>
    obtain ⟨p1, m, o1⟩ := v
    simp only [he, bind, Except.bind] at h
    refine ⟨p1, m, o1, rfl, ?_⟩
    cases m with
    | none => simp only [Except.ok.injEq, Prod.mk.injEq] at h; exact ⟨h.1.symm, h.2.symm⟩
    | some mm =>
      simp only [Except.ok.injEq, Prod.mk.injEq] at h
      exact ⟨h.2.symm, h.1.symm⟩

/-- roles: a sync/delay measurement only comes out of a Slave port, the peer half never makes a port
Slave, and the only event is the demobilisation on recovery -/
theorem extract_roles (p p' : Port) (m : Option Measurement) (o : List Out) (h : p.extract = .ok (p', m, o)) :
    (∀ mm, m = some mm → (mm.rawSync.isSome ∨ mm.rawDelay.isSome) → p.st.isSlave = true) ∧
    (p'.st.isSlave = true → p.st.isSlave = true) ∧ (∀ x ∈ o, x = Out.demobilize) ∧ p'.cfg = p.cfg ∧ p'.id = p.id ∧
    p'.fml = p.fml := by
  unfold Port.extract at h
  split at h
  · obtain ⟨mm, h1, h2⟩ := orOv_ok _ _ _ h
    obtain ⟨v, _, hm⟩ := peerMeasurement_spec _ _ _ _ _ h1
    split at h2
    · simp only [Port.setState, Except.ok.injEq, Prod.mk.injEq] at h2
      obtain ⟨e1, e2, e3⟩ := h2
      subst e1 e2 e3
      refine ⟨(by intro x e; cases e; rw [hm]; simp), (by simp [PState.isSlave]), ?_, rfl, rfl, rfl⟩
      intro x hx; split at hx <;> simp_all
    · simp only [Except.ok.injEq, Prod.mk.injEq] at h2
      obtain ⟨e1, e2, e3⟩ := h2
      subst e1 e2 e3
      exact ⟨(by intro x e; cases e; rw [hm]; simp), fun hh => hh, (by simp), rfl, rfl, rfl⟩
  · unfold Port.extractSlave at h
    cases hst : p.st with
    | slave remote sy dl last =>
      have hsl : p.st.isSlave = true := by rw [hst]; rfl
      rw [hst] at h
      simp only at h
      refine ⟨fun _ _ _ => by rfl, fun _ => by rfl, ?_⟩
      split at h
      · obtain ⟨rm, _, h2⟩ := orOv_ok _ _ _ h
        simp only [Except.ok.injEq, Prod.mk.injEq] at h2
        rw [← h2.2.2, ← h2.1]; exact ⟨(by simp), rfl, rfl, rfl⟩
      · split at h
        · obtain ⟨rm, _, h2⟩ := orOv_ok _ _ _ h
          simp only [Except.ok.injEq, Prod.mk.injEq] at h2
          rw [← h2.2.2, ← h2.1]; exact ⟨(by simp), rfl, rfl, rfl⟩
        · simp only [Except.ok.injEq, Prod.mk.injEq] at h
          rw [← h.2.2, ← h.1]; exact ⟨(by simp), rfl, rfl, rfl⟩
    | faulty | listening | master | passive =>
      rw [hst] at h
      simp only [Except.ok.injEq, Prod.mk.injEq] at h
      obtain ⟨e1, e2, e3⟩ := h
      subst e1 e2 e3
      refine ⟨(by intro mm e; cases e), ?_, (by simp), rfl, rfl, rfl⟩
      rw [hst]; simp [PState.isSlave]

theorem extract_noNewMaster (p p' : Port) (m : Option Measurement) (o : List Out) (h : p.extract = .ok (p', m, o)) :
    p'.st = .master → p.st = .master := by
  unfold Port.extract at h
  split at h
  · obtain ⟨mm, h1, h2⟩ := orOv_ok _ _ _ h
    split at h2
    · simp only [Port.setState, Except.ok.injEq, Prod.mk.injEq] at h2
      rw [← h2.1]; intro hh; cases hh
    · simp only [Except.ok.injEq, Prod.mk.injEq] at h2
      rw [← h2.1]; exact fun hh => hh
  · unfold Port.extractSlave at h
    cases hst : p.st with
    | slave remote sy dl last =>
      rw [hst] at h
      simp only at h
      split at h
      · obtain ⟨rm, _, h2⟩ := orOv_ok _ _ _ h
        simp only [Except.ok.injEq, Prod.mk.injEq] at h2
        rw [← h2.1]; intro hh; cases hh
      · split at h
        · obtain ⟨rm, _, h2⟩ := orOv_ok _ _ _ h
          simp only [Except.ok.injEq, Prod.mk.injEq] at h2
          rw [← h2.1]; intro hh; cases hh
        · simp only [Except.ok.injEq, Prod.mk.injEq] at h
          rw [← h.1, hst]; exact fun hh => hh
    | faulty | listening | master | passive =>
      rw [hst] at h
      simp only [Except.ok.injEq, Prod.mk.injEq] at h
      rw [← h.1, hst]; exact fun hh => hh

end Statime
