import StatimeModel.Model.Port
import StatimeModel.Spec.Formulas
/-
Lemmas about `extract_measurement` / `handle_time_measurement` (C09, C14).
-/
namespace Statime

/-- no complete peer-delay exchange is pending (it is consumed the moment it completes) -/
def PeerIdle (p : Port) : Prop :=
  ∀ id r a b c d, p.peer ≠ .measuring id (some r) (some a) (some b) (some c) (some d)

theorem liftOv_ok {α} (x : Option α) (v : α) : liftOv x = .ok v ↔ x = some v := by
  cases x <;> simp [liftOv]

/-- what `extract_measurement` does with a complete Sync pair -/
theorem extract_sync (p p' : Port) (remote : PortId) (id send recv : Nat) (delay : DelaySt) (last : Option Int)
    (m : Option Measurement) (o : List Out)
    (hst : p.st = .slave remote (.measuring id (some send) (some recv)) delay last) (hp : PeerIdle p)
    (h : p.extract = .ok (p', m, o)) :
    ∃ raw, Spec.rawSync send recv p.cfg.delayAsymmetry = some raw ∧
      o = [] ∧ p' = { p with st := .slave remote .empty delay (some raw) } ∧
      ∃ off, m = some { eventTime := recv, rawSync := some raw, offset := off } ∧
        (match p.meanDelay with | some md => durSub raw md = off | none => off = none) := by
  unfold Port.extract at h
  split at h
  · rename_i id' r a b c d hpeer
    exact absurd hpeer (hp id' r a b c d)
  · rw [hst] at h
    simp only [bind, Except.bind] at h
    unfold Spec.rawSync
    cases h1 : timeSub recv send with
    | none => simp [h1, liftOv] at h
    | some d0 =>
      simp only [h1, liftOv] at h
      cases h2 : durSub d0 p.cfg.delayAsymmetry with
      | none => simp [h2] at h
      | some raw =>
        simp only [h2] at h
        refine ⟨raw, by rw [Option.bind_some, h2], ?_⟩
        cases hmd : p.meanDelay with
        | none =>
          simp only [hmd, pure, Except.pure, Except.ok.injEq, Prod.mk.injEq] at h
          obtain ⟨e1, e2, e3⟩ := h
          exact ⟨e3.symm, e1.symm, none, e2.symm, rfl⟩
        | some md =>
          simp only [hmd, Functor.map, Except.map] at h
          cases h3 : durSub raw md with
          | none => simp [h3, liftOv] at h
          | some off =>
            simp only [h3, liftOv, Except.ok.injEq, Prod.mk.injEq] at h
            obtain ⟨e1, e2, e3⟩ := h
            exact ⟨e3.symm, e1.symm, some off, e2.symm, h3⟩

/-- the Sync pair is not complete -/
def SyncSt.incomplete : SyncSt → Prop
  | .measuring _ (some _) (some _) => False
  | _ => True

/-- … and a complete Delay pair (only looked at when the Sync pair is not complete) -/
theorem extract_delay (p p' : Port) (remote : PortId) (sync : SyncSt) (id send recv : Nat) (last : Option Int)
    (m : Option Measurement) (o : List Out)
    (hst : p.st = .slave remote sync (.measuring id (some send) (some recv)) last) (hs : sync.incomplete)
    (hp : PeerIdle p) (h : p.extract = .ok (p', m, o)) :
    ∃ raw, Spec.rawDelay send recv p.cfg.delayAsymmetry = some raw ∧
      o = [] ∧ p' = { p with st := .slave remote sync .empty last } ∧
      ∃ dl, m = some { eventTime := send, rawDelay := some raw, delay := dl } ∧
        (∀ rs, last = some rs → Spec.meanDelay rs raw = dl) ∧ (last = none → dl = none) := by
  unfold Port.extract at h
  split at h
  · rename_i id' r a b c d hpeer
    exact absurd hpeer (hp id' r a b c d)
  · rw [hst] at h
    simp only at h
    split at h
    · exact absurd hs (by simp [SyncSt.incomplete])
    · simp only [bind, Except.bind] at h
      unfold Spec.rawDelay
      cases h1 : timeSub send recv with
      | none => simp [h1, liftOv] at h
      | some d0 =>
        simp only [h1, liftOv] at h
        cases h2 : durSub d0 p.cfg.delayAsymmetry with
        | none => simp [h2] at h
        | some raw =>
          simp only [h2] at h
          refine ⟨raw, by rw [Option.bind_some, h2], ?_⟩
          cases last with
          | none =>
            simp only [pure, Except.pure, Except.ok.injEq, Prod.mk.injEq] at h
            obtain ⟨e1, e2, e3⟩ := h
            exact ⟨e3.symm, e1.symm, none, e2.symm, (by intro rs hrs; cases hrs), fun _ => rfl⟩
          | some rs =>
            simp only at h
            unfold Spec.meanDelay
            cases h3 : durSub rs raw with
            | none => simp [h3, liftOv] at h
            | some x =>
              simp only [h3, liftOv] at h
              cases h4 : durHalf x with
              | none => simp [h4] at h
              | some hv =>
                simp only [h4, pure, Except.pure, Except.ok.injEq, Prod.mk.injEq] at h
                obtain ⟨e1, e2, e3⟩ := h
                exact ⟨e3.symm, e1.symm, some hv, e2.symm, (by intro rs' hrs; cases hrs; rw [h3, Option.bind_some, h4]), (by intro hn; cases hn)⟩

def DelaySt.incomplete : DelaySt → Prop
  | .measuring _ (some _) (some _) => False
  | _ => True

/-- nothing complete: no measurement, nothing changes -/
theorem extract_none (p : Port) (remote : PortId) (sync : SyncSt) (delay : DelaySt) (last : Option Int)
    (hst : p.st = .slave remote sync delay last) (hs : sync.incomplete) (hd : delay.incomplete) (hp : PeerIdle p) :
    p.extract = .ok (p, none, []) := by
  unfold Port.extract
  split
  · rename_i id' r a b c d hpeer
    exact absurd hpeer (hp id' r a b c d)
  · rw [hst]
    simp only
    split
    · exact absurd hs (by simp [SyncSt.incomplete])
    · split
      · exact absurd hd (by simp [DelaySt.incomplete])
      · rfl

/-- `handle_time_measurement` emits exactly the measurement `extract_measurement` returns -/
theorem timeMeasurement_spec (p p' : Port) (o : List Out) (h : p.timeMeasurement = .ok (p', o)) :
    ∃ p1 m o1, p.extract = .ok (p1, m, o1) ∧
      (match m with
       | none => p' = p1 ∧ o = o1
       | some mm => o = o1 ++ [.measurement mm] ∧
           p' = (match filterMeanDelay mm with | some md => { p1 with meanDelay := some md } | none => p1)) := by
  unfold Port.timeMeasurement at h
  cases he : p.extract with
  | error e => simp [he, bind, Except.bind] at h
  | ok v =>
    obtain ⟨p1, m, o1⟩ := v
    simp only [he, bind, Except.bind] at h
    refine ⟨p1, m, o1, rfl, ?_⟩
    cases m with
    | none => simp only [Except.ok.injEq, Prod.mk.injEq] at h; exact ⟨h.1.symm, h.2.symm⟩
    | some mm =>
      simp only [Except.ok.injEq, Prod.mk.injEq] at h
      exact ⟨h.2.symm, h.1.symm⟩

end Statime
