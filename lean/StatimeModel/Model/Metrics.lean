/-
Model of statime-linux/src/metrics/format.rs: the HTTP response the metrics exporter builds from an
observable state — which metrics there are, under which names, labels and units, with which values,
and how the text is laid out (OpenMetrics text exposition inside an HTTP/1.1 response).

Integers render as decimal numbers, `f64` values through `f64Display` (Model/F64Display.lean), which
is Rust's `{}`. Core-only.
-/
import StatimeModel.Model.F64Display
import StatimeModel.Model.Util

namespace Statime.Metrics
open Statime

inductive Value
  | int (i : Int)
  | float (bits : Nat)
  deriving Repr, DecidableEq, Inhabited

def Value.render : Value → String
  | .int i => toString i
  | .float b => f64Display b

abbrev Labels := List (String × String)

structure Metric where
  name : String
  help : String
  unit : Option String := none
  samples : List (Labels × Value)
  deriving Repr, Inhabited

structure PortM where
  number : Nat
  state : Nat
  /-- 1 E2E, 2 P2P, 3 CommonP2P, 4 Special, 254 NoMechanism -/
  mech : Nat
  meanLinkDelay : Option Int
  deriving Repr, Inhabited

structure MState where
  version : String
  commit : String
  date : String
  uptime : Nat                 -- f64 bits
  cid : List UInt8
  nports : Nat
  cls : Nat
  acc : Nat
  var : Nat
  p1 : Nat
  p2 : Nat
  steps : Nat
  offset : Int                 -- I96F32 bits
  meanDelay : Int
  parentCid : List UInt8
  parentPort : Nat
  gcls : Nat
  gacc : Nat
  gvar : Nat
  gp1 : Nat
  gp2 : Nat
  utc : Option Int
  leap : Nat                   -- 59 / 60 / 61
  timeTraceable : Bool
  freqTraceable : Bool
  ptpTimescale : Bool
  timeSource : Nat
  pathTraceEnable : Bool
  path : List (List UInt8)
  ports : List PortM
  deriving Repr, Inhabited

/-- `impl Display for ClockIdentity`: two hex digits per octet, colons in between -/
def cidStr (b : List UInt8) : String :=
  ":".intercalate (b.map fun x => String.ofList [hexChar (x.toNat / 16), hexChar (x.toNat % 16)])

/-- `format_bool!` -/
def boolVal (b : Bool) : Value := .int (if b then 1 else 0)

def nat (n : Nat) : Value := .int n

/-- the metrics of a state, in the order `format_state` writes them -/
def metrics (s : MState) : List Metric :=
  let base : Labels := [("clock_identity", cidStr s.cid)]
  let parent : Labels := base ++ [("parent_clock_identity", cidStr s.parentCid), ("parent_port_number", toString s.parentPort)]
  [ { name := "uptime", help := "The time that statime has been running", unit := some "seconds",
      samples := [([("version", s.version), ("build_commit", s.commit), ("build_commit_date", s.date)], .float s.uptime)] },
    { name := "number_ports", help := "The amount of ports assigned", samples := [(base, nat s.nports)] },
    { name := "quality_class", help := "The PTP clock class", samples := [(base, nat s.cls)] },
    { name := "quality_accuracy", help := "The quality of the clock", samples := [(base, nat s.acc)] },
    { name := "quality_offset_scaled_log_variance",
      help := "2-log of the variance (in seconds^2) of the clock when not synchronized", samples := [(base, nat s.var)] },
    { name := "priority_1", help := "priority 1 used in the BMCA", samples := [(base, nat s.p1)] },
    { name := "priority_2", help := "priority 2 used in the BMCA", samples := [(base, nat s.p2)] },
    { name := "steps_removed",
      help := "The number of paths traversed between this instance and the Grandmaster PTP instance",
      samples := [(base, nat s.steps)] },
    { name := "offset_from_master",
      help := "Time difference between a Master PTP Instance as calculated by the Slave instance",
      unit := some "nanoseconds", samples := [(base, .float (fixed32ToF64 s.offset))] },
    { name := "mean_delay",
      help := "Packet delay between a Master PTP Instance as calculated by the Slave instance",
      unit := some "nanoseconds", samples := [(base, .float (fixed32ToF64 s.meanDelay))] },
    { name := "grandmaster_clock_quality_class", help := "The PTP clock class", samples := [(parent, nat s.gcls)] },
    { name := "grandmaster_clock_quality_accuracy", help := "The quality of the clock", samples := [(parent, nat s.gacc)] },
    { name := "grandmaster_clock_quality_offset_scaled_log_variance",
      help := "2-log of the variance (in seconds^2) of the grandmaster clock when not synchronized",
      samples := [(parent, nat s.gvar)] },
    { name := "grandmaster_priority_1", help := "priority 1 of the parent's grandmaster", samples := [(parent, nat s.gp1)] },
    { name := "grandmaster_priority_2", help := "priority 2 of the parent's grandmaster", samples := [(parent, nat s.gp2)] } ]
  ++ (match s.utc with
      | some u => [{ name := "current_utc_offset", help := "Current offset from UTC in seconds", unit := some "seconds",
                     samples := [(base, .int u)] }]
      | none => [])
  ++
  [ { name := "upcoming_leap", help := "The amount of seconds the last minute of this will be", unit := some "seconds",
      samples := [(base, nat s.leap)] },
    { name := "time_traceable", help := "Whether the timescale is traceable to a primary reference",
      samples := [(base, boolVal s.timeTraceable)] },
    { name := "frequency_traceable",
      help := "Whether the frequency determining the timescale is traceable to a primary reference",
      samples := [(base, boolVal s.freqTraceable)] },
    { name := "ptp_timescale", help := "Whether the timescale of the Grandmaster PTP Instance is PTP",
      samples := [(base, boolVal s.ptpTimescale)] },
    { name := "time_source", help := "The source of time used by the Grandmaster PTP instance",
      samples := [(base, nat s.timeSource)] },
    { name := "path_trace_enable", help := "1 if path trace options is enabled, 0 otherwise",
      samples := [(base, boolVal s.pathTraceEnable)] },
    { name := "path_trace_list", help := "list of clocks from grandmaster to local clock",
      samples := (s.path.zipIdx.map fun (c, i) => (base ++ [("node", cidStr c)], nat i))
                 ++ [(base ++ [("node", "self")], nat s.path.length)] },
    { name := "port_state", help := "The current state of the port",
      samples := s.ports.map fun p => (base ++ [("port", toString p.number)], nat p.state) },
    { name := "mean_link_delay", help := "The current mean link delay of the port", unit := some "nanoseconds",
      samples := s.ports.filterMap fun p =>
        if p.mech = 2 then p.meanLinkDelay.map fun d => (base ++ [("port", toString p.number)], Value.float (fixed16ToF64 d))
        else none } ]

/-- label value escaping of the exposition format: backslash, double quote and line feed -/
def escapeChars : List Char → List Char
  | [] => []
  | '\\' :: cs => '\\' :: '\\' :: escapeChars cs
  | '"' :: cs => '\\' :: '"' :: escapeChars cs
  | '\n' :: cs => '\\' :: 'n' :: escapeChars cs
  | c :: cs => c :: escapeChars cs

/-- what a scraper does with an escaped label value; `none` on a dangling or unknown escape -/
def unescapeChars : List Char → Option (List Char)
  | [] => some []
  | '\\' :: '\\' :: cs => (unescapeChars cs).map ('\\' :: ·)
  | '\\' :: '"' :: cs => (unescapeChars cs).map ('"' :: ·)
  | '\\' :: 'n' :: cs => (unescapeChars cs).map ('\n' :: ·)
  | '\\' :: _ => none
  | c :: cs => (unescapeChars cs).map (c :: ·)

def escape (s : String) : String := String.ofList (escapeChars s.toList)

def fullName (m : Metric) : String :=
  match m.unit with
  | some u => "statime_" ++ m.name ++ "_" ++ u
  | none => "statime_" ++ m.name

def renderLabels (l : Labels) : String :=
  if l.isEmpty then "" else
  "{" ++ ",".intercalate (l.map fun (k, v) => k ++ "=\"" ++ escape v ++ "\"") ++ "}"

def renderSample (name : String) (x : Labels × Value) : String :=
  name ++ renderLabels x.1 ++ " " ++ x.2.render ++ "\n"

/-- `format_metric` -/
def renderMetric (m : Metric) : String :=
  let n := fullName m
  "# HELP " ++ n ++ " " ++ m.help ++ ".\n" ++
  "# TYPE " ++ n ++ " gauge\n" ++
  (match m.unit with | some u => "# UNIT " ++ n ++ " " ++ u ++ "\n" | none => "") ++
  String.join (m.samples.map (renderSample n))

/-- `format_state` -/
def body (s : MState) : String := String.join ((metrics s).map renderMetric) ++ "# EOF\n"

def header (len : Nat) : String :=
  "HTTP/1.1 200 OK\r\ncontent-type: text/plain\r\ncontent-length: " ++ toString len ++ "\r\n\r\n"

/-- `format_response` -/
def response (s : MState) : String := header (body s).utf8ByteSize ++ body s

/-! ### line protocol -/

def lookup (kv : List (String × String)) (k : String) : Option String := (kv.find? (·.1 = k)).map (·.2)

def parseKV (ws : List String) : List (String × String) :=
  ws.filterMap fun w => match w.splitOn "=" with
    | [k, v] => some (k, v)
    | _ => none

def hexStr? (s : String) : Option String :=
  (parseHex s).bind fun b => String.fromUTF8? (ByteArray.mk b.toArray)

def chunks8 : List UInt8 → List (List UInt8)
  | [] => []
  | l => if l.length < 8 then [l] else l.take 8 :: chunks8 (l.drop 8)
termination_by l => l.length
decreasing_by simp [List.length_drop]; omega

def parsePort (s : String) : Option PortM :=
  match s.splitOn ":" with
  | [n, st, m, d] =>
    match n.toNat?, st.toNat?, m.toNat? with
    | some n, some st, some m => some { number := n, state := st, mech := m, meanLinkDelay := if d = "-" then none else d.toInt? }
    | _, _, _ => none
  | _ => none

def parseState (ws : List String) : Option MState :=
  let kv := parseKV ws
  let str (k : String) := (lookup kv k).bind hexStr?
  let n (k : String) := (lookup kv k).bind String.toNat?
  let i (k : String) := (lookup kv k).bind String.toInt?
  let b (k : String) : Option Bool := (n k).map (fun x => decide (x = 1))
  let bytes (k : String) := (lookup kv k).bind parseHex
  match str "ver", str "commit", str "date", (lookup kv "up").bind fun h => (parseHex h).map fun bs => bs.foldl (fun a x => a * 256 + x.toNat) 0 with
  | some ver, some commit, some date, some up =>
    match bytes "cid", n "nports", n "class", n "acc", n "var", n "p1", n "p2", n "steps" with
    | some cid, some nports, some cls, some acc, some var, some p1, some p2, some steps =>
      match i "off", i "md", bytes "pcid", n "ppn", n "gclass", n "gacc", n "gvar", n "gp1" with
      | some off, some md, some pcid, some ppn, some gcls, some gacc, some gvar, some gp1 =>
        match n "gp2", n "leap", b "tt", b "ft", b "ptp", n "ts", b "pte", bytes "path" with
        | some gp2, some leap, some tt, some ft, some ptp, some ts, some pte, some path =>
          let utc := match lookup kv "utc" with | some "-" => none | some u => u.toInt? | none => none
          let ports := match lookup kv "ports" with
            | some "-" => some []
            | some p => (p.splitOn ",").mapM parsePort
            | none => none
          ports.map fun ports =>
            { version := ver, commit := commit, date := date, uptime := up, cid := cid, nports := nports, cls := cls,
              acc := acc, var := var, p1 := p1, p2 := p2, steps := steps, offset := off, meanDelay := md,
              parentCid := pcid, parentPort := ppn, gcls := gcls, gacc := gacc, gvar := gvar, gp1 := gp1, gp2 := gp2,
              utc := utc, leap := leap, timeTraceable := tt, freqTraceable := ft, ptpTimescale := ptp, timeSource := ts,
              pathTraceEnable := pte, path := chunks8 path, ports := ports }
        | _, _, _, _, _, _, _, _ => none
      | _, _, _, _, _, _, _, _ => none
    | _, _, _, _, _, _, _, _ => none
  | _, _, _, _ => none

def escapeLine (s : String) : String :=
  String.ofList (s.toList.flatMap fun c =>
    if c = '\\' then ['\\', '\\'] else if c = '\r' then ['\\', 'r'] else if c = '\n' then ['\\', 'n'] else [c])

def metLine (ws : List String) : String :=
  match parseState ws with
  | some s => "resp " ++ escapeLine (response s)
  | none => "bad-op"

def fmtLine (ws : List String) : String :=
  match ws with
  | [h] =>
    match parseHex h with
    | some bs => if bs.length = 8 then "ok " ++ f64Display (bs.foldl (fun a x => a * 256 + x.toNat) 0) else "bad-op"
    | none => "bad-op"
  | _ => "bad-op"

end Statime.Metrics
