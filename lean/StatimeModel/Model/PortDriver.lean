import StatimeModel.Model.Instance
import StatimeModel.Model.WireDriver
/-
Line protocol for the instance / port streams (Appendix C of DESIGN.md):
  INIT … | PORT … | P<k> GEN|EVT|TMR|TXTS … | BMCA k1,k2,… | SET …
One output line per op:  `<items joined by " ; "> | R ok | S … | D … | T … | PT … | DF …`
or `… | R panic` (the scenario ends there).
-/
namespace Statime

def parseBool? (s : String) : Option Bool := if s = "1" then some true else if s = "0" then some false else none

def parseClock? (s : String) : Option Nat :=
  match parseHex s with
  | some b => if b.length = 8 then some (beVal b 0 8) else none
  | none => none

def parsePid? (s : String) : Option PortId :=
  match s.splitOn ":" with
  | [c, p] => do
    let c ← parseClock? c
    let p ← parseNat? p
    pure ⟨c, p⟩
  | _ => none

def parseOptInt? (s : String) : Option (Option Int) := if s = "-" then some none else (parseInt? s).map some

def leapOf? : String → Option Leap
  | "0" => some .none | "61" => some .leap61 | "59" => some .leap59 | _ => none

def leapStr : Leap → String | .none => "0" | .leap61 => "61" | .leap59 => "59"

def showTp (t : TimeProps) : String :=
  let u := match t.utcOffset with | some x => toString x | none => "-"
  s!"{u} {leapStr t.leap} {bstr t.timeTraceable} {bstr t.freqTraceable} {bstr t.ptpTimescale} {t.timeSource}"

def showOptInt : Option Int → String | some x => toString x | none => "-"

def timerStr : Timer → String
  | .announce => "ann" | .sync => "sync" | .delay => "delay" | .receipt => "rcpt" | .filter => "filt"

def ctxStr : TsCtx → String
  | .sync id => s!"sync:{id}" | .delayReq id => s!"dreq:{id}" | .pdelayReq id => s!"pdreq:{id}"
  | .pdelayResp id r => s!"pdresp:{id}:{showPid r}"

def showOut : Out → String
  | .sendEvent ctx b ll => s!"send evt ll={bstr ll} ctx={ctxStr ctx} {toHex b}"
  | .sendGeneral b ll => s!"send gen ll={bstr ll} {toHex b}"
  | .reset k (.exact ns) => s!"reset {timerStr k} {ns}"
  | .reset k .rand => s!"reset {timerStr k} rand"
  | .forward t s => s!"fwd {showPid s} {t.ty} {toHex t.value}"
  | .measurement m => s!"meas {m.eventTime} {showOptInt m.offset} {showOptInt m.delay} {showOptInt m.peerDelay} {showOptInt m.rawSync} {showOptInt m.rawDelay}"
  | .demobilize => "demob"
  | .props tp => s!"props {showTp tp}"

def showObs (o : Obs) : String :=
  if o.isEmpty then "-" else " ; ".intercalate (o.map (fun (k, x) => s!"P{k}:{showOut x}"))

def showState (i : Inst) : String :=
  let sts := ",".intercalate (i.ports.map (fun p => p.st.name))
  let rms := ",".intercalate (i.ports.map (fun p => match p.st with | .slave r _ _ _ => showPid r | _ => "-"))
  let s := i.st
  let path := if s.pathTrace.isEmpty then "-" else ",".intercalate (s.pathTrace.map (fun c => hexBE c 8))
  s!"S {if sts = "" then "-" else sts} | D {s.stepsRemoved} {showPid s.parent.parentPort} {hexBE s.parent.gmIdentity 8} {s.parent.gmQuality.clockClass} {s.parent.gmQuality.accuracy} {s.parent.gmQuality.variance} {s.parent.gmP1} {s.parent.gmP2} | T {showTp s.tp} | PT {bstr s.pathEnable} {path} | DF {s.dflt.quality.clockClass} {s.dflt.quality.accuracy} {s.dflt.quality.variance} {bstr s.dflt.slaveOnly} {s.dflt.numberPorts} | RM {if i.ports.isEmpty then "-" else rms}"

def parseInit (ws : List String) : Option Inst :=
  match ws with
  | [clock, p1, p2, dom, sdo, so, pt, cls, acc, var, utc, leap, tt, ft, ptp, src] => do
    let clock ← parseClock? clock
    let p1 ← parseNat? p1; let p2 ← parseNat? p2; let dom ← parseNat? dom; let sdo ← parseNat? sdo
    let so ← parseBool? so; let pt ← parseBool? pt
    let cls ← parseNat? cls; let acc ← parseNat? acc; let var ← parseNat? var
    let utc ← parseOptInt? utc; let leap ← leapOf? leap
    let tt ← parseBool? tt; let ft ← parseBool? ft; let ptp ← parseBool? ptp; let src ← parseNat? src
    let d : DefaultDS := { clockIdentity := clock, numberPorts := 0, quality := ⟨cls, acc, var⟩, p1 := p1, p2 := p2,
                           domain := dom, slaveOnly := so, sdoId := sdo }
    pure (Inst.new d pt { utcOffset := utc, leap := leap, timeTraceable := tt, freqTraceable := ft,
                          ptpTimescale := ptp, timeSource := src })
  | _ => none

def parseAcc (s : String) : Option (Option (List Nat)) :=
  if s = "-" then some none
  else if s = "none" then some (some [])
  else ((s.splitOn ",").mapM parseClock?).map some

def parsePortCfg (ws : List String) : Option PortCfg :=
  match ws with
  | [acc, p2p, dl, al, to, sl, mo, asym, minor] => do
    let acc ← parseAcc acc
    let p2p ← parseBool? p2p
    let dl ← parseInt? dl; let al ← parseInt? al; let to ← parseNat? to; let sl ← parseInt? sl
    let mo ← parseBool? mo; let asym ← parseInt? asym; let minor ← parseNat? minor
    pure { acceptable := acc, p2p := p2p, delayLog := dl, announceLog := al, receiptTimeout := to, syncLog := sl,
           masterOnly := mo, delayAsymmetry := asym, minorVersion := minor }
  | _ => none

def parseFwd (s : String) : Option FwdTlv :=
  match s.splitOn ":" with
  | [c, p, ty, v] => do
    let c ← parseClock? c; let p ← parseNat? p; let ty ← parseNat? ty; let v ← parseHex v
    pure ⟨⟨ty, v⟩, ⟨c, p⟩⟩
  | _ => none

def parsePortIdx (w : String) : Option Nat :=
  if w.startsWith "P" then (w.drop 1).toNat? else none

def parseOp (ws : List String) : Option Op :=
  match ws with
  | "PORT" :: rest => (parsePortCfg rest).map .addPort
  | ["SET", "slave_only", b] => (parseBool? b).map .setSlaveOnly
  | ["SET", "quality", c, a, v] => do
    let c ← parseNat? c; let a ← parseNat? a; let v ← parseNat? v
    pure (.setQuality ⟨c, a, v⟩)
  | ["BMCA", order] => ((order.splitOn ",").mapM parseNat?).map .bmca
  | ["BMCA"] => some (.bmca [])
  | pk :: "GEN" :: [h] => do
    let k ← parsePortIdx pk; let b ← parseHex h
    pure (.gen k b)
  | pk :: "EVT" :: [h, t] => do
    let k ← parsePortIdx pk; let b ← parseHex h; let t ← parseNat? t
    pure (.evt k b t)
  | pk :: "TMR" :: "ann" :: loose :: fw => do
    let k ← parsePortIdx pk; let l ← parseBool? loose; let q ← fw.mapM parseFwd
    pure (.tmrAnnounce k l q)
  | [pk, "TMR", "sync"] => (parsePortIdx pk).map (fun k => .tmr k .sync)
  | [pk, "TMR", "delay"] => (parsePortIdx pk).map (fun k => .tmr k .delay)
  | [pk, "TMR", "rcpt"] => (parsePortIdx pk).map (fun k => .tmr k .receipt)
  | [pk, "TMR", "filt"] => (parsePortIdx pk).map (fun k => .tmr k .filter)
  | [pk, "TXTS", "sync", id, t] => do
    let k ← parsePortIdx pk; let id ← parseNat? id; let t ← parseNat? t
    pure (.txts k (.sync id) t)
  | [pk, "TXTS", "dreq", id, t] => do
    let k ← parsePortIdx pk; let id ← parseNat? id; let t ← parseNat? t
    pure (.txts k (.delayReq id) t)
  | [pk, "TXTS", "pdreq", id, t] => do
    let k ← parsePortIdx pk; let id ← parseNat? id; let t ← parseNat? t
    pure (.txts k (.pdelayReq id) t)
  | [pk, "TXTS", "pdresp", id, r, t] => do
    let k ← parsePortIdx pk; let id ← parseNat? id; let r ← parsePid? r; let t ← parseNat? t
    pure (.txts k (.pdelayResp id r) t)
  | _ => none

/-- what the recording filter of port `k` reports as its estimates (harness `RecFilter::current_estimates`) -/
def estOffset (k : Nat) : Int := -(((1000 + k : Nat) : Int) * (F32 : Int)) - 7
def estDelay (k : Nat) : Int :=
  let v : Int := ((2000 + k : Nat) : Int) * (F32 : Int) + 9
  if k % 2 = 1 then -v else v

/-- `Port::port_ds()` as text -/
def showPortDS (k : Nat) (p : Port) : String :=
  let mech := if p.cfg.p2p then "P2P" else "E2E"
  let mld := if p.cfg.p2p then toString (match p.meanDelay with | some d => durToTiv d | none => 0) else "-"
  s!"P{k} {showPid p.id} {p.st.name} {p.cfg.announceLog} {p.cfg.receiptTimeout} {p.cfg.syncLog} {mech} {p.cfg.delayLog} {mld} 2 {p.cfg.minorVersion} {durToTiv p.cfg.delayAsymmetry} {bstr p.cfg.masterOnly}"

def enumFrom1 {α} (l : List α) : List (Nat × α) := (List.range l.length).zip l |>.map fun (i, x) => (i + 1, x)

/-- `DUMP`: the data sets the daemon exposes for observation, built the way `main.rs` builds its
`ObservableInstanceState` (the current data set takes offset and mean delay from the first Slave port's filter) -/
def showObservable (i : Inst) : String :=
  let s := i.st
  let ports := enumFrom1 i.ports
  let contrib := ports.find? (fun (_, p) => match p.st with | .slave .. => true | _ => false)
  let (off, md) := match contrib with | some (k, _) => (estOffset k, estDelay k) | none => (0, 0)
  let path := if s.pathTrace.isEmpty then "-" else ",".intercalate (s.pathTrace.map (fun c => hexBE c 8))
  let head := s!"OBSV DF {hexBE s.dflt.clockIdentity 8} {s.dflt.numberPorts} {s.dflt.quality.clockClass} {s.dflt.quality.accuracy} {s.dflt.quality.variance} {s.dflt.p1} {s.dflt.p2} {s.dflt.domain} {bstr s.dflt.slaveOnly} {s.dflt.sdoId} | CU {s.stepsRemoved} {off} {md} | PA {showPid s.parent.parentPort} {hexBE s.parent.gmIdentity 8} {s.parent.gmQuality.clockClass} {s.parent.gmQuality.accuracy} {s.parent.gmQuality.variance} {s.parent.gmP1} {s.parent.gmP2} | TP {showTp s.tp} | PT {bstr s.pathEnable} {path}"
  String.join (head :: ports.map (fun (k, p) => " | " ++ showPortDS k p))

/-- driver state of the instance stream: `none` = no live instance (before INIT or after a panic) -/
def instLine (cur : Option Inst) (ws : List String) : Option Inst × String :=
  match ws with
  | ["ACC", kind, list, id] =>
    -- every shipped `AcceptableMasterList` implementation answers like the model's `acceptable`
    let l : Option (List Nat) := if list = "-" then some [] else (list.splitOn ",").mapM parseClock?
    match l, parseClock? id with
    | some l, some c =>
      let known := ["any", "slice", "arrayvec", "vec", "btree", "hash", "some-vec", "some-slice", "none"]
      if !known.contains kind || (kind = "arrayvec" && l.length > 16) then (cur, "bad-op")
      else
        let acc : Option (List Nat) := if kind = "any" || kind = "none" then none else some l
        (cur, s!"acc {bstr (acceptable acc c)}")
    | _, _ => (cur, "bad-op")
  | ["DUMP"] =>
    match cur with
    | some i => (cur, showObservable i)
    | none => (none, "dead")
  | ["SET", "clock_props_fail", _] =>
    -- the host's clock starts / stops refusing `set_properties`: nothing the library keeps depends on the answer
    match cur with
    | some i => (cur, "- | R ok | " ++ showState i ++ " | L -")
    | none => (none, "dead")
  | "INIT" :: rest =>
    match parseInit rest with
    | some i => (some i, "- | R ok | " ++ showState i)
    | none => (none, "bad-op")
  | _ =>
    match cur with
    | none => (none, "dead")
    | some i =>
      match parseOp ws with
      | none => (cur, "bad-op")
      | some op =>
        match i.step op with
        | .error _ => (none, "R panic")
        | .ok (i', obs, q) =>
          let qs := match op with | .tmrAnnounce .. => s!" q={q}" | _ => ""
          let ls := String.join ((i.lockTrace op).map fun e => match e with | .r => "r." | .w => "w.")
          (some i', showObs obs ++ qs ++ " | R ok | " ++ showState i' ++ " | L " ++ (if ls.isEmpty then "-" else ls))

end Statime

namespace Statime

/-- `CMP <p1> <class> <acc> <var> <p2> <gm16> <steps> <sender16> <recvpid>  <…same for b…>`:
the data set comparison on two explicit data sets -/
def parseCmpDS (ws : List String) : Option CmpDS :=
  match ws with
  | [p1, c, a, v, p2, gm, st, snd, rcv] => do
    let p1 ← parseNat? p1; let c ← parseNat? c; let a ← parseNat? a; let v ← parseNat? v; let p2 ← parseNat? p2
    let gm ← parseClock? gm; let st ← parseNat? st; let snd ← parseClock? snd; let rcv ← parsePid? rcv
    pure { gmP1 := p1, gmId := gm, gmClass := c, gmAcc := a, gmVar := v, gmP2 := p2, steps := st, sender := snd, receiver := rcv }
  | _ => none

def dordStr : DOrd → String
  | .better => "Better" | .betterTopo => "BetterByTopology" | .error1 => "Error1" | .error2 => "Error2"
  | .worseTopo => "WorseByTopology" | .worse => "Worse"

def cmpLine (ws : List String) : String :=
  match parseCmpDS (ws.take 9), parseCmpDS (ws.drop 9) with
  | some a, some b => dordStr (a.compare b)
  | _, _ => "bad-op"

end Statime
