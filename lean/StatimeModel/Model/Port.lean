import StatimeModel.Model.Bmca
/-
Model of statime/src/port/{mod,bmca,master,slave,actions,state,sequence_id}.rs and the
message constructors of datastructures/messages/mod.rs.

One `Port` value = one `Port<…>` object; the shared `PtpInstanceState` is
threaded through explicitly (`InstState`). Every handler returns
`Except Panic (… × List Out)`: `Panic.overflow`/`assertDbg` are sites that only
fire with debug assertions / overflow checks, `Panic.always` fires in every
profile.

The filter is the harness's recording filter (see DESIGN.md 3.2): it never
touches the clock, reports `mean_delay := delay <|> peer_delay` and no update
timer. Core-only.
-/
namespace Statime

inductive Panic | overflow | assertDbg | always
  deriving DecidableEq, Repr, Inhabited

inductive Leap | none | leap61 | leap59
  deriving DecidableEq, Repr, Inhabited

structure TimeProps where
  utcOffset : Option Int
  leap : Leap
  timeTraceable : Bool
  freqTraceable : Bool
  ptpTimescale : Bool
  timeSource : Nat
  deriving DecidableEq, Repr, Inhabited

structure ParentDS where
  parentPort : PortId
  gmIdentity : Nat
  gmQuality : ClockQuality
  gmP1 : Nat
  gmP2 : Nat
  deriving DecidableEq, Repr, Inhabited

/-- `PtpInstanceState` -/
structure InstState where
  dflt : DefaultDS
  stepsRemoved : Nat
  parent : ParentDS
  pathTrace : List Nat
  pathEnable : Bool
  tp : TimeProps
  deriving DecidableEq, Repr, Inhabited

structure PortCfg where
  acceptable : Option (List Nat)
  p2p : Bool
  delayLog : Int
  announceLog : Int
  receiptTimeout : Nat
  syncLog : Int
  masterOnly : Bool
  delayAsymmetry : Int
  minorVersion : Nat
  deriving DecidableEq, Repr, Inhabited

inductive SyncSt | empty | measuring (id : Nat) (send recv : Option Nat)
  deriving DecidableEq, Repr, Inhabited
inductive DelaySt | empty | measuring (id : Nat) (send recv : Option Nat)
  deriving DecidableEq, Repr, Inhabited
inductive PeerSt
  | empty
  | measuring (id : Nat) (responder : Option PortId) (reqSend reqRecv respSend respRecv : Option Nat)
  | post (id : Nat) (responder : PortId)
  deriving DecidableEq, Repr, Inhabited

inductive PState
  | faulty | listening | master | passive
  | slave (remote : PortId) (sync : SyncSt) (delay : DelaySt) (lastRawSync : Option Int)
  deriving DecidableEq, Repr, Inhabited

def PState.isSlave : PState → Bool | .slave .. => true | _ => false
def PState.name : PState → String
  | .faulty => "Faulty" | .listening => "Listening" | .master => "Master" | .passive => "Passive"
  | .slave .. => "Slave"

inductive Timer | announce | sync | delay | receipt | filter
  deriving DecidableEq, Repr, Inhabited

/-- a `core::time::Duration`: exact nanoseconds, or scaled by an RNG draw (compared by kind only) -/
inductive Dur | exact (ns : Nat) | rand
  deriving DecidableEq, Repr, Inhabited

inductive TsCtx | sync (id : Nat) | delayReq (id : Nat) | pdelayReq (id : Nat) | pdelayResp (id : Nat) (req : PortId)
  deriving DecidableEq, Repr, Inhabited

structure Measurement where
  eventTime : Nat := 0
  offset : Option Int := none
  delay : Option Int := none
  peerDelay : Option Int := none
  rawSync : Option Int := none
  rawDelay : Option Int := none
  deriving DecidableEq, Repr, Inhabited

inductive Out
  | sendEvent (ctx : TsCtx) (bytes : List UInt8) (linkLocal : Bool)
  | sendGeneral (bytes : List UInt8) (linkLocal : Bool)
  | reset (k : Timer) (d : Dur)
  | forward (tlv : Tlv) (sender : PortId)
  | measurement (m : Measurement)     -- handed to the filter
  | demobilize                        -- old filter demobilised, fresh filter installed
  | props (tp : TimeProps)            -- Clock::set_properties
  deriving DecidableEq, Repr, Inhabited

structure Port where
  cfg : PortCfg
  id : PortId
  st : PState
  fml : FML
  multiportDisable : Option Int
  annSeq : Nat
  syncSeq : Nat
  delaySeq : Nat
  pdelaySeq : Nat
  meanDelay : Option Int
  peer : PeerSt
  deriving DecidableEq, Repr, Inhabited

abbrev R (α : Type) := Except Panic α

def liftOv {α} : Option α → R α
  | some a => .ok a
  | none => .error .overflow

/-- `Interval::as_core_duration()` in nanoseconds (exact for the intervals used: 2^n s, −9 ≤ n) -/
def intervalNs (n : Int) : Nat :=
  if 0 ≤ n then NS * 2 ^ n.toNat else NS / 2 ^ (-n).toNat

/-! ### message constructors (`Message::sync` …) -/

def baseHeader (d : DefaultDS) (pid : PortId) (seq minor : Nat) : Header :=
  { sdoId := d.sdoId, verMajor := 2, verMinor := minor, domain := d.domain, src := pid, seq := seq }

def msgSync (d : DefaultDS) (pid : PortId) (seq minor : Nat) : Msg :=
  { header := { baseHeader d pid seq minor with flags := { twoStep := true : Flags } }, body := .sync ⟨0, 0⟩, suffix := [] }

def msgFollowUp (d : DefaultDS) (pid : PortId) (seq : Nat) (ts : Nat) (minor : Nat) : R Msg := do
  let w ← liftOv (timeToWire ts)
  .ok { header := { baseHeader d pid seq minor with correction := timeSubnano ts }, body := .followUp w, suffix := [] }

def msgAnnounce (s : InstState) (pid : PortId) (seq minor : Nat) : Msg :=
  let tp := s.tp
  let h : Header := { baseHeader s.dflt pid seq minor with
    flags := { leap59 := tp.leap = .leap59, leap61 := tp.leap = .leap61, utcValid := tp.utcOffset.isSome,
               ptpTimescale := tp.ptpTimescale, timeTraceable := tp.timeTraceable, freqTraceable := tp.freqTraceable } }
  let ab : AnnounceBody :=
    { origin := ⟨0, 0⟩
      utcOffset := tp.utcOffset.getD 0
      p1 := s.parent.gmP1
      clockClass := s.parent.gmQuality.clockClass
      accuracy := s.parent.gmQuality.accuracy
      variance := s.parent.gmQuality.variance
      p2 := s.parent.gmP2
      gm := s.parent.gmIdentity
      steps := s.stepsRemoved
      timeSource := tp.timeSource }
  { header := h, body := .announce ab, suffix := [] }

def msgDelayReq (d : DefaultDS) (pid : PortId) (seq minor : Nat) : Msg :=
  { header := { baseHeader d pid seq minor with logInterval := 0x7f }, body := .delayReq ⟨0, 0⟩, suffix := [] }

/-- `Message::delay_resp`: request header reused; correction = request correction + sub-ns of the
receive time (an `I48F16` addition, saturating since the `fix:` commit) -/
def msgDelayResp (req : Header) (pid : PortId) (delayLog : Int) (ts : Nat) : R Msg := do
  let w ← liftOv (timeToWire ts)
  let fl : Flags := { req.flags with twoStep := false }
  let h : Header := { req with flags := fl, src := pid, correction := clampI64 (req.correction + timeSubnano ts),
                               logInterval := delayLog }
  .ok { header := h, body := .delayResp w req.src, suffix := [] }

def msgPdelayReq (d : DefaultDS) (pid : PortId) (seq minor : Nat) : Msg :=
  { header := baseHeader d pid seq minor, body := .pdelayReq ⟨0, 0⟩, suffix := [] }

def msgPdelayResp (d : DefaultDS) (pid : PortId) (req : Header) (ts : Nat) (minor : Nat) : R Msg := do
  let w ← liftOv (timeToWire ts)
  .ok { header := { baseHeader d pid req.seq minor with flags := { twoStep := true : Flags }, correction := req.correction },
        body := .pdelayResp w req.src, suffix := [] }

def msgPdelayRespFu (d : DefaultDS) (pid requestor : PortId) (seq : Nat) (ts : Nat) (minor : Nat) : R Msg := do
  let w ← liftOv (timeToWire ts)
  .ok { header := baseHeader d pid seq minor, body := .pdelayRespFu w requestor, suffix := [] }

def nextSeq (n : Nat) : Nat := (n + 1) % 65536

/-! ### the recording filter -/

/-- `Filter::measurement` of the harness filter: mean_delay := delay <|> peer_delay, no timer -/
def filterMeanDelay (m : Measurement) : Option Int := m.delay <|> m.peerDelay

/-! ### `set_forced_port_state` -/

/-- returns the new port and whether the filter was replaced (old one demobilised) -/
def Port.setState (p : Port) (st : PState) : Port × List Out :=
  let old := p.st
  let demob := old.isSlave || old = .faulty || st = .faulty
  ({ p with st := st }, if demob then [.demobilize] else [])

/-! ### slave side (`slave.rs`) -/

/-- continue with the value, or report the overflow the Rust operator would raise -/
def orOv {α β : Type} (x : Option α) (f : α → R β) : R β :=
  match x with
  | some a => f a
  | none => .error .overflow

/-- the port with an updated slave state -/
def Port.withSlave (p : Port) (remote : PortId) (sy : SyncSt) (dl : DelaySt) (last : Option Int) : Port :=
  { p with st := .slave remote sy dl last }

/-- measurement of a complete peer exchange: ((t4' − t1) − (t3' − t2)) / 2, stamped t4' -/
def peerMeasurement (t1 t2 t3 t4 : Nat) : Option Measurement :=
  (timeSub t4 t1).bind fun a => (timeSub t3 t2).bind fun b => (durSub a b).bind fun d =>
    (durHalf d).map fun half => { eventTime := t4, peerDelay := some half }

/-- measurement of a complete Sync pair: raw = t2' − t1' − asym, offset = raw − mean_delay -/
def syncMeasurement (send recv : Nat) (asym : Int) (meanDelay : Option Int) : Option (Int × Measurement) :=
  (timeSub recv send).bind fun d0 => (durSub d0 asym).bind fun raw =>
    match meanDelay with
    | some md => (durSub raw md).map fun off => (raw, { eventTime := recv, rawSync := some raw, offset := some off })
    | none => some (raw, { eventTime := recv, rawSync := some raw, offset := none })

/-- measurement of a complete Delay pair: raw = t3 − t4' − asym, delay = (last_raw_sync − raw) / 2 -/
def delayMeasurement (send recv : Nat) (asym : Int) (last : Option Int) : Option Measurement :=
  (timeSub send recv).bind fun d0 => (durSub d0 asym).bind fun raw =>
    match last with
    | some rs => ((durSub rs raw).bind durHalf).map fun h => { eventTime := send, rawDelay := some raw, delay := some h }
    | none => some { eventTime := send, rawDelay := some raw, delay := none }

/-- the slave half of `extract_measurement` -/
def Port.extractSlave (p : Port) : R (Port × Option Measurement × List Out) :=
  match p.st with
  | .slave remote sy dl last =>
    match sy with
    | .measuring _ (some send) (some recv) =>
      orOv (syncMeasurement send recv p.cfg.delayAsymmetry p.meanDelay) fun rm =>
        .ok (p.withSlave remote .empty dl (some rm.1), some rm.2, [])
    | _ =>
      match dl with
      | .measuring _ (some send) (some recv) =>
        orOv (delayMeasurement send recv p.cfg.delayAsymmetry last) fun m =>
          .ok (p.withSlave remote sy .empty last, some m, [])
      | _ => .ok (p, none, [])
  | _ => .ok (p, none, [])

/-- `extract_measurement` -/
def Port.extract (p : Port) : R (Port × Option Measurement × List Out) :=
  match p.peer with
  | .measuring id (some resp) (some t1) (some t2) (some t3) (some t4) =>
    orOv (peerMeasurement t1 t2 t3 t4) fun m =>
      if p.st = .faulty then
        .ok (({ p with peer := .post id resp } : Port).setState .listening |>.1, some m,
             ({ p with peer := .post id resp } : Port).setState .listening |>.2)
      else .ok ({ p with peer := .post id resp }, some m, [])
  | _ => p.extractSlave

/-- `handle_time_measurement` -/
def Port.timeMeasurement (p : Port) : R (Port × List Out) := do
  let (p, m?, o) ← p.extract
  match m? with
  | none => .ok (p, o)
  | some m =>
    let p := match filterMeanDelay m with
      | some md => { p with meanDelay := some md }
      | none => p
    .ok (p, o ++ [.measurement m])

/-- `handle_sync` once the sender is known to be the parent and the corrected receive time is computed -/
def Port.syncStore (p : Port) (remote : PortId) (sy : SyncSt) (dl : DelaySt) (last : Option Int)
    (h : Header) (origin : WireTs) (corrected : Nat) : R (Port × List Out) :=
  if h.flags.twoStep then
    match sy with
    | .measuring id send recv =>
      if id = h.seq then
        (match recv with
         | some _ => .ok (p, [])
         | none => (p.withSlave remote (.measuring id send (some corrected)) dl last).timeMeasurement)
      else .ok (p.withSlave remote (.measuring h.seq none (some corrected)) dl last, [])
    | .empty => .ok (p.withSlave remote (.measuring h.seq none (some corrected)) dl last, [])
  else
    match sy with
    | .measuring id _ _ =>
      if id = h.seq then .ok (p, [])
      else orOv (wireToTime origin) fun send =>
        (p.withSlave remote (.measuring h.seq (some send) (some corrected)) dl last).timeMeasurement
    | .empty => orOv (wireToTime origin) fun send =>
        (p.withSlave remote (.measuring h.seq (some send) (some corrected)) dl last).timeMeasurement

def Port.handleSync (p : Port) (h : Header) (origin : WireTs) (recvTime : Nat) : R (Port × List Out) :=
  match p.st with
  | .slave remote sy dl last =>
    if remote ≠ h.src then .ok (p, [])
    else orOv (timeSubDur recvTime (tivToDur h.correction)) fun corrected =>
      p.syncStore remote sy dl last h origin corrected
  | _ => .ok (p, [])

/-- `handle_follow_up` once the sender is the parent and the corrected send time is computed -/
def Port.followUpStore (p : Port) (remote : PortId) (sy : SyncSt) (dl : DelaySt) (last : Option Int)
    (h : Header) (send : Nat) : R (Port × List Out) :=
  match sy with
  | .measuring id s recv =>
    if id = h.seq then
      (match s with
       | some _ => .ok (p, [])
       | none => (p.withSlave remote (.measuring id (some send) recv) dl last).timeMeasurement)
    else (p.withSlave remote (.measuring h.seq (some send) none) dl last).timeMeasurement
  | .empty => (p.withSlave remote (.measuring h.seq (some send) none) dl last).timeMeasurement

def Port.handleFollowUp (p : Port) (h : Header) (origin : WireTs) : R (Port × List Out) :=
  match p.st with
  | .slave remote sy dl last =>
    if remote ≠ h.src then .ok (p, [])
    else orOv (wireToTime origin) fun t0 =>
      orOv (timeAddDur t0 (tivToDur h.correction)) fun send =>
        p.followUpStore remote sy dl last h send
  | _ => .ok (p, [])

def Port.handleDelayResp (p : Port) (h : Header) (rx : WireTs) (req : PortId) : R (Port × List Out) :=
  match p.st with
  | .slave remote sy dl last =>
    if p.id ≠ req ∨ remote ≠ h.src then .ok (p, [])
    else
      match dl with
      | .measuring id send recv =>
        if id = h.seq then
          (match recv with
           | some _ => .ok (p, [])
           | none =>
             orOv (wireToTime rx) fun t0 =>
               orOv (timeSubDur t0 (tivToDur h.correction)) fun r =>
                 (p.withSlave remote sy (.measuring id send (some r)) last).timeMeasurement)
        else .ok (p, [])
      | .empty => .ok (p, [])
  | _ => .ok (p, [])

/-- `handle_delay_timestamp` (transmit timestamp of our Delay_Req) -/
def Port.handleDelayTs (p : Port) (tsId : Nat) (ts : Nat) : R (Port × List Out) :=
  match p.st with
  | .slave remote sy (.measuring id send recv) last =>
    if id = tsId then
      (match send with
       | some _ => .ok (p, [])
       | none => (p.withSlave remote sy (.measuring id (some ts) recv) last).timeMeasurement)
    else .ok (p, [])
  | _ => .ok (p, [])

def Port.handlePdelayTs (p : Port) (tsId : Nat) (ts : Nat) : R (Port × List Out) :=
  match p.peer with
  | .measuring id resp reqSend reqRecv respSend respRecv =>
    if id = tsId then
      (match reqSend with
       | some _ => .ok (p, [])
       | none => ({ p with peer := .measuring id resp (some ts) reqRecv respSend respRecv }).timeMeasurement)
    else .ok (p, [])
  | _ => .ok (p, [])

/-- the multiple-responder test shared by `handle_peer_delay_response[_follow_up]`:
`some true` = a different responder answered this request ⇒ Faulty; `some false` = proceed;
`none` = not for the current request ⇒ ignore -/
def PeerSt.classify (s : PeerSt) (seq : Nat) (src : PortId) : Option Bool :=
  match s with
  | .post id responder => if id = seq ∧ responder ≠ src then some true else none
  | .measuring id resp _ _ _ _ =>
    if id = seq then
      (match resp with
       | some r => if r ≠ src then some true else some false
       | none => some false)
    else none
  | .empty => none

def Port.handlePdelayResp (p : Port) (h : Header) (rx : WireTs) (req : PortId) (recvTime : Nat) :
    R (Port × List Out) :=
  if p.id ≠ req then .ok (p, [])
  else
    match p.peer.classify h.seq h.src with
    | none => .ok (p, [])
    | some true => .ok (p.setState .faulty)
    | some false =>
      match p.peer with
      | .measuring id _ reqSend _ respSend respRecv =>
        (match respRecv with
         | some _ => .ok (p, [])
         | none =>
           orOv (timeSubDur recvTime (tivToDur h.correction)) fun rr =>
             orOv (wireToTime rx) fun rq =>
               ({ p with peer := .measuring id (some h.src) reqSend (some rq)
                                   (if !h.flags.twoStep then some rq else respSend) (some rr) }).timeMeasurement)
      | _ => .ok (p, [])

def Port.handlePdelayRespFu (p : Port) (h : Header) (origin : WireTs) (req : PortId) : R (Port × List Out) :=
  if p.id ≠ req then .ok (p, [])
  else
    match p.peer.classify h.seq h.src with
    | none => .ok (p, [])
    | some true => .ok (p.setState .faulty)
    | some false =>
      match p.peer with
      | .measuring id _ reqSend reqRecv respSend respRecv =>
        (match respSend with
         | some _ => .ok (p, [])
         | none =>
           orOv (wireToTime origin) fun t0 =>
             orOv (timeAddDur t0 (tivToDur h.correction)) fun s =>
               ({ p with peer := .measuring id (some h.src) reqSend reqRecv (some s) respRecv }).timeMeasurement)
      | _ => .ok (p, [])

/-- `send_delay_request` (delay timer) -/
def Port.sendDelayRequest (p : Port) (s : InstState) : R (Port × List Out) :=
  if p.cfg.p2p then
    let id := p.pdelaySeq
    let m := msgPdelayReq s.dflt p.id id p.cfg.minorVersion
    .ok ({ p with pdelaySeq := nextSeq id, peer := .measuring id none none none none none },
         [.reset .delay .rand, .sendEvent (.pdelayReq id) (encode m) true])
  else
    match p.st with
    | .slave remote sync _ last =>
      let id := p.delaySeq
      let m := msgDelayReq s.dflt p.id id p.cfg.minorVersion
      .ok ({ p with delaySeq := nextSeq id, st := .slave remote sync (.measuring id none none) last },
           [.reset .delay .rand, .sendEvent (.delayReq id) (encode m) false])
    | _ => .ok (p, [])

/-! ### master side (`master.rs`) -/

def Port.sendSync (p : Port) (s : InstState) : R (Port × List Out) :=
  if p.st = .master then
    let id := p.syncSeq
    let m := msgSync s.dflt p.id id p.cfg.minorVersion
    .ok ({ p with syncSeq := nextSeq id },
         [.reset .sync (.exact (intervalNs p.cfg.syncLog)), .sendEvent (.sync id) (encode m) false])
  else .ok (p, [])

def Port.handleSyncTs (p : Port) (s : InstState) (id : Nat) (ts : Nat) : R (Port × List Out) :=
  if p.st = .master then do
    let m ← msgFollowUp s.dflt p.id id ts p.cfg.minorVersion
    .ok (p, [.sendGeneral (encode m) false])
  else .ok (p, [])

/-- a TLV offered by the host's `ForwardedTLVProvider` -/
structure FwdTlv where
  tlv : Tlv
  sender : PortId
  deriving DecidableEq, Repr, Inhabited

def MAX_DATA_LEN : Nat := 1024
def PATH_TRACE_CAP : Nat := 128

def clockIdBytes (c : Nat) : List UInt8 := beBytes c 8

/-- does the head of the queue fit? `next_if_smaller(margin)` of a strict provider returns it when its size is
< margin, the documented contract ("unless it is larger than max_size") and the daemon's forwarder when ≤ margin
(`loose`). Since the `fix:` commit a TLV that fills the room exactly is taken (before: `assert!` panic). -/
def fwdFits (loose : Bool) (size margin : Nat) : Bool := size < margin || (loose && size = margin)

/-- the forwarding loop of `send_announce`. Returns (bytes appended, remaining queue). -/
def fwdLoop (parent : PortId) (pathTraceEnabled : Bool) (loose : Bool) : Nat → List FwdTlv → Nat → List UInt8 →
    List UInt8 × List FwdTlv
  | 0, q, _, acc => (acc, q)
  | _ + 1, [], _, acc => (acc, [])
  | fuel + 1, t :: rest, margin, acc =>
    if fwdFits loose t.tlv.wireSize margin then
      if parent ≠ t.sender then fwdLoop parent pathTraceEnabled loose fuel rest margin acc
      else if pathTraceEnabled ∧ t.tlv.ty = TLV_PATH_TRACE then fwdLoop parent pathTraceEnabled loose fuel rest margin acc
      else fwdLoop parent pathTraceEnabled loose fuel rest (margin - t.tlv.wireSize) (acc ++ t.tlv.bytes)
    else (acc, t :: rest)

/-- the path trace TLV of an emitted Announce (own identity appended to the stored path) and the room left after it -/
def announcePathTlv (s : InstState) (margin0 : Nat) : List UInt8 × Nat :=
  if s.pathEnable then
    if s.pathTrace.length < PATH_TRACE_CAP then
      if margin0 > (⟨TLV_PATH_TRACE, (s.pathTrace ++ [s.dflt.clockIdentity]).flatMap clockIdBytes⟩ : Tlv).wireSize then
        ((⟨TLV_PATH_TRACE, (s.pathTrace ++ [s.dflt.clockIdentity]).flatMap clockIdBytes⟩ : Tlv).bytes,
         margin0 - (⟨TLV_PATH_TRACE, (s.pathTrace ++ [s.dflt.clockIdentity]).flatMap clockIdBytes⟩ : Tlv).wireSize)
      else ([], margin0)
    else ([], margin0)
  else ([], margin0)

/-- room for TLVs in an Announce -/
def announceMargin (s : InstState) (p : Port) : Nat := MAX_DATA_LEN - (msgAnnounce s p.id p.annSeq p.cfg.minorVersion).wireSize

/-- the Announce a master port sends, given the forwarded TLV bytes -/
def Port.announceMsg (p : Port) (s : InstState) (fw : List UInt8) : Msg :=
  { msgAnnounce s p.id p.annSeq p.cfg.minorVersion with suffix := (announcePathTlv s (announceMargin s p)).1 ++ fw }

/-- what the forwarding loop of `send_announce` does with the host's queue `q` -/
def Port.announceFwd (p : Port) (s : InstState) (q : List FwdTlv) (loose : Bool) : List UInt8 × List FwdTlv :=
  fwdLoop s.parent.parentPort s.pathEnable loose (q.length + 1) q (announcePathTlv s (announceMargin s p)).2 []

/-- `send_announce` (announce timer); `q` is the host's forwarded-TLV queue for this port -/
def Port.sendAnnounce (p : Port) (s : InstState) (q : List FwdTlv) (loose : Bool := true) :
    R (Port × List Out × List FwdTlv) :=
  if p.st = .master then
    .ok ({ p with annSeq := nextSeq p.annSeq },
         [.reset .announce (.exact (intervalNs p.cfg.announceLog)),
          .sendGeneral (encode (p.announceMsg s (p.announceFwd s q loose).1)) false],
         (p.announceFwd s q loose).2)
  else .ok (p, [], q)

def Port.handleDelayReq (p : Port) (h : Header) (ts : Nat) : R (Port × List Out) :=
  if p.st = .master then do
    let m ← msgDelayResp h p.id p.cfg.delayLog ts
    .ok (p, [.sendGeneral (encode m) false])
  else .ok (p, [])

def Port.handlePdelayReq (p : Port) (s : InstState) (h : Header) (ts : Nat) : R (Port × List Out) := do
  let m ← msgPdelayResp s.dflt p.id h ts p.cfg.minorVersion
  .ok (p, [.sendEvent (.pdelayResp h.seq h.src) (encode m) true])

def Port.handlePdelayRespTs (p : Port) (s : InstState) (id : Nat) (req : PortId) (ts : Nat) : R (Port × List Out) := do
  let m ← msgPdelayRespFu s.dflt p.id req id ts p.cfg.minorVersion
  .ok (p, [.sendGeneral (encode m) true])

/-! ### announce handling (`port/bmca.rs`, Running half) -/

def annTimeProps (a : Ann) : TimeProps :=
  { utcOffset := if a.hdr.flags.utcValid then some a.body.utcOffset else none,
    leap := if a.hdr.flags.leap59 then .leap59 else if a.hdr.flags.leap61 then .leap61 else .none,
    timeTraceable := a.hdr.flags.timeTraceable, freqTraceable := a.hdr.flags.freqTraceable,
    ptpTimescale := a.hdr.flags.ptpTimescale, timeSource := a.body.timeSource }

/-- `chunks_exact(8)` of a TLV value as clock identities -/
def chunks8 : Nat → List UInt8 → List Nat
  | 0, _ => []
  | fuel + 1, v => if v.length ≥ 8 then beVal v 0 8 :: chunks8 fuel (v.drop 8) else []

def pathOf (v : List UInt8) : List Nat := chunks8 v.length v

/-- table-33 update from an Announce of the parent, with the given new stepsRemoved -/
def InstState.withParent (s : InstState) (a : Ann) (steps : Nat) : InstState :=
  { s with stepsRemoved := steps,
           parent := { parentPort := a.hdr.src, gmIdentity := a.body.gm,
                       gmQuality := ⟨a.body.clockClass, a.body.accuracy, a.body.variance⟩,
                       gmP1 := a.body.p1, gmP2 := a.body.p2 },
           tp := annTimeProps a }

/-- `handle_announce` (Slave port, Announce of the parent): stepsRemoved + 1, saturating since the `fix:` commit
(before: `u16` overflow for 65535) -/
def InstState.applyParent (s : InstState) (a : Ann) : R InstState :=
  .ok (s.withParent a (if a.body.steps + 1 ≥ 65536 then 65535 else a.body.steps + 1))

/-- `set_recommended_state`, decision S1: plain `+ 1` (the Announce is a qualified one: stepsRemoved < 255, C06) -/
def InstState.applyParentS1 (s : InstState) (a : Ann) : R InstState :=
  if a.body.steps + 1 ≥ 65536 then .error .overflow else .ok (s.withParent a (a.body.steps + 1))

/-- the PATH_TRACE TLV `handle_announce` looks at (path trace option on) -/
def pathTlvOf (s : InstState) (m : Msg) : Option Tlv :=
  if s.pathEnable then (tlvs m.suffix).find? (fun t => t.ty = TLV_PATH_TRACE) else none

/-- "clock loop detected": the path already contains the own identity -/
def loopsBack (s : InstState) (pt : Option Tlv) : Bool :=
  match pt with
  | some t => (pathOf t.value).contains s.dflt.clockIdentity
  | none => false

/-- store the received path (`ArrayVec` of 128 identities: since the `fix:` commit a longer one is cut off, before
it panicked) -/
def storePath (s1 : InstState) (pt : Option Tlv) : R InstState :=
  match pt with
  | some t => .ok { s1 with pathTrace := (pathOf t.value).take PATH_TRACE_CAP }
  | none => .ok s1

/-- the data set half of `handle_announce`: a Slave port that hears its parent applies table 33 and the
path trace list; the Bool is "clock loop detected" — since the `fix:` commit the loop check comes first and a
looping Announce leaves the data sets alone -/
def Port.announceUpdate (p : Port) (s : InstState) (m : Msg) (a : Ann) : R (InstState × Bool) :=
  if p.st.isSlave ∧ a.hdr.src = s.parent.parentPort then
    if loopsBack s (pathTlvOf s m) then .ok (s, true)
    else
      match s.applyParent a with
      | .error e => .error e
      | .ok s1 => (storePath s1 (pathTlvOf s m)).map (fun s2 => (s2, false))
  else .ok (s, false)

/-- the registration half: foreign master list, multiport check, receipt timer, TLV forwarding -/
def Port.announceRegister (p : Port) (m : Msg) (a : Ann) : Port × List Out :=
  if (bmcaRegister p.fml p.cfg.acceptable a).2 then
    let p1 : Port := { p with fml := (bmcaRegister p.fml p.cfg.acceptable a).1 }
    let fwd := ((tlvs m.suffix).filter (fun t => tlvPropagates t.ty)).map (fun t => Out.forward t m.header.src)
    if p1.id.clock = m.header.src.clock ∧ p1.id.port > m.header.src.port then
      -- a Faulty port stays Faulty; since the `fix:` commit a Slave port stays Slave (only the mark is set)
      (if p1.st = .faulty ∨ p1.st.isSlave = true then ({ p1 with multiportDisable := some 0 }, [.reset .receipt .rand] ++ fwd)
       else ((({ p1 with multiportDisable := some 0 } : Port).setState .passive).1,
             (({ p1 with multiportDisable := some 0 } : Port).setState .passive).2 ++ [.reset .receipt .rand] ++ fwd))
    else (p1, [.reset .receipt .rand] ++ fwd)
  else (p, [])

/-- `handle_announce` -/
def Port.handleAnnounce (p : Port) (s : InstState) (m : Msg) (ab : AnnounceBody) :
    R (Port × InstState × List Out) :=
  match p.announceUpdate s m ⟨m.header, ab⟩ with
  | .error e => .error e
  | .ok (s1, loop) =>
    if loop then .ok (p, s1, [])
    else .ok ((p.announceRegister m ⟨m.header, ab⟩).1, s1, (p.announceRegister m ⟨m.header, ab⟩).2)

/-! ### receive paths (`port/mod.rs`) -/

def Port.handleGeneralInternal (p : Port) (s : InstState) (m : Msg) : R (Port × InstState × List Out) :=
  match m.body with
  | .announce ab => p.handleAnnounce s m ab
  | .followUp o => (p.handleFollowUp m.header o).map (fun (p, o) => (p, s, o))
  | .delayResp rx req => (p.handleDelayResp m.header rx req).map (fun (p, o) => (p, s, o))
  | .pdelayRespFu o req => (p.handlePdelayRespFu m.header o req).map (fun (p, o) => (p, s, o))
  | _ => .ok (p, s, [])

/-- `parse_and_filter` -/
def parseAndFilter (s : InstState) (data : List UInt8) : Option Msg :=
  if !isCompatible data then none
  else match decode data with
    | .error _ => none
    | .ok m => if m.header.sdoId = s.dflt.sdoId ∧ m.header.domain = s.dflt.domain then some m else none

def Port.handleGeneralReceive (p : Port) (s : InstState) (data : List UInt8) : R (Port × InstState × List Out) :=
  match parseAndFilter s data with
  | none => .ok (p, s, [])
  | some m => p.handleGeneralInternal s m

def Port.handleEventReceive (p : Port) (s : InstState) (data : List UInt8) (ts : Nat) :
    R (Port × InstState × List Out) :=
  match parseAndFilter s data with
  | none => .ok (p, s, [])
  | some m =>
    match m.body with
    | .sync o => (p.handleSync m.header o ts).map (fun (p, o) => (p, s, o))
    | .delayReq _ => (p.handleDelayReq m.header ts).map (fun (p, o) => (p, s, o))
    | .pdelayReq _ => (p.handlePdelayReq s m.header ts).map (fun (p, o) => (p, s, o))
    | .pdelayResp rx req => (p.handlePdelayResp m.header rx req ts).map (fun (p, o) => (p, s, o))
    | _ => p.handleGeneralInternal s m

/-- `handle_announce_receipt_timer` -/
def Port.handleReceiptTimer (p : Port) (s : InstState) : Port × List Out :=
  if p.st = .faulty then (p, [.reset .receipt .rand])     -- since the `fix:` commit: a faulty port stays faulty
  else if s.dflt.slaveOnly then
    (if p.st ≠ .listening then ((p.setState .listening).1, (p.setState .listening).2 ++ [.reset .receipt .rand])
     else (p, [.reset .receipt .rand]))
  else
    (if p.st ≠ .master then
       ((p.setState .master).1, (p.setState .master).2 ++ [.reset .announce (.exact 0), .reset .sync (.exact 0)])
     else (p, [.reset .announce (.exact 0), .reset .sync (.exact 0)]))

def Port.handleSendTimestamp (p : Port) (s : InstState) (ctx : TsCtx) (ts : Nat) : R (Port × List Out) :=
  match ctx with
  | .sync id => p.handleSyncTs s id ts
  | .delayReq id => p.handleDelayTs id ts
  | .pdelayReq id => p.handlePdelayTs id ts
  | .pdelayResp id req => p.handlePdelayRespTs s id req ts

/-! ### BMCA application (`port/bmca.rs`, InBmca half) -/

/-- the decision half of `set_recommended_port_state`: `none` = the port stays as it is; otherwise the
new state and the pending actions (`none` = pending actions untouched) -/
def portMove (p : Port) (r : Recommended) (d : DefaultDS) : Option (PState × Option (List Out)) :=
  match r with
  | .s1 a =>
    match p.st with
    | .faulty => none
    | .slave old _ _ _ =>
      if old ≠ a.hdr.src then some (.slave a.hdr.src .empty .empty none, some [.reset .receipt .rand, .reset .delay (.exact 0)])
      else none
    | _ => some (.slave a.hdr.src .empty .empty none, some [.reset .receipt .rand, .reset .delay (.exact 0)])
  | .m1 _ | .m2 _ | .m3 _ =>
    if d.slaveOnly then
      match p.st with
      | .listening | .faulty => none
      | _ => some (.listening, some [.reset .receipt .rand])
    else if p.multiportDisable.isSome then
      (if p.st ≠ .passive ∧ p.st ≠ .faulty then some (.passive, none) else none)
    else
      match p.st with
      | .master | .faulty => none
      | _ => some (.master, some [.reset .announce (.exact 0), .reset .sync (.exact 0)])
  | .p1 _ | .p2 _ =>
    match p.st with
    | .passive | .faulty => none
    | _ => some (.passive, none)

def Recommended.isS1 : Recommended → Bool | .s1 _ => true | _ => false

/-- `set_recommended_port_state`; returns port, events (demobilize), pending actions (`none` = unchanged) -/
def Port.setRecommendedPortState (p : Port) (r : Recommended) (d : DefaultDS) :
    R (Port × List Out × Option (List Out)) :=
  if r.isS1 ∧ p.cfg.masterOnly then .error .assertDbg
  else
    match portMove p r d with
    | none => .ok (p, [], none)
    | some (st, pd) => .ok ((p.setState st).1, (p.setState st).2, pd)

def defaultTimeProps : TimeProps :=
  { utcOffset := none, leap := .none, timeTraceable := false, freqTraceable := false, ptpTimescale := true,
    timeSource := 0xa0 }

/-- `set_recommended_state` -/
def Port.setRecommendedState (p : Port) (r : Recommended) (s : InstState) :
    R (Port × InstState × List Out × Option (List Out)) := do
  let (p, ev, pend) ← p.setRecommendedPortState r s.dflt
  match r with
  | .m1 d | .m2 d =>
    .ok (p, { s with stepsRemoved := 0,
                     parent := { parentPort := ⟨d.clockIdentity, 0⟩, gmIdentity := d.clockIdentity,
                                 gmQuality := d.quality, gmP1 := d.p1, gmP2 := d.p2 },
                     tp := defaultTimeProps, pathTrace := [] }, ev, pend)
  | .m3 _ | .p1 _ | .p2 _ => .ok (p, s, ev, pend)
  | .s1 a =>
    let s1 ← s.applyParentS1 a
    .ok (p, s1, ev ++ [.props s1.tp], pend)

/-- ageing of the multiport-disable mark: dropped once it is an announce interval old -/
def stepMultiport (md : Option Int) (step : Int) (announceLog : Int) : R (Option Int) :=
  match md with
  | none => .ok none
  | some age =>
    orOv (durAdd age step) fun age' =>
      orOv (durFromLogInterval announceLog) fun ai =>
        .ok (if age' < ai then some age' else none)

/-- `step_announce_age` -/
def Port.stepAnnounceAge (p : Port) (step : Int) : R Port :=
  match stepMultiport p.multiportDisable step p.cfg.announceLog with
  | .error e => .error e
  | .ok md => .ok { p with multiportDisable := md, fml := p.fml.stepAge step }

/-- `Port::new` (the state right after `add_port`) -/
def Port.new (cfg : PortCfg) (id : PortId) : R Port :=
  orOv (durFromLogInterval cfg.announceLog) fun ai =>
    .ok { cfg := cfg, id := id, st := .listening,
          fml := { masters := [], interval := durToTiv ai, own := id },
          multiportDisable := none, annSeq := 0, syncSeq := 0, delaySeq := 0, pdelaySeq := 0,
          meanDelay := none, peer := .empty }

end Statime
