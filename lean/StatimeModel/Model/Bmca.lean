import StatimeModel.Model.Wire
/-
Model of statime/src/bmc/{dataset_comparison,foreign_master,bmca}.rs.
Core-only.
-/
namespace Statime

structure ClockQuality where
  clockClass : Nat
  accuracy : Nat      -- normalised octet (`to_primitive`); `cmp_numeric` compares these
  variance : Nat
  deriving DecidableEq, Repr, Inhabited

structure DefaultDS where
  clockIdentity : Nat
  numberPorts : Nat
  quality : ClockQuality
  p1 : Nat
  p2 : Nat
  domain : Nat
  slaveOnly : Bool
  sdoId : Nat
  deriving DecidableEq, Repr, Inhabited

/-- an Announce as the BMCA stores it: the message header and the Announce body -/
structure Ann where
  hdr : Header
  body : AnnounceBody
  deriving DecidableEq, Repr, Inhabited

/-! ### data set comparison (IEEE 1588-2019 9.3.4, Figures 34 and 35) -/

structure CmpDS where
  gmP1 : Nat
  gmId : Nat
  gmClass : Nat
  gmAcc : Nat
  gmVar : Nat
  gmP2 : Nat
  steps : Nat
  sender : Nat          -- clock identity of the sender
  receiver : PortId     -- identity of the receiving port
  deriving DecidableEq, Repr, Inhabited

def CmpDS.ofAnnounce (a : Ann) (receiver : PortId) : CmpDS :=
  { gmP1 := a.body.p1, gmId := a.body.gm, gmClass := a.body.clockClass, gmAcc := a.body.accuracy,
    gmVar := a.body.variance, gmP2 := a.body.p2, steps := a.body.steps,
    sender := a.hdr.src.clock, receiver := receiver }

def CmpDS.ofOwn (d : DefaultDS) : CmpDS :=
  { gmP1 := d.p1, gmId := d.clockIdentity, gmClass := d.quality.clockClass, gmAcc := d.quality.accuracy,
    gmVar := d.quality.variance, gmP2 := d.p2, steps := 0, sender := d.clockIdentity,
    receiver := ⟨d.clockIdentity, 0⟩ }

inductive DOrd | better | betterTopo | error1 | error2 | worseTopo | worse
  deriving DecidableEq, Repr, Inhabited

/-- lexicographic `Ordering` on a list of key pairs (`then_with` chains) -/
def lexCmp : List (Nat × Nat) → Ordering
  | [] => .eq
  | (a, b) :: rest => if a < b then .lt else if b < a then .gt else lexCmp rest

/-- Figure 34: different grandmasters. `none` is the `unreachable!` arm. -/
def compareDifferent (a b : CmpDS) : Option DOrd :=
  match lexCmp [(a.gmP1, b.gmP1), (a.gmClass, b.gmClass), (a.gmAcc, b.gmAcc), (a.gmVar, b.gmVar),
      (a.gmP2, b.gmP2), (a.gmId, b.gmId)] with
  | .lt => some .better
  | .gt => some .worse
  | .eq => none

/-- Figure 35: same grandmaster -/
def compareSame (a b : CmpDS) : DOrd :=
  let diff : Int := (a.steps : Int) - (b.steps : Int)
  if diff ≥ 2 then .worse
  else if diff ≤ -2 then .better
  else if diff = 1 then
    (if a.receiver.clock < a.sender then .worse
     else if a.receiver.clock = a.sender then .error1 else .worseTopo)
  else if diff = -1 then
    (if b.receiver.clock < b.sender then .better
     else if b.receiver.clock = b.sender then .error1 else .betterTopo)
  else
    match lexCmp [(a.sender, b.sender), (a.receiver.port, b.receiver.port)] with
    | .lt => .betterTopo
    | .eq => .error2
    | .gt => .worseTopo

def CmpDS.compare (a b : CmpDS) : DOrd :=
  if a.gmId = b.gmId then compareSame a b
  else (compareDifferent a b).getD .error2   -- unreachable: identities differ ⇒ lexCmp ≠ eq

/-- `DatasetOrdering::as_ordering`: better ↦ Greater -/
def DOrd.asOrdering : DOrd → Ordering
  | .better | .betterTopo => .gt
  | .error1 | .error2 => .eq
  | .worseTopo | .worse => .lt

/-! ### foreign master list -/

structure FRec where
  ann : Ann
  age : Int      -- Duration bits
  deriving DecidableEq, Repr, Inhabited

structure ForeignMaster where
  id : PortId
  recs : List FRec
  deriving DecidableEq, Repr, Inhabited

structure FML where
  masters : List ForeignMaster
  interval : Int       -- own port announce interval, TimeInterval bits
  own : PortId
  deriving DecidableEq, Repr, Inhabited

def FM_TIME_WINDOW : Nat := 4
def FM_THRESHOLD : Nat := 2
def MAX_ANNOUNCE_MESSAGES : Nat := 8
def MAX_FOREIGN_MASTERS : Nat := 8
def SEQ_HALF : Nat := 32767
def STEPS_CUTOFF : Nat := 255

/-- `Duration::from(announce_interval) * FOREIGN_MASTER_TIME_WINDOW` (fixed-point product; the
overflow case is outside the configuration domain and is mapped to the saturated value) -/
def FML.cutoff (l : FML) : Int :=
  (durMulFix (tivToDur l.interval) ((FM_TIME_WINDOW : Int) * (F32 : Int))).getD ((I127 : Int) - 1)

def ForeignMaster.purge (cutoff : Int) (m : ForeignMaster) : ForeignMaster :=
  { m with recs := m.recs.filter (fun r => r.age < cutoff) }

/-- `ForeignMaster::register_announce_message`: purge, then push (dropping the oldest when full) -/
def ForeignMaster.register (cutoff : Int) (m : ForeignMaster) (a : Ann) (age : Int) : ForeignMaster :=
  if (m.purge cutoff).recs.length < MAX_ANNOUNCE_MESSAGES then
    { id := m.id, recs := (m.purge cutoff).recs ++ [⟨a, age⟩] }
  else { id := m.id, recs := (m.purge cutoff).recs.drop 1 ++ [⟨a, age⟩] }

def ForeignMaster.stepAge (cutoff : Int) (step : Int) (m : ForeignMaster) : ForeignMaster :=
  ({ m with recs := m.recs.map (fun (r : FRec) => { r with age := r.age + step }) }).purge cutoff

/-- `ForeignMasterList::step_age`: age every record, drop masters left without records -/
def FML.stepAge (l : FML) (step : Int) : FML :=
  { l with masters := (l.masters.map (ForeignMaster.stepAge l.cutoff step)).filter (fun m => !m.recs.isEmpty) }

/-- sequence-id freshness: `announce.wrapping_sub(last) >= u16::MAX / 2` rejects -/
def seqStale (newSeq lastSeq : Nat) : Bool := (newSeq + 65536 - lastSeq) % 65536 ≥ SEQ_HALF

/-- rule 2 of `is_announce_message_qualified`: not newer than the last stored message of that master -/
def FML.stale (l : FML) (a : Ann) : Bool :=
  match l.masters.find? (fun m => m.id = a.hdr.src) with
  | some m => (match m.recs.getLast? with
               | some last => seqStale a.hdr.seq last.ann.hdr.seq
               | none => false)
  | none => false

/-- `is_announce_message_qualified`: not from our own clock, newer than what is stored, stepsRemoved < 255 -/
def FML.qualified (l : FML) (a : Ann) : Bool :=
  decide (a.hdr.src.clock ≠ l.own.clock) && !l.stale a && decide (a.body.steps < STEPS_CUTOFF)

/-- `ForeignMasterList::register_announce_message` -/
def FML.register (l : FML) (a : Ann) (age : Int) : FML :=
  if !l.qualified a then l
  else if l.masters.any (fun m => m.id = a.hdr.src) then
    { l with masters := l.masters.map (fun m => if m.id = a.hdr.src then m.register l.cutoff a age else m) }
  else if l.masters.length < MAX_FOREIGN_MASTERS then
    -- `ForeignMaster::new` stores age ZERO whatever `age` was passed
    { l with masters := l.masters ++ [⟨a.hdr.src, [⟨a, 0⟩]⟩] }
  else l

/-- one master of `take_qualified_announce_messages`: with ≥ THRESHOLD records its newest record is
removed and appended to the output -/
def tqStep (m : ForeignMaster) (acc : List ForeignMaster × List FRec) : List ForeignMaster × List FRec :=
  if m.recs.length ≥ FM_THRESHOLD then
    match m.recs.getLast? with
    | some r => ({ m with recs := m.recs.dropLast } :: acc.1, acc.2 ++ [r])
    | none => (m :: acc.1, acc.2)
  else (m :: acc.1, acc.2)

/-- `take_qualified_announce_messages`: walking the masters from last to first, the newest record
of every master with ≥ THRESHOLD records is removed and returned -/
def FML.takeQualified (l : FML) : FML × List FRec :=
  ({ l with masters := (l.masters.foldr tqStep ([], [])).1 }, (l.masters.foldr tqStep ([], [])).2)

/-! ### best announce message -/

structure Best where
  ann : Ann
  age : Int
  identity : PortId     -- receiving port
  deriving DecidableEq, Repr, Inhabited

def cmpInt (a b : Int) : Ordering := if a < b then .lt else if b < a then .gt else .eq

/-- `BestAnnounceMessage::compare`: data set ordering, ties broken towards the newer message -/
def Best.compare (x y : Best) : Ordering :=
  match ((CmpDS.ofAnnounce x.ann x.identity).compare (CmpDS.ofAnnounce y.ann y.identity)).asOrdering with
  | .eq => cmpInt y.age x.age
  | o => o

/-- one step of `Iterator::max_by`: keep the current maximum only if it is strictly greater -/
def maxStep (cmp : Best → Best → Ordering) (cur y : Best) : Best :=
  match cmp cur y with
  | .gt => cur
  | _ => y

/-- `Iterator::max_by`: the *last* maximal element -/
def maxBy (cmp : Best → Best → Ordering) : List Best → Option Best
  | [] => none
  | x :: xs => some (xs.foldl (maxStep cmp) x)

def findBest (l : List Best) : Option Best := maxBy Best.compare l

/-- the acceptable master list of a port: `None` accepts everyone -/
def acceptable (acc : Option (List Nat)) (clock : Nat) : Bool :=
  match acc with
  | none => true
  | some l => l.contains clock

/-- `Bmca::register_announce_message`; the Bool is its return value -/
def bmcaRegister (l : FML) (acc : Option (List Nat)) (a : Ann) : FML × Bool :=
  if a.hdr.src ≠ l.own ∧ acceptable acc a.hdr.src.clock then (l.register a 0, true) else (l, false)

/-- `Bmca::take_best_port_announce_message` -/
def takeBest (l : FML) (acc : Option (List Nat)) : FML × Option Best :=
  let (l1, qs) := l.takeQualified
  let erbest := findBest (qs.map (fun r => { ann := r.ann, age := r.age, identity := l.own }))
  match erbest with
  | none => (l1, none)
  | some b =>
    let l2 := if b.ann.hdr.src ≠ l1.own ∧ acceptable acc b.ann.hdr.src.clock then l1.register b.ann b.age else l1
    (l2, some b)

/-! ### state decision (9.3.3, Figure 33) -/

inductive Recommended
  | m1 (d : DefaultDS) | m2 (d : DefaultDS) | m3 (a : Ann) | p1 (a : Ann) | p2 (a : Ann) | s1 (a : Ann)
  deriving DecidableEq, Repr, Inhabited

inductive MsgCmp | better | same | worse (b : Best)

def compareD0Best (d0 : CmpDS) : Option Best → MsgCmp
  | none => .better
  | some b =>
    match (d0.compare (CmpDS.ofAnnounce b.ann b.identity)).asOrdering with
    | .lt => .worse b
    | .eq => .same
    | .gt => .better

def compareGlobalAndPort (g p : Best) : Recommended :=
  if g = p then .s1 g.ann
  else if (CmpDS.ofAnnounce g.ann g.identity).compare (CmpDS.ofAnnounce p.ann p.identity) = .betterTopo
  then .p2 p.ann else .m3 g.ann

def recommendLow (own : DefaultDS) (erbest : Option Best) : Recommended :=
  match compareD0Best (CmpDS.ofOwn own) erbest with
  | .better | .same => .m1 own
  | .worse p => .p1 p.ann

def recommendHigh (own : DefaultDS) (ebest erbest : Option Best) : Recommended :=
  match compareD0Best (CmpDS.ofOwn own) ebest with
  | .better | .same => .m2 own
  | .worse g =>
    match erbest with
    | none => .m3 g.ann
    | some p => compareGlobalAndPort g p

/-- `Bmca::calculate_recommended_state`; `listening` = the port is in the Listening state -/
def recommend (own : DefaultDS) (ebest erbest : Option Best) (listening : Bool) : Option Recommended :=
  if erbest.isNone && listening then none
  else if 1 ≤ own.quality.clockClass ∧ own.quality.clockClass ≤ 127 then some (recommendLow own erbest)
  else some (recommendHigh own ebest erbest)

end Statime
