import StatimeModel.Model.Port
/-
Model of statime/src/ptp_instance.rs: a `PtpInstance` with its ports, and the
host-call alphabet as one `step` function.  Core-only.
-/
namespace Statime

structure Inst where
  st : InstState
  ports : List Port
  logBmca : Int := 127       -- `AtomicI8::new(i8::MAX)`, lowered by every `add_port`
  deriving DecidableEq, Repr, Inhabited

inductive Op
  | gen (p : Nat) (data : List UInt8)
  | evt (p : Nat) (data : List UInt8) (ts : Nat)
  | tmrAnnounce (p : Nat) (loose : Bool) (q : List FwdTlv)
  | tmr (p : Nat) (k : Timer)
  | txts (p : Nat) (ctx : TsCtx) (ts : Nat)
  | bmca (order : List Nat)
  | setSlaveOnly (b : Bool)
  | setQuality (q : ClockQuality)
  | addPort (cfg : PortCfg)
  deriving Repr, Inhabited

/-- observations: (port index, item); port 0 = not attributed -/
abbrev Obs := List (Nat × Out)

def tag (k : Nat) (o : List Out) : Obs := o.map (fun x => (k, x))

def Inst.new (d : DefaultDS) (pathTrace : Bool) (tp : TimeProps) : Inst :=
  { st := { dflt := { d with numberPorts := 0 }, stepsRemoved := 0,
            parent := { parentPort := ⟨d.clockIdentity, 0⟩, gmIdentity := d.clockIdentity,
                        gmQuality := d.quality, gmP1 := d.p1, gmP2 := d.p2 },
            pathTrace := [], pathEnable := pathTrace, tp := tp },
    ports := [] }

def setPort (ports : List Port) (k : Nat) (p : Port) : List Port := ports.set (k - 1) p

/-- port number `k` (1-based; 0 is no port) -/
def portAt (ports : List Port) (k : Nat) : Option Port := if k = 0 then none else ports[k - 1]?

/-- `best_local_announce_message_for_bmca` -/
def bestForBmca (p : Port) (lb : Option Best) : Option Best :=
  if p.cfg.masterOnly ∨ p.st = .faulty then none else lb

/-- phase 1 of `PtpInstanceState::bmca`: every port (in slice order) computes its Erbest -/
def bmcaTakeBest : List Nat → List Port → List (Nat × Option Best) → List Port × List (Nat × Option Best)
  | [], ports, acc => (ports, acc)
  | k :: rest, ports, acc =>
    match portAt ports k with
    | none => bmcaTakeBest rest ports acc
    | some p =>
      let (fml, b) := takeBest p.fml p.cfg.acceptable
      bmcaTakeBest rest (setPort ports k { p with fml := fml }) (acc ++ [(k, b)])

/-- phase 2: recommended state per port, applied immediately (later ports see earlier data set updates
only through `self.default_ds`, which this phase does not change) -/
def bmcaApply (ebest : Option Best) (lbs : List (Nat × Option Best)) :
    List Nat → List Port → InstState → Obs → List (Nat × List Out) →
    R (List Port × InstState × Obs × List (Nat × List Out))
  | [], ports, s, ev, pend => .ok (ports, s, ev, pend)
  | k :: rest, ports, s, ev, pend =>
    match portAt ports k with
    | none => bmcaApply ebest lbs rest ports s ev pend
    | some p =>
      let erbest := (lbs.lookup k).getD none
      match recommend s.dflt ebest erbest (p.st = .listening) with
      | none => bmcaApply ebest lbs rest ports s ev pend
      | some r => do
        let (p, s, e, pd) ← p.setRecommendedState r s
        let pend := match pd with
          | some a => (pend.filter (fun x => x.1 ≠ k)) ++ [(k, a)]
          | none => pend
        bmcaApply ebest lbs rest (setPort ports k p) s (ev ++ tag k e) pend

def bmcaAge (step : Int) : List Nat → List Port → R (List Port)
  | [], ports => .ok ports
  | k :: rest, ports =>
    match portAt ports k with
    | none => bmcaAge step rest ports
    | some p => do
      let p ← p.stepAnnounceAge step
      bmcaAge step rest (setPort ports k p)

/-- `PtpInstance::bmca(ports)` bracketed by `start_bmca` / `end_bmca` of every port.
Observations: events during the run (tagged with the port), then every port's pending actions. -/
def Inst.bmcaWith (i : Inst) (order : List Nat) (step : Int) : R (Inst × Obs) :=
  let tb := bmcaTakeBest order i.ports []
  let cands := order.filterMap (fun k =>
    match portAt tb.1 k with
    | some p => bestForBmca p ((tb.2.lookup k).getD none)
    | none => none)
  match bmcaApply (findBest cands) tb.2 order tb.1 i.st [] [] with
  | .error e => .error e
  | .ok (ports, s, ev, pend) =>
    match bmcaAge step order ports with
    | .error e => .error e
    | .ok ports' =>
      .ok ({ i with st := s, ports := ports' },
           ev ++ (List.range ports'.length).flatMap (fun j => tag (j + 1) ((pend.lookup (j + 1)).getD [])))

def Inst.bmca (i : Inst) (order : List Nat) : R (Inst × Obs) :=
  if i.st.dflt.numberPorts ≠ order.length then .error .assertDbg
  else orOv (durFromLogInterval (if i.logBmca > 62 then 62 else i.logBmca)) fun step => i.bmcaWith order step

/-- run a port-level handler on port `k` (no such port: nothing happens) and store the result -/
def Inst.withPort (i : Inst) (k : Nat) (f : Port → R (Port × InstState × List Out × Nat)) : R (Inst × Obs × Nat) :=
  match portAt i.ports k with
  | none => .ok (i, [], 0)
  | some p =>
    match f p with
    | .error e => .error e
    | .ok (p', s', o, q) => .ok ({ i with st := s', ports := setPort i.ports k p' }, tag k o, q)

/-- the port-level handler a host call runs -/
def Inst.portHandler (i : Inst) : Op → Option (Nat × (Port → R (Port × InstState × List Out × Nat)))
  | .gen k data => some (k, fun p => (p.handleGeneralReceive i.st data).map fun r => (r.1, r.2.1, r.2.2, 0))
  | .evt k data ts => some (k, fun p => (p.handleEventReceive i.st data ts).map fun r => (r.1, r.2.1, r.2.2, 0))
  | .tmrAnnounce k loose q => some (k, fun p => (p.sendAnnounce i.st q loose).map fun r => (r.1, i.st, r.2.1, r.2.2.length))
  | .tmr k .announce => some (k, fun p => (p.sendAnnounce i.st [] true).map fun r => (r.1, i.st, r.2.1, 0))
  | .tmr k .sync => some (k, fun p => (p.sendSync i.st).map fun r => (r.1, i.st, r.2, 0))
  | .tmr k .delay => some (k, fun p => (p.sendDelayRequest i.st).map fun r => (r.1, i.st, r.2, 0))
  | .tmr k .receipt => some (k, fun p => .ok ((p.handleReceiptTimer i.st).1, i.st, (p.handleReceiptTimer i.st).2, 0))
  | .txts k ctx ts => some (k, fun p => (p.handleSendTimestamp i.st ctx ts).map fun r => (r.1, i.st, r.2, 0))
  | _ => none

def Inst.withNewPort (i : Inst) (cfg : PortCfg) (p : Port) : Inst × Obs × Nat :=
  ({ i with st := { i.st with dflt := { i.st.dflt with numberPorts := i.st.dflt.numberPorts + 1 } },
            ports := i.ports ++ [p],
            logBmca := if cfg.announceLog < i.logBmca then cfg.announceLog else i.logBmca },
   tag (i.st.dflt.numberPorts + 1) [.reset .receipt .rand], 0)

def Inst.addPort (i : Inst) (cfg : PortCfg) : R (Inst × Obs × Nat) :=
  (Port.new cfg ⟨i.st.dflt.clockIdentity, i.st.dflt.numberPorts + 1⟩).map (i.withNewPort cfg)

def Inst.setSlaveOnly (i : Inst) (b : Bool) : Inst := { i with st := { i.st with dflt := { i.st.dflt with slaveOnly := b } } }
def Inst.setQuality (i : Inst) (q : ClockQuality) : Inst := { i with st := { i.st with dflt := { i.st.dflt with quality := q } } }

/-- host calls that are not addressed to one existing port -/
def Inst.other (i : Inst) : Op → R (Inst × Obs × Nat)
  | .addPort cfg => i.addPort cfg
  | .setSlaveOnly b => .ok (i.setSlaveOnly b, [], 0)
  | .setQuality q => .ok (i.setQuality q, [], 0)
  | .bmca order => (i.bmca order).map (fun r => (r.1, r.2, 0))
  | .gen _ _ => .ok (i, [], 0)
  | .evt _ _ _ => .ok (i, [], 0)
  | .tmrAnnounce _ _ _ => .ok (i, [], 0)
  | .tmr _ _ => .ok (i, [], 0)      -- filter update timer: the recording filter has nothing to do
  | .txts _ _ _ => .ok (i, [], 0)

def Inst.step (i : Inst) (op : Op) : R (Inst × Obs × Nat) :=
  match i.portHandler op with
  | some (k, f) => i.withPort k f
  | none => i.other op

/-! ### which acquisitions of the instance-state lock each host call performs (C17) -/

inductive LockEv | r | w
  deriving DecidableEq, Repr, Inhabited

/-- lock acquisitions while a received frame is handled (`parse_and_filter`, then the handlers) -/
def recvLocks (p : Port) (s : InstState) (data : List UInt8) (event : Bool) : List LockEv :=
  if !isCompatible data then []
  else match decode data with
    | .error _ => []
    | .ok m =>
      .r ::   -- domain / sdoId check
      (if m.header.sdoId = s.dflt.sdoId ∧ m.header.domain = s.dflt.domain then
        match m.body with
        | .announce _ =>
          -- `matches!(Slave) && src == with_ref(parent)` (short-circuit), then one `with_mut` for table 33
          if p.st.isSlave then .r :: (if m.header.src = s.parent.parentPort then [.w] else []) else []
        | .pdelayReq _ => if event then [.r] else []
        | _ => []
      else [])

def Inst.lockTrace (i : Inst) : Op → List LockEv
  | .gen k data => match portAt i.ports k with | some p => recvLocks p i.st data false | none => []
  | .evt k data _ => match portAt i.ports k with | some p => recvLocks p i.st data true | none => []
  | .tmrAnnounce k loose q =>
    match portAt i.ports k with
    | some p => if p.st = .master then
        -- the message, the path trace list, then the parent identity once per TLV taken from the provider
        .r :: .r :: List.replicate (q.length - (p.announceFwd i.st q loose).2.length) .r else []
    | none => []
  | .tmr k .announce => match portAt i.ports k with | some p => if p.st = .master then [.r, .r] else [] | none => []
  | .tmr k .sync => match portAt i.ports k with | some p => if p.st = .master then [.r] else [] | none => []
  | .tmr k .delay =>
    match portAt i.ports k with
    | some p => if p.cfg.p2p then [.r] else if p.st.isSlave then [.r] else []
    | none => []
  | .tmr k .receipt => match portAt i.ports k with | some p => if p.st = .faulty then [] else [.r] | none => []
  | .tmr _ .filter => []
  | .txts k (.sync _) _ => match portAt i.ports k with | some p => if p.st = .master then [.r] else [] | none => []
  | .txts k (.pdelayResp _ _) _ => match portAt i.ports k with | some _ => [.r] | none => []
  | .txts _ _ _ => []
  | .bmca _ => [.w]
  | .addPort _ => [.w]
  | .setSlaveOnly _ => [.w]
  | .setQuality _ => [.w]

end Statime
