import StatimeModel.Model.Port
/-
Model of statime/src/ptp_instance.rs: a `PtpInstance` with its ports, and the
host-call alphabet as one `step` function.  Core-only.
-/
namespace Statime

structure Inst where
  st : InstState
  ports : List Port
  logBmca : Int := 127       -- `AtomicI8::new(i8::MAX)`, lowered by every `add_port`
  deriving DecidableEq, Repr, Inhabited

inductive Op
  | gen (p : Nat) (data : List UInt8)
  | evt (p : Nat) (data : List UInt8) (ts : Nat)
  | tmrAnnounce (p : Nat) (loose : Bool) (q : List FwdTlv)
  | tmr (p : Nat) (k : Timer)
  | txts (p : Nat) (ctx : TsCtx) (ts : Nat)
  | bmca (order : List Nat)
  | setSlaveOnly (b : Bool)
  | setQuality (q : ClockQuality)
  | addPort (cfg : PortCfg)
  deriving Repr, Inhabited

/-- observations: (port index, item); port 0 = not attributed -/
abbrev Obs := List (Nat × Out)

def tag (k : Nat) (o : List Out) : Obs := o.map (fun x => (k, x))

def Inst.new (d : DefaultDS) (pathTrace : Bool) (tp : TimeProps) : Inst :=
  { st := { dflt := { d with numberPorts := 0 }, stepsRemoved := 0,
            parent := { parentPort := ⟨d.clockIdentity, 0⟩, gmIdentity := d.clockIdentity,
                        gmQuality := d.quality, gmP1 := d.p1, gmP2 := d.p2 },
            pathTrace := [], pathEnable := pathTrace, tp := tp },
    ports := [] }

def setPort (ports : List Port) (k : Nat) (p : Port) : List Port := ports.set (k - 1) p

/-- `best_local_announce_message_for_bmca` -/
def bestForBmca (p : Port) (lb : Option Best) : Option Best :=
  if p.cfg.masterOnly ∨ p.st = .faulty then none else lb

/-- phase 1 of `PtpInstanceState::bmca`: every port (in slice order) computes its Erbest -/
def bmcaTakeBest : List Nat → List Port → List (Nat × Option Best) → List Port × List (Nat × Option Best)
  | [], ports, acc => (ports, acc)
  | k :: rest, ports, acc =>
    match ports[k - 1]? with
    | none => bmcaTakeBest rest ports acc
    | some p =>
      let (fml, b) := takeBest p.fml p.cfg.acceptable
      bmcaTakeBest rest (setPort ports k { p with fml := fml }) (acc ++ [(k, b)])

/-- phase 2: recommended state per port, applied immediately (later ports see earlier data set updates
only through `self.default_ds`, which this phase does not change) -/
def bmcaApply (ebest : Option Best) (lbs : List (Nat × Option Best)) :
    List Nat → List Port → InstState → Obs → List (Nat × List Out) →
    R (List Port × InstState × Obs × List (Nat × List Out))
  | [], ports, s, ev, pend => .ok (ports, s, ev, pend)
  | k :: rest, ports, s, ev, pend =>
    match ports[k - 1]? with
    | none => bmcaApply ebest lbs rest ports s ev pend
    | some p =>
      let erbest := (lbs.lookup k).getD none
      match recommend s.dflt ebest erbest (p.st = .listening) with
      | none => bmcaApply ebest lbs rest ports s ev pend
      | some r => do
        let (p, s, e, pd) ← p.setRecommendedState r s
        let pend := match pd with
          | some a => (pend.filter (fun x => x.1 ≠ k)) ++ [(k, a)]
          | none => pend
        bmcaApply ebest lbs rest (setPort ports k p) s (ev ++ tag k e) pend

def bmcaAge (step : Int) : List Nat → List Port → R (List Port)
  | [], ports => .ok ports
  | k :: rest, ports =>
    match ports[k - 1]? with
    | none => bmcaAge step rest ports
    | some p => do
      let p ← p.stepAnnounceAge step
      bmcaAge step rest (setPort ports k p)

/-- `PtpInstance::bmca(ports)` bracketed by `start_bmca` / `end_bmca` of every port.
Observations: events during the run (tagged with the port), then every port's pending actions. -/
def Inst.bmca (i : Inst) (order : List Nat) : R (Inst × Obs) := do
  if i.st.dflt.numberPorts ≠ order.length then .error .assertDbg else
  let step ← liftOv (durFromLogInterval i.logBmca)
  let (ports, lbs) := bmcaTakeBest order i.ports []
  let cands := order.filterMap (fun k =>
    match ports[k - 1]? with
    | some p => bestForBmca p ((lbs.lookup k).getD none)
    | none => none)
  let ebest := findBest cands
  let (ports, s, ev, pend) ← bmcaApply ebest lbs order ports i.st [] []
  let ports ← bmcaAge step order ports
  let pendObs := (List.range ports.length).flatMap (fun j => tag (j + 1) ((pend.lookup (j + 1)).getD []))
  .ok ({ i with st := s, ports := ports }, ev ++ pendObs)

def Inst.step (i : Inst) (op : Op) : R (Inst × Obs × Nat) :=
  match op with
  | .addPort cfg => do
    let n := i.st.dflt.numberPorts + 1
    let p ← Port.new cfg ⟨i.st.dflt.clockIdentity, n⟩
    let lb := if cfg.announceLog < i.logBmca then cfg.announceLog else i.logBmca
    .ok ({ i with st := { i.st with dflt := { i.st.dflt with numberPorts := n } }, ports := i.ports ++ [p], logBmca := lb },
         tag n [.reset .receipt .rand], 0)
  | .setSlaveOnly b => .ok ({ i with st := { i.st with dflt := { i.st.dflt with slaveOnly := b } } }, [], 0)
  | .setQuality q => .ok ({ i with st := { i.st with dflt := { i.st.dflt with quality := q } } }, [], 0)
  | .bmca order => (i.bmca order).map (fun (i, o) => (i, o, 0))
  | .gen k data =>
    match i.ports[k - 1]? with
    | none => .ok (i, [], 0)
    | some p => do
      let (p, s, o) ← p.handleGeneralReceive i.st data
      .ok ({ i with st := s, ports := setPort i.ports k p }, tag k o, 0)
  | .evt k data ts =>
    match i.ports[k - 1]? with
    | none => .ok (i, [], 0)
    | some p => do
      let (p, s, o) ← p.handleEventReceive i.st data ts
      .ok ({ i with st := s, ports := setPort i.ports k p }, tag k o, 0)
  | .tmrAnnounce k loose q =>
    match i.ports[k - 1]? with
    | none => .ok (i, [], 0)
    | some p => do
      let (p, o, q') ← p.sendAnnounce i.st q loose
      .ok ({ i with ports := setPort i.ports k p }, tag k o, q'.length)
  | .tmr k t =>
    match i.ports[k - 1]? with
    | none => .ok (i, [], 0)
    | some p =>
      match t with
      | .announce => do
        let (p, o, _) ← p.sendAnnounce i.st [] true
        .ok ({ i with ports := setPort i.ports k p }, tag k o, 0)
      | .sync => do
        let (p, o) ← p.sendSync i.st
        .ok ({ i with ports := setPort i.ports k p }, tag k o, 0)
      | .delay => do
        let (p, o) ← p.sendDelayRequest i.st
        .ok ({ i with ports := setPort i.ports k p }, tag k o, 0)
      | .receipt =>
        let (p, o) := p.handleReceiptTimer i.st
        .ok ({ i with ports := setPort i.ports k p }, tag k o, 0)
      | .filter => .ok (i, [], 0)
  | .txts k ctx ts =>
    match i.ports[k - 1]? with
    | none => .ok (i, [], 0)
    | some p => do
      let (p, o) ← p.handleSendTimestamp i.st ctx ts
      .ok ({ i with ports := setPort i.ports k p }, tag k o, 0)

end Statime
