/-
C01, abstract network level (L0): instances reduced to what the best master clock algorithm sees.

A node has its own data set, flags, and ports attached to segments. A port in the Master state
advertises on its segment the node's current (grandmaster attributes, stepsRemoved); every node takes,
per port, the best qualified advertisement of the other Master ports of that segment (`Erbest`), the
best of those (`Ebest`, master-only ports excluded), and applies the data set comparison and state
decision of Model/Bmca.lean (`CmpDS.compare`, the decision codes of `recommendLow` / `recommendHigh`)
and the port state rules of `portMove`. Timing is abstracted into rounds: a port that hears no master
becomes Master itself (announce receipt timeout) unless the instance is slave-only.

`settle` runs node-by-node sweeps from the cold start until nothing changes (or fuel runs out); the
`NETX` op prints the resulting states, which the `net` stream compares with the states real instances
reach on the same topology — after a cold start and after faults.
Core-only.
-/
import StatimeModel.Model.Bmca
import StatimeModel.Model.Util

namespace Statime.Net
open Statime

structure PortCfg where
  seg : Nat
  masterOnly : Bool
  attached : Bool := true
  deriving Repr, DecidableEq, Inhabited

structure NodeCfg where
  id : Nat
  p1 : Nat
  cls : Nat
  acc : Nat
  var : Nat
  p2 : Nat
  slaveOnly : Bool
  alive : Bool := true
  ports : List PortCfg
  deriving Repr, Inhabited

inductive PSt | listening | master | slave | passive
  deriving Repr, DecidableEq, Inhabited

/-- grandmaster attributes as they travel in an Announce -/
structure Gm where
  p1 : Nat
  id : Nat
  cls : Nat
  acc : Nat
  var : Nat
  p2 : Nat
  deriving Repr, DecidableEq, Inhabited

structure NodeSt where
  ports : List PSt
  parentClock : Nat
  parentPort : Nat
  steps : Nat
  gm : Gm
  deriving Repr, DecidableEq, Inhabited

def NodeCfg.ownGm (c : NodeCfg) : Gm := { p1 := c.p1, id := c.id, cls := c.cls, acc := c.acc, var := c.var, p2 := c.p2 }

def NodeCfg.cold (c : NodeCfg) : NodeSt :=
  { ports := c.ports.map fun _ => .listening, parentClock := c.id, parentPort := 0, steps := 0, gm := c.ownGm }

/-- an advertisement on a segment -/
structure Adv where
  gm : Gm
  steps : Nat
  sender : Nat
  senderPort : Nat
  deriving Repr, DecidableEq, Inhabited

def Adv.cmpDS (a : Adv) (rxClock rxPort : Nat) : CmpDS :=
  { gmP1 := a.gm.p1, gmId := a.gm.id, gmClass := a.gm.cls, gmAcc := a.gm.acc, gmVar := a.gm.var, gmP2 := a.gm.p2,
    steps := a.steps, sender := a.sender, receiver := ⟨rxClock, rxPort⟩ }

def ownCmpDS (c : NodeCfg) : CmpDS :=
  { gmP1 := c.p1, gmId := c.id, gmClass := c.cls, gmAcc := c.acc, gmVar := c.var, gmP2 := c.p2, steps := 0,
    sender := c.id, receiver := ⟨c.id, 0⟩ }

abbrev Net := List (NodeCfg × NodeSt)

/-- what the Master ports of segment `seg` advertise, except the port (`x`, `j`) itself -/
def advsOn (net : Net) (seg : Nat) (x j : Nat) : List Adv :=
  (net.zipIdx.flatMap fun ((c, s), n) =>
    if !c.alive then [] else
    (c.ports.zipIdx.filterMap fun (pc, k) =>
      if pc.seg = seg ∧ pc.attached ∧ !(n = x ∧ k = j) ∧ s.ports.getD k .listening = .master then
        some { gm := s.gm, steps := s.steps, sender := c.id, senderPort := k + 1 }
      else none))

/-- the better of two advertisements as port (`rxClock`, `rxPort`) compares them (`max_by`: the later one on a tie) -/
def better (rxClock rxPort : Nat) (a b : Adv) : Adv :=
  match ((a.cmpDS rxClock rxPort).compare (b.cmpDS rxClock rxPort)).asOrdering with
  | .gt => a
  | _ => b

def bestOf (rxClock rxPort : Nat) : List Adv → Option Adv
  | [] => none
  | a :: rest => some (rest.foldl (better rxClock rxPort) a)

/-- qualified: not from this instance's own clock, stepsRemoved below the cut-off -/
def qualified (c : NodeCfg) (a : Adv) : Bool := a.sender ≠ c.id && a.steps < STEPS_CUTOFF

/-- decision codes: `gm` = M1 / M2 (the data sets become the instance's own), `m3`, `p` = P1 / P2, `s` = S1 -/
inductive Dec | gm | m3 | p | s (a : Adv)
  deriving Repr, DecidableEq, Inhabited

/-- decision code of one port: `recommendLow` / `recommendHigh` on the abstract records;
`ebest` with the port it was received on -/
def decide (c : NodeCfg) (ebest : Option (Adv × Nat)) (erbest : Option Adv) (j : Nat) : Dec :=
  let d0 := ownCmpDS c
  if 1 ≤ c.cls ∧ c.cls ≤ 127 then
    match erbest with
    | none => .gm
    | some e => match (d0.compare (e.cmpDS c.id (j + 1))).asOrdering with
      | .lt => .p
      | _ => .gm
  else
    match ebest with
    | none => .gm
    | some (g, gj) =>
      match (d0.compare (g.cmpDS c.id (gj + 1))).asOrdering with
      | .lt =>
        (match erbest with
         | none => .m3
         | some e =>
           if gj = j ∧ g = e then .s g
           else if (g.cmpDS c.id (gj + 1)).compare (e.cmpDS c.id (j + 1)) = .betterTopo then .p else .m3)
      | _ => .gm

/-- `Erbest` of every port of node `x` -/
def erbestsOf (net : Net) (x : Nat) (c : NodeCfg) : List (Option Adv) :=
  c.ports.zipIdx.map fun (pc, j) =>
    if !pc.attached then none else bestOf c.id (j + 1) ((advsOn net pc.seg x j).filter (qualified c))

def betterCand (c : NodeCfg) (acc y : Adv × Nat) : Adv × Nat :=
  match ((acc.1.cmpDS c.id (acc.2 + 1)).compare (y.1.cmpDS c.id (y.2 + 1))).asOrdering with
  | .gt => acc
  | _ => y

/-- the candidates for `Ebest`: every port's `Erbest` with its port index, master-only ports excluded -/
def candsOf (c : NodeCfg) (erbests : List (Option Adv)) : List (Adv × Nat) :=
  (c.ports.zip erbests).zipIdx.filterMap fun ((pc, e), j) => if pc.masterOnly then none else e.map fun a => (a, j)

def ebestOf (c : NodeCfg) (erbests : List (Option Adv)) : Option (Adv × Nat) :=
  match candsOf c erbests with
  | [] => none
  | a :: rest => some (rest.foldl (betterCand c) a)

/-- `calculate_recommended_state` per port: a Listening port without a qualified master gets no decision at all -/
def decsOf (c : NodeCfg) (s : NodeSt) (erbests : List (Option Adv)) : List (Option Dec) :=
  erbests.zipIdx.map fun (e, j) =>
    if s.ports.getD j .listening = .listening ∧ e.isNone then none else some (decide c (ebestOf c erbests) e j)

/-- a higher-numbered port of the same instance on a segment where a lower-numbered one is Master goes Passive -/
def shadowed (c : NodeCfg) (s : NodeSt) (j : Nat) : Bool :=
  c.ports.zipIdx.any fun (pc, i) =>
    i < j ∧ pc.attached ∧ pc.seg = (c.ports.getD j default).seg ∧ (c.ports.getD j default).attached
      ∧ s.ports.getD i .listening = .master

/-- does the port hear any Announce at all (qualified or not)? Each one re-arms its announce receipt timer -/
def hears (net : Net) (x : Nat) (c : NodeCfg) (j : Nat) : Bool :=
  (c.ports.getD j default).attached && !(advsOn net (c.ports.getD j default).seg x j).isEmpty

def portOf (net : Net) (x : Nat) (c : NodeCfg) (s : NodeSt) (d : Option Dec) (j : Nat) : PSt :=
  match d with
  | none =>
    -- only the announce receipt timeout moves it: to Master, unless the instance is slave-only, and never
    -- while Announces (e.g. of the instance's own other port on the segment) keep arriving
    if c.slaveOnly ∨ hears net x c j then .listening else .master
  | some (.s _) => .slave
  | some .p => .passive
  | some .gm | some .m3 =>
    if c.slaveOnly then .listening
    else if shadowed c s j then .passive
    else .master

def slaveDec (decs : List (Option Dec)) : Option Adv :=
  decs.findSome? fun d => match d with | some (.s a) => some a | _ => none

/-- one node re-evaluates all its ports against the current state of the network -/
def stepNode (net : Net) (x : Nat) : NodeSt :=
  match net[x]? with
  | none => default
  | some (c, s) =>
    if !c.alive then s else
    let decs := decsOf c s (erbestsOf net x c)
    let ports : List PSt := decs.zipIdx.map fun (d, j) => portOf net x c s d j
    -- data sets: S1 takes the parent's; M1 / M2 make them the instance's own; anything else leaves them
    match slaveDec decs with
    | some a => { ports := ports, parentClock := a.sender, parentPort := a.senderPort, steps := a.steps + 1, gm := a.gm }
    | none =>
      if decs.any (· = some .gm) then
        { ports := ports, parentClock := c.id, parentPort := 0, steps := 0, gm := c.ownGm }
      else { s with ports := ports }

def setSt (net : Net) (x : Nat) (s : NodeSt) : Net :=
  net.zipIdx.map fun ((c, old), n) => (c, if n = x then s else old)

/-- one sweep: every node in turn, each seeing the others' latest state -/
def sweep (net : Net) : Net := (List.range net.length).foldl (fun acc x => setSt acc x (stepNode acc x)) net

def settle : Nat → Net → Net × Bool
  | 0, net => (net, false)
  | fuel + 1, net =>
    let net' := sweep net
    if net'.map (·.2) = net.map (·.2) then (net, true) else settle fuel net'

/-! ### line protocol: `NETX <node>;<node>;…` with node = id,p1,cls,acc,var,p2,slaveOnly,alive,port:port:… and
port = seg.masterOnly.attached -/

def pstStr : PSt → String
  | .listening => "Listening" | .master => "Master" | .slave => "Slave" | .passive => "Passive"

def hex16 (n : Nat) : String := String.ofList ((List.range 16).map fun i => hexChar (n / 16 ^ (15 - i) % 16))

def parsePort (s : String) : Option PortCfg :=
  match s.splitOn "." with
  | [seg, mo, att] => (seg.toNat?).map fun g => { seg := g, masterOnly := mo = "1", attached := att = "1" }
  | _ => none

def parseNode (s : String) : Option NodeCfg :=
  match s.splitOn "," with
  | [id, p1, cls, acc, var, p2, so, al, ports] =>
    match id.toNat?, p1.toNat?, cls.toNat?, acc.toNat?, var.toNat?, p2.toNat? with
    | some id, some p1, some cls, some acc, some var, some p2 =>
      ((ports.splitOn ":").mapM parsePort).map fun ps =>
        { id := id, p1 := p1, cls := cls, acc := acc, var := var, p2 := p2, slaveOnly := so = "1", alive := al = "1", ports := ps }
    | _, _, _, _, _, _ => none
  | _ => none

def parsePSt (s : String) : Option PSt :=
  if s = "Listening" then some .listening else if s = "Master" then some .master
  else if s = "Slave" then some .slave else if s = "Passive" then some .passive else none

def hexNat? (s : String) : Option Nat :=
  s.toList.foldl (fun acc c => acc.bind fun a => (hexDigit? c).map fun d => a * 16 + d) (some 0)

/-- node state: `st.st…,steps,parentClockHex,parentPort,gmIdHex,gmClass,gmAcc,gmVar,gmP1,gmP2` -/
def parseState (s : String) : Option NodeSt :=
  match s.splitOn "," with
  | [sts, steps, pc, pp, gid, gc, ga, gv, g1, g2] =>
    match (sts.splitOn ".").mapM parsePSt, steps.toNat?, hexNat? pc, pp.toNat?, hexNat? gid with
    | some ps, some st, some pc, some pp, some gid =>
      match gc.toNat?, ga.toNat?, gv.toNat?, g1.toNat?, g2.toNat? with
      | some gc, some ga, some gv, some g1, some g2 =>
        some { ports := ps, steps := st, parentClock := pc, parentPort := pp,
               gm := { p1 := g1, id := gid, cls := gc, acc := ga, var := gv, p2 := g2 } }
      | _, _, _, _, _ => none
    | _, _, _, _, _ => none
  | _ => none

def stStr (s : NodeSt) : String :=
  s!"{",".intercalate (s.ports.map pstStr)} {s.steps} {hex16 s.parentClock}:{s.parentPort} {hex16 s.gm.id}"

/-- `NETX <nodes> <states>`: is the given network state a fixed point of the node-wise re-evaluation? -/
def netxLine (ws : List String) : String :=
  match ws with
  | [spec, sts] =>
    match (spec.splitOn ";").mapM parseNode, (sts.splitOn ";").mapM (fun t => if t = "off" then some (default : NodeSt) else parseState t) with
    | some cfgs, some states =>
      if cfgs.length ≠ states.length then "bad-op" else
      let net : Net := cfgs.zip states
      let bad := (List.range net.length).filter fun x =>
        (cfgs.getD x default).alive && stepNode net x != (states.getD x default)
      match bad with
      | [] => "stable"
      | x :: _ => s!"unstable N{x}: re-evaluation gives {stStr (stepNode net x)}"
    | _, _ => "bad-op"
  | _ => "bad-op"

end Statime.Net
