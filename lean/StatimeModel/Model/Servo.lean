/-
Model of statime/src/filters/{kalman,basic,matrix}.rs: the Kalman servo and the basic averaging
filter, call by call (`measurement`, `update`, `demobilize`) against a clock that records the
commands it is given and may refuse them.

Floating point: an `f64` is its bit pattern (`Model/F64.lean`). Comparisons, negation, `abs`,
`signum`, `max`, `clamp` and the conversions to and from `Duration` are defined there, on the bits.
The rounding operations come in as the parameter `A : Arith`; the model applies them in exactly the
order the Rust expressions do. The driver instantiates `A` with the machine's binary64 operations
and the correspondence check compares every bit of the servo state after every call; the theorems
in Props/C13.lean are stated for every `A`.

`none` = the call panics (debug build): NaN / overflow in `Duration::from_seconds`, a failed
`debug_assert!`, fixed-point overflow.

Core-only.
-/
import StatimeModel.Model.F64

namespace Statime.Servo
open Statime

/-- the rounding operations of binary64, on bit patterns -/
structure Arith where
  add : Nat → Nat → Nat
  sub : Nat → Nat → Nat
  mul : Nat → Nat → Nat
  div : Nat → Nat → Nat
  sqrt : Nat → Nat
  exp : Nat → Nat

/-! ### constants (bit patterns) -/
def cZero : Nat := 0
def cNegZero : Nat := 9223372036854775808
def cOne : Nat := 0x3FF0000000000000
def cTwo : Nat := 0x4000000000000000
def cThree : Nat := 0x4008000000000000
def cTen : Nat := 0x4024000000000000
def c1e6 : Nat := 0x412E848000000000
def c1em6 : Nat := 0x3EB0C6F7A0B5ED8D
def c1e9 : Nat := 0x41CDCD6500000000
def c31 : Nat := 0x403F000000000000
def c32 : Nat := 0x4040000000000000
def cTenth : Nat := 0x3FB999999999999A
def c1em4 : Nat := 0x3F1A36E2EB1C432D
def chiP : Nat := 0x3FD4F740A93D7B8C
def chiA1 : Nat := 0x3FD04F20C6EC5A7E
def chiA2 : Nat := 0xBFD23531CC3C1469
def chiA3 : Nat := 0x3FF6BE1C55BAE157
def chiA4 : Nat := 0xBFF7401C57014C39
def chiA5 : Nat := 0x3FF0FB844255A12D

/-- `Duration::seconds()`: `inner.az::<f64>() / 1e9` -/
def durSeconds (A : Arith) (d : Int) : Nat := A.div (fixed32ToF64 d) c1e9

def sqr (A : Arith) (x : Nat) : Nat := A.mul x x

/-- `iter.sum::<f64>()`: a left fold that starts from -0.0 -/
def fsum (A : Arith) (xs : List Nat) : Nat := xs.foldl A.add cNegZero

/-! ### matrices (`matrix.rs`), as lists of rows -/
abbrev Mat := List (List Nat)

def Mat.col (m : Mat) (j : Nat) : List Nat := m.map (fun r => r.getD j 0)
def Mat.ncols (m : Mat) : Nat := (m.headD []).length
def Mat.transpose (m : Mat) : Mat := (List.range m.ncols).map (fun j => m.col j)
def Mat.entry (m : Mat) (i j : Nat) : Nat := (m.getD i []).getD j 0

def dot (A : Arith) (r c : List Nat) : Nat := fsum A (List.zipWith A.mul r c)

def Mat.mul (A : Arith) (a b : Mat) : Mat :=
  let bt := b.transpose
  a.map (fun r => bt.map (fun c => dot A r c))

def Mat.zip (f : Nat → Nat → Nat) (a b : Mat) : Mat := List.zipWith (fun r s => List.zipWith f r s) a b
def Mat.add (A : Arith) (a b : Mat) : Mat := Mat.zip A.add a b
def Mat.sub (A : Arith) (a b : Mat) : Mat := Mat.zip A.sub a b

def Mat.symmetrize (A : Arith) (m : Mat) : Mat :=
  (List.range m.length).map (fun i => (List.range m.length).map (fun j => A.div (A.add (m.entry i j) (m.entry j i)) cTwo))

def unit3 : Mat := [[cOne, cZero, cZero], [cZero, cOne, cZero], [cZero, cZero, cOne]]
def vec (xs : List Nat) : Mat := xs.map (fun x => [x])

/-! ### configuration -/
structure Cfg where
  thr : Int        -- step_threshold (Duration bits)
  dz : Nat         -- deadzone
  st : Int         -- steer_time
  ms : Nat         -- max_steer
  mf : Nat         -- max_freq_offset
  ifu : Nat        -- initial_frequency_uncertainty
  iw : Nat         -- initial_wander
  dw : Nat         -- delay_wander
  plo : Nat
  phi : Nat
  hyst : Nat       -- u8
  et : Int         -- estimate_threshold
  deb : Nat
  seb : Nat
  pdf : Nat        -- peer_delay_factor
  deriving Repr, Inhabited

structure Meas where
  eventTime : Nat
  offset : Option Int
  delay : Option Int
  peerDelay : Option Int
  rawSync : Option Int
  rawDelay : Option Int
  deriving Repr, Inhabited

/-- the clock during one call: its reading, and whether it refuses commands -/
structure ClockIn where
  now : Nat
  failFreq : Bool
  failStep : Bool

inductive Cmd
  | freq (f : Nat) (ok : Bool)
  | step (d : Int) (ok : Bool)
  deriving Repr, DecidableEq, Inhabited

/-- `FilterUpdate` -/
structure Upd where
  nextUpdate : Bool := false
  meanDelay : Option Int := none
  deriving Repr, Inhabited

/-! ### MeasurementErrorEstimator -/
structure Est where
  data : List Nat := List.replicate 32 0
  nextIdx : Nat := 0
  fill : Nat := 0
  lastSync : Option (Nat × Int) := none
  lastDelay : Option (Nat × Int) := none
  peer : Bool := false
  deriving Repr, Inhabited

def Est.mean (A : Arith) (e : Est) : Nat := A.div (fsum A (e.data.take e.fill)) c32

def Est.variance (A : Arith) (e : Est) : Nat :=
  let mean := e.mean A
  A.div (fsum A ((e.data.take e.fill).map (fun v => sqr A (A.sub v mean)))) c31

/-- `max_by` / `min_by` with a comparator that never answers Equal; `none` = `unwrap` on an empty set -/
def Est.rangeSize (A : Arith) (e : Est) : Option Nat :=
  match e.data.take e.fill with
  | [] => none
  | x :: xs =>
    let mx := xs.foldl (fun acc y => if f64Lt y acc then acc else y) x
    let mn := xs.foldl (fun acc y => if f64Lt y acc then y else acc) x
    some (A.sub mx mn)

def Est.insert (e : Est) (entry : Nat) : Est :=
  { e with data := e.data.set e.nextIdx entry, nextIdx := (e.nextIdx + 1) % 32, fill := min (e.fill + 1) 32 }

def Est.measurementVariance (A : Arith) (e : Est) (c : Cfg) : Option Nat :=
  if e.fill < c.deb then some (sqr A (durSeconds A c.st))
  else if e.fill < c.seb then (e.rangeSize A).map (sqr A)
  else some (A.div (e.variance A) cTwo)

/-- `(a - b).abs() < threshold` on `Time`s -/
def closeInTime (a b : Nat) (thr : Int) : Option Bool :=
  (timeSub a b).bind fun d => (durAbs d).map fun x => decide (x < thr)

def Est.absorbSync (A : Arith) (e : Est) (m : Meas) (freq : Nat) (c : Cfg) : Option Est :=
  match m.rawSync with
  | none => some e
  | some so =>
    match e.lastDelay with
    | some (time, dof) =>
      let e := { e with lastDelay := none }
      (closeInTime m.eventTime time c.et).bind fun close =>
      if close then
        (timeSub time m.eventTime).map fun dt =>
          e.insert (A.add (A.sub (durSeconds A so) (durSeconds A dof)) (A.mul (durSeconds A dt) freq))
      else some { e with lastSync := some (m.eventTime, so) }
    | none => some { e with lastSync := some (m.eventTime, so) }

def Est.absorbDelay (A : Arith) (e : Est) (m : Meas) (freq : Nat) (c : Cfg) : Option Est :=
  match m.rawDelay with
  | none => some e
  | some dof =>
    match e.lastSync with
    | some (time, so) =>
      let e := { e with lastSync := none }
      (closeInTime m.eventTime time c.et).bind fun close =>
      if close then
        (timeSub m.eventTime time).map fun dt =>
          e.insert (A.add (A.sub (durSeconds A so) (durSeconds A dof)) (A.mul (durSeconds A dt) freq))
      else some { e with lastDelay := some (m.eventTime, dof) }
    | none => some { e with lastDelay := some (m.eventTime, dof) }

def Est.absorbPeer (A : Arith) (e : Est) (m : Meas) : Est :=
  match m.peerDelay with
  | none => e
  | some pd => ({ e with lastDelay := none, lastSync := none, peer := true }).insert (durSeconds A pd)

def Est.absorb (A : Arith) (e : Est) (m : Meas) (freq : Nat) (c : Cfg) : Option Est :=
  (e.absorbSync A m freq c).bind fun e => (e.absorbDelay A m freq c).map fun e => e.absorbPeer A m

/-! ### InnerFilter -/
structure Inner where
  state : List Nat      -- 3
  unc : Mat             -- 3x3
  ft : Nat              -- filter_time
  deriving Repr, Inhabited

def hSync : Mat := [[cOne, cZero, cOne]]
def hDelay : Mat := [[cOne, cZero, 0xBFF0000000000000]]
def hPeer : Mat := [[cZero, cZero, cOne]]

def Inner.new (A : Arith) (offset : Nat) (time : Nat) (c : Cfg) : Inner :=
  let t2 := sqr A (durSeconds A c.thr)
  { state := [offset, cZero, cZero],
    unc := [[t2, cZero, cZero], [cZero, sqr A c.ifu, cZero], [cZero, cZero, t2]],
    ft := time }

def Inner.s (i : Inner) (k : Nat) : Nat := i.state.getD k 0

def Inner.progress (A : Arith) (i : Inner) (time wander : Nat) (c : Cfg) : Option Inner :=
  if time < i.ft then some i   -- the filter time is ahead of `time` (stale time base after a backward step): state kept
  else
    (timeSub time i.ft).map fun d =>
    let dt := durSeconds A d
    let update : Mat := [[cOne, dt, cZero], [cZero, cOne, cZero], [cZero, cZero, cOne]]
    let wdt := A.mul wander dt
    let wdt2 := A.mul wdt dt
    let noise : Mat :=
      [[A.div (A.mul wdt2 dt) cThree, A.div wdt2 cTwo, cZero],
       [A.div wdt2 cTwo, wdt, cZero],
       [cZero, cZero, A.mul (A.mul c.dw dt) (sqr A (i.s 2))]]
    let st := (Mat.mul A update (vec i.state)).col 0
    let unc := Mat.add A (Mat.mul A (Mat.mul A update i.unc) update.transpose) noise
    { state := st, unc := unc, ft := time }

def Inner.predict (A : Arith) (i : Inner) (h : Mat) : Nat × Nat :=
  let p := Mat.mul A h (vec i.state)
  let u := Mat.mul A (Mat.mul A h i.unc) h.transpose
  (p.entry 0 0, u.entry 0 0)

/-- `absorb_measurement`: skipped when the innovation covariance has no finite inverse -/
def Inner.absorbMeas (A : Arith) (i : Inner) (z : Nat) (h : Mat) (r : Nat) : Inner :=
  let (pred, u) := i.predict A h
  let diff := A.sub z pred
  let cov := A.add u r
  let weight := A.div cOne cov
  if f64IsFinite weight then
    let k := Mat.mul A (Mat.mul A i.unc h.transpose) [[weight]]
    let st := (Mat.add A (vec i.state) (Mat.mul A k [[diff]])).col 0
    let unc := Mat.symmetrize A (Mat.mul A (Mat.sub A unit3 (Mat.mul A k h)) i.unc)
    { i with state := st, unc := unc }
  else i

def Inner.freqSteer (A : Arith) (i : Inner) (steer : Nat) (time wander : Nat) (c : Cfg) : Option Inner :=
  (i.progress A time wander c).map fun i =>
    { i with state := (Mat.add A (vec i.state) (vec [cZero, A.mul steer c1em6, cZero])).col 0 }

def Inner.offsetSteer (A : Arith) (i : Inner) (steer : Nat) : Option Inner :=
  let st := (Mat.add A (vec i.state) (vec [steer, cZero, cZero])).col 0
  (durFromSeconds steer).bind fun d => (timeAddDur i.ft d).map fun ft => { i with state := st, ft := ft }

/-! ### BaseFilter = Option Inner -/
abbrev Base := Option Inner

def Base.progress (A : Arith) (b : Base) (time wander : Nat) (c : Cfg) : Option Base :=
  match b with
  | some i => (i.progress A time wander c).map some
  | none => some (some (Inner.new A cZero time c))

/-- `absorb_sync_offset` / `absorb_delay_offset`: reset on an outlier -/
def Base.absorbOffset (A : Arith) (b : Base) (off : Nat) (variance : Nat) (h : Mat) (c : Cfg) : Base :=
  match b with
  | some i =>
    if f64Lt (durSeconds A c.thr) (f64Abs (A.sub off (i.s 0))) then some (Inner.new A off i.ft c)
    else some (i.absorbMeas A off h variance)
  | none => none

def Base.absorbPeer (A : Arith) (b : Base) (pd variance : Nat) : Base :=
  b.map fun i => i.absorbMeas A pd hPeer variance

def Base.freqSteer (A : Arith) (b : Base) (steer time wander : Nat) (c : Cfg) : Option Base :=
  match b with
  | some i => (i.freqSteer A steer time wander c).map some
  | none => some (some (Inner.new A cZero time c))

def Base.offsetSteer (A : Arith) (b : Base) (steer : Nat) : Option Base :=
  match b with
  | some i => (i.offsetSteer A steer).map some
  | none => some none

def Base.offset (b : Base) : Nat := match b with | some i => i.s 0 | none => cZero
def Base.freqOffset (b : Base) : Nat := match b with | some i => i.s 1 | none => cZero
def Base.meanDelay (b : Base) : Nat := match b with | some i => i.s 2 | none => cZero
def Base.offsetUnc (A : Arith) (b : Base) (c : Cfg) : Nat :=
  match b with | some i => A.sqrt (i.unc.entry 0 0) | none => durSeconds A c.thr
def Base.predict (A : Arith) (b : Base) (h : Mat) (c : Cfg) : Nat × Nat :=
  match b with | some i => i.predict A h | none => (cZero, sqr A (durSeconds A c.thr))
def Base.afterFilterTime (b : Base) (time : Nat) : Bool :=
  match b with | some i => decide (i.ft ≤ time) | none => true

/-! ### KalmanFilter -/
structure Kalman where
  cfg : Cfg
  run : Base := none
  wan : Base := none
  ws : Int := 0          -- wander_score (i8)
  w : Nat                -- wander
  wme : Nat              -- wander_measurement_error
  est : Est := {}
  cur : Option Nat := none
  deriving Repr, Inhabited

def Kalman.new (A : Arith) (c : Cfg) : Option Kalman :=
  let e : Est := {}
  (e.measurementVariance A c).map fun v => { cfg := c, w := c.iw, wme := A.sqrt v }

/-- the frequency closest to `current + error` within `-bound ..= bound` -/
def clampFrequency (A : Arith) (current error bound : Nat) : Nat :=
  let f := A.add current error
  if f64Lt bound f then bound
  else if f64Lt f (f64Neg bound) then f64Neg bound
  else f

/-- `change_frequency` -/
def Kalman.changeFrequency (A : Arith) (k : Kalman) (target : Nat) (clk : ClockIn) : Option (Kalman × List Cmd) :=
  match k.cur with
  | none => some (k, [])
  | some cur =>
    let newF := clampFrequency A cur (A.sub target (A.mul k.run.freqOffset c1e6)) k.cfg.mf
    let err := A.sub newF cur
    if clk.failFreq then some (k, [.freq newF false])
    else
      (k.run.freqSteer A err clk.now k.w k.cfg).bind fun run =>
      (k.wan.freqSteer A err clk.now k.w k.cfg).map fun wan =>
        ({ k with cur := some newF, run := run, wan := wan }, [.freq newF true])

/-- `step` -/
def Kalman.stepClock (A : Arith) (k : Kalman) (offset : Nat) (clk : ClockIn) : Option (Kalman × List Cmd) :=
  (durFromSeconds (f64Neg offset)).bind fun d =>
  if clk.failStep then some (k, [.step d false])
  else
    (k.run.offsetSteer A (f64Neg offset)).bind fun run =>
    (k.wan.offsetSteer A (f64Neg offset)).map fun wan =>
      ({ k with run := run, wan := wan }, [.step d true])

/-- `core::time::Duration::from_secs_f64`: panics on negative, NaN, infinite or too large input -/
def coreDurationOk (b : Nat) : Bool :=
  f64IsFinite b && (decide (f64Sign b = 0) || decide (f64Mag b = 0)) && f64Lt b 0x43F0000000000000

/-- `steer` -/
def Kalman.steer (A : Arith) (k : Kalman) (clk : ClockIn) : Option (Kalman × List Cmd × Upd) :=
  let error := k.run.offset
  let thr := durSeconds A k.cfg.thr
  if f64Lt (f64Abs error) thr then
    let desired := A.mul (f64Signum error)
      (f64Max (A.sub (f64Abs error) (A.mul (k.run.offsetUnc A k.cfg) k.cfg.dz)) cZero)
    let st := durSeconds A k.cfg.st
    (f64Clamp (A.div (A.mul (f64Neg desired) c1e6) st) (f64Neg k.cfg.ms) k.cfg.ms).bind fun target =>
    (k.changeFrequency A target clk).bind fun (k, cmds) =>
    if coreDurationOk st then
      (durFromSeconds k.run.meanDelay).map fun md => (k, cmds, { nextUpdate := true, meanDelay := some md })
    else none
  else
    (k.stepClock A error clk).bind fun (k, cmds) =>
    (durFromSeconds k.run.meanDelay).map fun md => (k, cmds, { nextUpdate := false, meanDelay := some md })

/-- `chi_1` -/
def chi1 (A : Arith) (chi : Nat) : Nat :=
  let x := A.sqrt (A.div chi cTwo)
  let t := A.div cOne (A.add cOne (A.mul chiP x))
  let t2 := A.mul t t
  let t3 := A.mul t2 t
  let t4 := A.mul t3 t
  let t5 := A.mul t4 t
  let poly := A.add (A.add (A.add (A.add (A.mul chiA1 t) (A.mul chiA2 t2)) (A.mul chiA3 t3)) (A.mul chiA4 t4)) (A.mul chiA5 t5)
  A.mul poly (A.exp (f64Neg (A.mul x x)))

def satI8 (x : Int) : Int := if x < -128 then -128 else if x > 127 then 127 else x
def signumInt (x : Int) : Int := if x < 0 then -1 else if x > 0 then 1 else 0

/-- `wander_score_update` -/
def Kalman.wanderScoreUpdate (A : Arith) (k : Kalman) (uncertainty prediction actual : Nat) : Option Kalman :=
  (k.est.measurementVariance A k.cfg).map fun mv =>
  let mvs := A.sqrt mv
  if f64Lt (A.mul cTen mvs) k.wme then
    { k with wan := k.run, wme := mvs }
  else if f64Lt (A.mul cTen k.wme) (A.sqrt uncertainty) then
    let p := A.sub cOne (chi1 A (A.div (sqr A (A.sub actual prediction)) (A.add uncertainty (sqr A k.wme))))
    let ws := if f64Lt p k.cfg.plo then satI8 (k.ws - 1)
              else if f64Lt k.cfg.phi p then satI8 (k.ws + 1)
              else k.ws - signumInt k.ws
    { k with ws := ws, wan := k.run, wme := mvs }
  else k

def i8OfU8 (x : Nat) : Int := if x ≥ 128 then (x : Int) - 256 else x

/-- `update_wander` -/
def Kalman.updateWander (A : Arith) (k : Kalman) (m : Meas) : Option Kalman :=
  (k.wan.progress A m.eventTime k.w k.cfg).bind fun wan =>
  let k := { k with wan := wan }
  let k1 : Option Kalman := match m.rawSync with
    | some so =>
      let (p, u) := k.wan.predict A hSync k.cfg
      k.wanderScoreUpdate A u p (durSeconds A so)
    | none => some k
  k1.bind fun k =>
  let k2 : Option Kalman := match m.rawDelay with
    | some dof =>
      let (p, u) := k.wan.predict A hDelay k.cfg
      k.wanderScoreUpdate A u p (durSeconds A dof)
    | none => some k
  k2.bind fun k =>
  let h := i8OfU8 k.cfg.hyst
  if h = -128 then none   -- `-(hysteresis as i8)` overflows
  else
    let k := if k.ws < -h then { k with w := A.div k.w 0x4010000000000000, ws := 0 } else k
    let k := if k.ws > h then { k with w := A.mul k.w 0x4010000000000000, ws := 0 } else k
    some k

/-- `ensure_freq_init` -/
def Kalman.ensureFreqInit (k : Kalman) (clk : ClockIn) : Kalman × List Cmd :=
  match k.cur with
  | some _ => (k, [])
  | none => if clk.failFreq then (k, [.freq cZero false]) else ({ k with cur := some cZero }, [.freq cZero true])

def Kalman.noiseFor (A : Arith) (k : Kalman) : Option Nat :=
  (k.est.measurementVariance A k.cfg).map fun v => A.mul v (if k.est.peer then k.cfg.pdf else cOne)

/-- `Filter::measurement` -/
def Kalman.measurement (A : Arith) (k : Kalman) (m : Meas) (clk : ClockIn) : Option (Kalman × List Cmd × Upd) :=
  if !k.run.afterFilterTime m.eventTime then some (k, [], {})
  else
    (k.est.absorb A m k.run.freqOffset k.cfg).bind fun est =>
    let k := { k with est := est }
    (k.updateWander A m).bind fun k =>
    (k.run.progress A m.eventTime k.w k.cfg).bind fun run =>
    let k := { k with run := run }
    let s1 : Option (Kalman × List Cmd) := match m.rawSync with
      | some so =>
        let (k, c) := k.ensureFreqInit clk
        (k.noiseFor A).map fun v => ({ k with run := k.run.absorbOffset A (durSeconds A so) v hSync k.cfg }, c)
      | none => some (k, [])
    s1.bind fun (k, c1) =>
    let s2 : Option (Kalman × List Cmd) := match m.rawDelay with
      | some dof =>
        let (k, c) := k.ensureFreqInit clk
        (k.noiseFor A).map fun v => ({ k with run := k.run.absorbOffset A (durSeconds A dof) v hDelay k.cfg }, c)
      | none => some (k, [])
    s2.bind fun (k, c2) =>
    let s3 : Option Kalman := match m.peerDelay with
      | some pd => (k.noiseFor A).map fun v => { k with run := k.run.absorbPeer A (durSeconds A pd) v }
      | none => some k
    s3.bind fun k =>
    (k.steer A clk).map fun (k, c3, u) => (k, c1 ++ c2 ++ c3, u)

/-- `Filter::update` -/
def Kalman.update (A : Arith) (k : Kalman) (clk : ClockIn) : Option (Kalman × List Cmd × Upd) :=
  (k.changeFrequency A cZero clk).bind fun (k, c) =>
  (durFromSeconds k.run.meanDelay).map fun md => (k, c, { nextUpdate := false, meanDelay := some md })

/-- `Filter::demobilize`: consumes the filter -/
def Kalman.demobilize (A : Arith) (k : Kalman) (clk : ClockIn) : Option (List Cmd) :=
  (k.changeFrequency A cZero clk).map fun (_, c) => c

/-- `current_estimates` -/
def Kalman.estimates (k : Kalman) : Option (Int × Int) :=
  (durFromSeconds k.run.offset).bind fun o => (durFromSeconds k.run.meanDelay).map fun d => (o, d)

/-! ### BasicFilter -/
structure Basic where
  last : Option (Nat × Int × Int) := none   -- event_time, offset, correction
  oc : Int := 4294967296000000000           -- offset_confidence = 1 s
  fc : Nat := c1em4
  gain : Nat
  cur : Nat := cZero
  lastOffset : Int := 0
  lastDelay : Int := 0
  deriving Repr, Inhabited

def ONE_SEC : Int := 4294967296000000000

/-- `Duration * f64`: `rhs.to_fixed::<I96F32>()`, then fixed multiplication -/
def durMulF64 (d : Int) (f : Nat) : Option Int :=
  (f64ToFixed32 f).bind fun x => durMulFix d x

/-- `Ord::clamp` on durations; `none` where `assert!(min <= max)` fails -/
def durClamp (x lo hi : Int) : Option Int :=
  if lo ≤ hi then some (if x < lo then lo else if hi < x then hi else x) else none

def Basic.measurement (A : Arith) (b : Basic) (m : Meas) (clk : ClockIn) : Option (Basic × List Cmd × Upd) :=
  let (b, u) : Basic × Upd := match m.delay with
    | some d => ({ b with lastDelay := d }, { meanDelay := some d })
    | none => (b, {})
  let (b, u) : Basic × Upd := match m.peerDelay with
    | some d => ({ b with lastDelay := d }, { u with meanDelay := some d })
    | none => (b, u)
  match m.offset with
  | none => some (b, [], u)
  | some offset =>
    let b := { b with lastOffset := offset }
    (durAbs offset).bind fun absOff =>
    if ONE_SEC < absOff then
      (durNeg offset).map fun no =>
        ({ b with oc := ONE_SEC, fc := c1em4 }, [.step no (!clk.failStep)], u)
    else
      let clampStep : Option (Int × Int) :=
        if b.oc < absOff then
          (durNeg b.oc).bind fun noc => (durClamp offset noc b.oc).bind fun co =>
            (durMulFix b.oc (2 * (F32 : Int))).map fun oc => (co, oc)
        else
          (durSub b.oc absOff).bind fun d => (durMulF64 d b.gain).bind fun g => (durSub b.oc g).map fun oc => (offset, oc)
      clampStep.bind fun (clamped, oc) =>
      let b := { b with oc := oc }
      (durNeg clamped).bind fun nc => (durMulF64 nc b.gain).bind fun correction =>
      let fr : Option (Basic × Nat × List Cmd) :=
        match b.last with
        | some (lt, lo, lc) =>
          (timeSub m.eventTime lt).bind fun d1 => (durSub d1 lc).bind fun il =>
          (timeSubDur m.eventTime offset).bind fun t1 => (timeSubDur lt lo).bind fun t2 => (timeSub t1 t2).bind fun im =>
          let intervalLocal := fixed32ToF64 il
          let intervalMaster := fixed32ToF64 im
          let fd := A.div intervalLocal intervalMaster
          let dev := f64Abs (A.sub fd cOne)
          let r : Option (Basic × Nat) :=
            if !f64IsFinite fd then some (b, cOne)
            else if f64Lt b.fc dev then
              (f64Clamp fd (A.sub cOne b.fc) (A.add cOne b.fc)).map fun fd' => ({ b with fc := A.mul b.fc cTwo }, fd')
            else some ({ b with fc := A.sub b.fc (A.mul (A.sub b.fc dev) b.gain) }, fd)
          r.map fun (b, fd) =>
            (b, A.mul (A.mul (A.mul (f64Neg (A.sub fd cOne)) b.gain) cTenth) c1e6, [])
        | none => some ({ b with cur := cZero }, cZero, [.freq cZero (!clk.failFreq)])
      fr.map fun (b, freqCorr, c0) =>
        let b := { b with last := some (m.eventTime, offset, correction) }
        let newF := A.add b.cur freqCorr
        let b := if clk.failFreq then b else { b with cur := newF }
        (b, c0 ++ [.step correction (!clk.failStep), .freq newF (!clk.failFreq)], u)

end Statime.Servo

namespace Statime.Servo

/-! ### a servo's life: calls until it is demobilised -/
inductive KOp
  | meas (m : Meas) (clk : ClockIn)
  | upd (clk : ClockIn)
  | demob (clk : ClockIn)

/-- one host call; the state is `none` once the filter is gone (demobilised, or the call panicked) -/
def kstep (A : Arith) (s : Option Kalman) (op : KOp) : Option Kalman × List Cmd :=
  match s with
  | none => (none, [])
  | some k =>
    match op with
    | .meas m clk =>
      match k.measurement A m clk with
      | some (k', cs, _) => (some k', cs)
      | none => (none, [])
    | .upd clk =>
      match k.update A clk with
      | some (k', cs, _) => (some k', cs)
      | none => (none, [])
    | .demob clk =>
      match k.demobilize A clk with
      | some cs => (none, cs)
      | none => (none, [])

/-- the commands of every call of a history, in order -/
def krun (A : Arith) (s : Option Kalman) : List KOp → List (List Cmd)
  | [] => []
  | op :: rest => (kstep A s op).2 :: krun A (kstep A s op).1 rest

end Statime.Servo
