/-
Model of the connection loop of statime-linux/src/metrics/exporter.rs (`main`): what happens to one
client connection, given what successive `read` calls on it return and whether the observation
socket yields a usable document; and the sequential loop over connections.

The exporter serves one connection at a time. A connection ends in one of three ways — the response
with the data (200), the error response (500), dropped without a response — or the exporter is still
waiting for the client (`waiting`): that can only last while the client is connected and silent.
Core-only.
-/
import StatimeModel.Model.Util

namespace Statime.Exporter

/-- size of the request buffer -/
def CAP : Nat := 2048

def startsWithTerm : List UInt8 → Bool
  | a :: b :: c :: d :: _ => a == 13 && b == 10 && c == 13 && d == 10
  | _ => false

/-- `buf.windows(4).any(|w| w == b"\r\n\r\n")` -/
def hasTerm : List UInt8 → Bool
  | [] => false
  | x :: xs => startsWithTerm (x :: xs) || hasTerm xs

/-- `buf.starts_with(b"GET ")` -/
def isGet : List UInt8 → Bool
  | a :: b :: c :: d :: _ => a == 71 && b == 69 && c == 84 && d == 32
  | _ => false

/-- what one `read` on the client connection returns -/
inductive Rd
  | data (bs : List UInt8)
  | eof
  | err
  deriving Repr, DecidableEq

/-- whether `handler` (connect to the observation socket, read, parse, format) succeeds -/
inductive Obs | usable | unusable
  deriving Repr, DecidableEq

inductive Outcome
  | ok200      -- the metrics
  | err500     -- "500 Internal Server Error", content-length 0
  | dropped    -- connection closed without a response
  | waiting    -- the exporter is still in `read` (the client is connected and has not finished its request)
  deriving Repr, DecidableEq

def respond : Obs → Outcome
  | .usable => .ok200
  | .unusable => .err500

/-- the request loop: `acc` is what the buffer holds so far -/
def serve (acc : List UInt8) : List Rd → Obs → Outcome
  | [], _ => .waiting
  | .eof :: _, _ => .dropped
  | .err :: _, _ => .dropped
  | .data bs :: rest, o =>
    if bs.isEmpty then .dropped            -- a read of 0 octets is the end of the stream
    else
      let acc' := acc ++ bs.take (CAP - acc.length)
      if hasTerm acc' then (if isGet acc' then respond o else .dropped)
      else if acc'.length ≥ CAP then .dropped
      else serve acc' rest o

/-- the verdict on a whole request stream, however it is cut into reads -/
def verdict (stream : List UInt8) (o : Obs) : Outcome :=
  let w := stream.take CAP
  if hasTerm w then (if isGet w then respond o else .dropped) else .dropped

/-- a connection: the reads it produces and the state of the observation socket while it is served -/
abbrev Conn := List Rd × Obs

/-- the accept loop: one connection after the other; a connection that leaves the exporter waiting
holds up all that follow -/
def run : List Conn → List Outcome
  | [] => []
  | c :: rest =>
    match serve [] c.1 c.2 with
    | .waiting => [.waiting]
    | out => out :: run rest

/-! ### line protocol (`EXP …`, see harness-linux/src/wedge.rs) -/

/-- "GET /metrics HTTP/1.1\r\nHost: localhost\r\nAccept: */*\r\n\r\n" -/
def getRequest : List UInt8 :=
  [71, 69, 84, 32, 47, 109, 101, 116, 114, 105, 99, 115, 32, 72, 84, 84, 80, 47, 49, 46, 49, 13, 10, 72, 111, 115, 116, 58, 32,
   108, 111, 99, 97, 108, 104, 111, 115, 116, 13, 10, 65, 99, 99, 101, 112, 116, 58, 32, 42, 47, 42, 13, 10, 13, 10]

def obsOf (s : String) : Option Obs :=
  if s = "valid" ∨ s = "validesc" then some .usable
  else if s = "invalid" ∨ s = "truncated" ∨ s = "closeearly" ∨ s = "refused" ∨ s = "absent" then some .unusable
  else none

def outcomeStr (o : Outcome) (reads : Bool) : String :=
  if !reads then "-" else
  match o with
  | .ok200 => "200"
  | .err500 => "500"
  | .dropped => "closed"
  | .waiting => "-"

/-- the reads a client behaviour produces, and whether that client reads the response -/
def clientScript (c : String) : Option (List Rd × Bool) :=
  match c.splitOn ":" with
  | ["get"] => some ([.data getRequest], true)
  | ["split", n] => n.toNat?.map fun n =>
      let n := max 1 (min n (getRequest.length - 1))
      ([.data (getRequest.take n), .data (getRequest.drop n)], true)
  | ["cut", n] => n.toNat?.map fun n =>
      let n := min n (getRequest.length - 1)
      ((if n = 0 then [] else [.data (getRequest.take n)]) ++ [.eof], false)
  | ["reset", n] => n.toNat?.map fun n =>
      let n := min n (getRequest.length - 1)
      ((if n = 0 then [] else [.data (getRequest.take n)]) ++ [.err], false)
  | ["long", n] => n.toNat?.map fun n =>
      let big := ("GET /".toUTF8.toList ++ List.replicate (max n 6 - 5) 97)
      -- the client waits for a verdict and then closes
      ([.data big, .eof], decide (max n 6 ≥ CAP))
  | ["verb", v] => some ([.data ((v ++ " /metrics HTTP/1.1\r\nHost: localhost\r\n\r\n").toUTF8.toList)], true)
  | ["verbx", v, kind, n] => n.toNat?.bind fun n =>
      -- a complete non-GET request whose path is n repetitions of a pattern: `utf8` = é (c3 a9), `bin` = 0x80 0xff,
      -- `ascii` = ab
      let pat : Option (List UInt8) := match kind with
        | "utf8" => some [0xc3, 0xa9] | "bin" => some [0x80, 0xff] | "ascii" => some [97, 98] | _ => none
      pat.map fun pat =>
        ([.data ((v ++ " /").toUTF8.toList ++ (List.replicate n pat).flatten ++
            " HTTP/1.1\r\nHost: localhost\r\n\r\n".toUTF8.toList)], true)
  | ["getreset"] => some ([.data getRequest, .err], false)
  | ["idle"] => some ([.eof], false)
  | _ => none

def expLine (ws : List String) : String :=
  match ws with
  | ["new"] => "ok"
  | ["final"] => outcomeStr (serve [] [.data getRequest] .usable) true ++ " alive"
  | ["c", c, o] =>
    match clientScript c, obsOf o with
    | some (rds, reads), some ob => outcomeStr (serve [] rds ob) reads ++ " alive"
    | _, _ => "bad-op"
  | _ => "bad-op"

end Statime.Exporter
