/-
Small parsing / printing helpers shared by the driver streams. Core-only.
-/
namespace Statime

def hexDigit? (c : Char) : Option Nat :=
  if '0' ≤ c ∧ c ≤ '9' then some (c.toNat - '0'.toNat)
  else if 'a' ≤ c ∧ c ≤ 'f' then some (c.toNat - 'a'.toNat + 10)
  else if 'A' ≤ c ∧ c ≤ 'F' then some (c.toNat - 'A'.toNat + 10)
  else none

def parseHexAux : List Char → List UInt8 → Option (List UInt8)
  | [], acc => some acc.reverse
  | [_], _ => none
  | a :: b :: rest, acc =>
    match hexDigit? a, hexDigit? b with
    | some x, some y => parseHexAux rest (UInt8.ofNat (x * 16 + y) :: acc)
    | _, _ => none

/-- lowercase hex string (or "-" for empty) to bytes -/
def parseHex (s : String) : Option (List UInt8) :=
  if s = "-" then some [] else parseHexAux s.toList []

def hexChar (n : Nat) : Char :=
  if n < 10 then Char.ofNat ('0'.toNat + n) else Char.ofNat ('a'.toNat + n - 10)

def toHex (bs : List UInt8) : String :=
  if bs.isEmpty then "-" else
  String.ofList (bs.foldr (fun b acc => hexChar (b.toNat / 16) :: hexChar (b.toNat % 16) :: acc) [])

def parseInt? (s : String) : Option Int := s.toInt?
def parseNat? (s : String) : Option Nat := s.toNat?

def showOpt {α} (f : α → String) : Option α → String
  | none => "ovf"
  | some a => "ok " ++ f a

/-- whitespace-separated tokens; tokens starting with '#' are annotations for the checker -/
def words (line : String) : List String :=
  (line.trimAscii.toString.splitOn " ").filter (fun w => w ≠ "" && !w.startsWith "#")

end Statime
