/-
Bit-level model of the parts of IEEE 754 binary64 that the servo's *control* decisions depend on:
classification, negation, absolute value, comparison, and the conversions between `f64` seconds and
the `I96F32` nanosecond fixed-point type (`Duration::from_seconds`, `Duration::seconds`, both through
the `fixed` crate: round to nearest, ties to even).

An `f64` is its bit pattern, a `Nat` below 2^64. These functions are pure arithmetic on that number,
so what the theorems say about them is proved, not assumed. The *rounding* operations (+, -, *, /,
sqrt, exp) are not modelled here: the servo model takes them as a parameter (`Arith`), the theorems
hold for every choice of them, and the driver instantiates them with the machine's operations.

Core-only.
-/
import StatimeModel.Model.Time

namespace Statime

def P63 : Nat := 9223372036854775808
def P52 : Nat := 4503599627370496
def P53 : Nat := 9007199254740992
/-- bits of +infinity: exponent all ones, mantissa zero -/
def F64INF : Nat := 9218868437227405312

example : P63 = 2 ^ 63 ∧ P52 = 2 ^ 52 ∧ P53 = 2 ^ 53 ∧ F64INF = 2047 * 2 ^ 52 := by decide

/-- sign bit -/
def f64Sign (b : Nat) : Nat := b / P63 % 2
/-- everything but the sign: ordered like the absolute value -/
def f64Mag (b : Nat) : Nat := b % P63
def f64Exp (b : Nat) : Nat := f64Mag b / P52
def f64Man (b : Nat) : Nat := b % P52

def f64IsNaN (b : Nat) : Bool := decide (F64INF < f64Mag b)
def f64IsFinite (b : Nat) : Bool := decide (f64Mag b < F64INF)

/-- `-x`: flips the sign bit (also of a NaN) -/
def f64Neg (b : Nat) : Nat := if f64Sign b = 1 then f64Mag b else f64Mag b + P63
/-- `x.abs()`: clears the sign bit -/
def f64Abs (b : Nat) : Nat := f64Mag b

/-- position on the number line of a non-NaN value (both zeros at 0) -/
def f64Key (b : Nat) : Int := if f64Sign b = 1 then -(f64Mag b : Int) else (f64Mag b : Int)

/-- `a < b` (false as soon as one side is NaN) -/
def f64Lt (a b : Nat) : Bool := !f64IsNaN a && !f64IsNaN b && decide (f64Key a < f64Key b)
/-- `a <= b` -/
def f64Le (a b : Nat) : Bool := !f64IsNaN a && !f64IsNaN b && decide (f64Key a ≤ f64Key b)

/-- `x.signum()`: NaN stays NaN, otherwise ±1.0 by the sign bit -/
def f64Signum (b : Nat) : Nat :=
  if f64IsNaN b then b else if f64Sign b = 1 then 13830554455654793216 else 4607182418800017408

example : (13830554455654793216 : Nat) = 0xBFF0000000000000 ∧ (4607182418800017408 : Nat) = 0x3FF0000000000000 := by decide

/-- `x.max(y)` (maxNum): the other operand when one is NaN -/
def f64Max (a b : Nat) : Nat :=
  if f64IsNaN a then b else if f64IsNaN b then a else if f64Lt a b then b else a

/-- `x.clamp(lo, hi)`; `none` where Rust's `assert!(min <= max)` fails -/
def f64Clamp (x lo hi : Nat) : Option Nat :=
  if f64Le lo hi then
    let x1 := if f64Lt x lo then lo else x
    some (if f64Lt hi x1 then hi else x1)
  else none

/-! ### conversions -/

/-- the finite magnitude as an integer multiple of 2^-1074 -/
def f64Scaled (mag : Nat) : Nat :=
  let e := mag / P52
  let m := mag % P52
  if e = 0 then m else (m + P52) * 2 ^ (e - 1)

/-- magnitude in units of 2^-32, rounded to nearest, ties to even -/
@[irreducible] def f64MagToFixed32 (mag : Nat) : Nat := roundHalfEvenShift (f64Scaled mag) 1042

/-- the value in units of 2^-32, rounded -/
def f64FixedSigned (b : Nat) : Int :=
  if f64Sign b = 1 then -((f64MagToFixed32 (f64Mag b) : Nat) : Int) else ((f64MagToFixed32 (f64Mag b) : Nat) : Int)

/-- `f64 -> I96F32` (`az`, i.e. `from_num`): `none` for NaN / infinities (panic in every build) and
for values outside of the 128 bits (panic in debug builds, wrapped in release builds) -/
def f64ToFixed32 (b : Nat) : Option Int :=
  if f64IsFinite b then
    if inI128 (f64FixedSigned b) then some (f64FixedSigned b) else none
  else none

/-- `Duration::from_seconds(secs)`: `secs.az::<I96F32>() * 1_000_000_000` -/
def durFromSeconds (b : Nat) : Option Int :=
  match f64ToFixed32 b with
  | none => none
  | some x => durMulFix x ((NS : Int) * (F32 : Int))

/-- number of binary digits -/
def bitLen (n : Nat) : Nat := if n = 0 then 0 else Nat.log2 n + 1

/-- a positive integer `n`, meaning `n * 2^-k` (`k ≤ 990`), as binary64 rounded to nearest, ties to even -/
def natFixedToF64 (k n : Nat) : Nat :=
  if n = 0 then 0 else
  let l := bitLen n
  if l ≤ 53 then
    -- exact: mantissa n * 2^(53-l), biased exponent l + 1022 - k
    (l + 1022 - k) * P52 + (n * 2 ^ (53 - l) - P52)
  else
    let m := roundHalfEvenShift n (l - 53)
    if m = P53 then (l + 1023 - k) * P52 else (l + 1022 - k) * P52 + (m - P52)

def natFixed32ToF64 (n : Nat) : Nat := natFixedToF64 32 n

/-- `I96F32 -> f64` (`az` / `lossy_into`) -/
def fixed32ToF64 (x : Int) : Nat :=
  if x < 0 then natFixed32ToF64 x.natAbs + P63 else natFixed32ToF64 x.natAbs

/-- `I48F16 -> f64` (`TimeInterval::to_nanos`) -/
def fixed16ToF64 (x : Int) : Nat :=
  if x < 0 then natFixedToF64 16 x.natAbs + P63 else natFixedToF64 16 x.natAbs

/-- an integer as binary64 -/
def intToF64 (x : Int) : Nat :=
  if x < 0 then natFixedToF64 0 x.natAbs + P63 else natFixedToF64 0 x.natAbs

end Statime
