/-
Model of statime/src/time/{instant,duration,interval}.rs and of the wire time
conversions in datastructures/common/{timestamp,time_interval}.rs.

Representation (see DESIGN.md section 6):
  * `Time`      = bit pattern of `U96F32`  : a `Nat`  < 2^128, unit 2^-32 ns
  * `Duration`  = bit pattern of `I96F32`  : an `Int` in [-2^127, 2^127)
  * `TimeInterval` = bit pattern of `I48F16`: an `Int` in [-2^63, 2^63), unit 2^-16 ns

Every operator returns `none` exactly where the Rust operator overflows (debug
build: panic; release build: wrap).  The one conversion that *wraps by design*
in every profile was `Duration -> TimeInterval` (an `as i64` cast); since the
`fix:` commit it saturates and is modelled as saturating.

Core-only: this file must not import Mathlib (it is linked into the driver).
-/

namespace Statime

/-- 2^32 : sub-nanosecond resolution of `U96F32`/`I96F32`. -/
def F32 : Nat := 4294967296
/-- 2^16 : sub-nanosecond resolution of `I48F16`. -/
def F16 : Nat := 65536
/-- nanoseconds per second -/
def NS : Nat := 1000000000
/-- bits of one second in `U96F32`/`I96F32` -/
def SEC : Nat := 4294967296000000000

def U128 : Nat := 340282366920938463463374607431768211456
def I127 : Nat := 170141183460469231731687303715884105728
def I63 : Nat := 9223372036854775808
def U64 : Nat := 18446744073709551616

example : SEC = NS * F32 ∧ U128 = 2 ^ 128 ∧ I127 = 2 ^ 127 ∧ I63 = 2 ^ 63 ∧ U64 = 2 ^ 64 ∧ F32 = 2 ^ 32 ∧ F16 = 2 ^ 16 := by decide

def inI128 (x : Int) : Bool := decide (-(I127 : Int) ≤ x) && decide (x < (I127 : Int))
def inU128 (x : Int) : Bool := decide (0 ≤ x) && decide (x < (U128 : Int))
def inI64 (x : Int) : Bool := decide (-(I63 : Int) ≤ x) && decide (x < (I63 : Int))

/-- two's complement wrap to 64 bits (`as i64`) -/
def wrapI64 (x : Int) : Int := (x + (I63 : Int)) % (U64 : Int) - (I63 : Int)

/-- two's complement wrap to 128 bits -/
def wrapI128 (x : Int) : Int := (x + (I127 : Int)) % (U128 : Int) - (I127 : Int)

/-! ### Duration (I96F32) -/

def durAdd (a b : Int) : Option Int :=
  if inI128 (a + b) then some (a + b) else none

/-- `Neg for Duration`: `from_fixed_nanos(-nanos)`; overflows only at `MIN`. -/
def durNeg (a : Int) : Option Int :=
  if inI128 (-a) then some (-a) else none

/-- `Sub for Duration` is literally `self + -rhs`. -/
def durSub (a b : Int) : Option Int :=
  match durNeg b with
  | none => none
  | some nb => durAdd a nb

/-- `fixed` multiplication: full product shifted right by 32, floor. -/
def durMulFix (a b : Int) : Option Int :=
  let p := (a * b) / (F32 : Int)
  if inI128 p then some p else none

/-- `fixed` division: dividend shifted left by 32, integer division truncating
toward zero; division by zero panics in every profile. -/
def durDivFix (a b : Int) : Option Int :=
  if b = 0 then none else
  let q := Int.tdiv (a * (F32 : Int)) b
  if inI128 q then some q else none

/-- `Duration / 2` (`2.to_fixed::<I96F32>()` = 2 * 2^32 bits). -/
def durHalf (a : Int) : Option Int := durDivFix a (2 * (F32 : Int))

def durAbs (a : Int) : Option Int :=
  if a < 0 then durNeg a else some a

/-- `Duration::from_nanos(i64)` etc.: integer to fixed -/
def durFromNanos (n : Int) : Option Int :=
  let r := n * (F32 : Int)
  if inI128 r then some r else none

/-- `Duration::from_secs(i64)` : `secs.to_fixed() * 1e9.to_fixed()` -/
def durFromSecs (s : Int) : Option Int :=
  match durFromNanos s with
  | none => none
  | some x => durMulFix x ((NS : Int) * (F32 : Int))

/-- `Duration::secs()` : fixed division by 1e9 then `to_num::<i64>` (floor). -/
def durSecs (a : Int) : Option Int :=
  match durDivFix a ((NS : Int) * (F32 : Int)) with
  | none => none
  | some q =>
    let s := q / (F32 : Int)
    if inI64 s then some s else none

/-- `Duration::nanos_rounded()` : `lossy_into::<i128>` = floor. -/
def durNanosFloor (a : Int) : Int := a / (F32 : Int)

/-! ### TimeInterval (I48F16) -/

/-- `From<TimeInterval> for Duration` : exact widening. -/
def tivToDur (x : Int) : Int := x * (F16 : Int)

/-- clamp to the `i64` range -/
def clampI64 (x : Int) : Int :=
  if x < -(I63 : Int) then -(I63 : Int) else if (I63 : Int) ≤ x then (I63 : Int) - 1 else x

/-- `From<Duration> for TimeInterval` : `(bits >> 16)` — floor to 2^-16 ns —
then *saturated* to 64 bits (since the `fix:` commit; before it this was a
wrapping `as i64` cast, see known_findings.json). -/
def durToTiv (d : Int) : Int := clampI64 (d / (F16 : Int))

/-- the same conversion with the out-of-range case made explicit -/
def durToTivChecked (d : Int) : Option Int :=
  let q := d / (F16 : Int)
  if inI64 q then some q else none

/-- `TimeInterval + TimeInterval` on `I48F16` (used for the Delay_Resp correction). -/
def tivAdd (a b : Int) : Option Int :=
  if inI64 (a + b) then some (a + b) else none

/-! ### Time (U96F32) -/

/-- `Add<Duration> for Time`: subtract or add `unsigned_abs` on `u128`. Since the `fix:` commit the
subtraction saturates at zero (before: underflow); the addition still overflows at 2^128. -/
def timeAddDur (t : Nat) (d : Int) : Option Nat :=
  let r : Int := (t : Int) + d
  if r < 0 then some 0 else if inU128 r then some r.toNat else none

/-- `Sub<Duration> for Time` is `self + -rhs`. -/
def timeSubDur (t : Nat) (d : Int) : Option Nat :=
  match durNeg d with
  | none => none
  | some nd => timeAddDur t nd

/-- `Sub<Time> for Time`: both operands converted `U96F32 -> I96F32`
(overflow at 2^127), then `Duration - Duration`. -/
def timeSub (a b : Nat) : Option Int :=
  if a < I127 ∧ b < I127 then durSub (a : Int) (b : Int) else none

/-- `Time::secs()` : fixed division by 1e9, `to_num::<u64>` -/
def timeSecs (t : Nat) : Option Nat :=
  let s := t / SEC
  if s < U64 then some s else none

/-- `Time::subsec_nanos()` : `(inner % 1e9).to_num::<u32>()` -/
def timeSubsecNanos (t : Nat) : Nat := (t % SEC) / F32

/-- `Time::subnano()` as `TimeInterval` bits: the 32 fraction bits truncated to 16. -/
def timeSubnano (t : Nat) : Int := (((t % F32) / F16 : Nat) : Int)

structure WireTs where
  secs : Nat
  nanos : Nat
  deriving DecidableEq, Repr, Inhabited

/-- `From<Time> for WireTimestamp` -/
def timeToWire (t : Nat) : Option WireTs :=
  match timeSecs t with
  | none => none
  | some s => some { secs := s, nanos := timeSubsecNanos t }

/-- `From<WireTimestamp> for Time` : `from_fixed_nanos(secs*1e9 + nanos)` (i128 → U96F32) -/
def wireToTime (w : WireTs) : Option Nat :=
  let r := (w.secs * NS + w.nanos) * F32
  if r < U128 then some r else none

/-- `Time::from_nanos_subnanos` -/
def timeFromNanosSubnanos (n s : Nat) : Nat := n * F32 + s

/-! ### log intervals -/

/-- round-half-even of `n / 2^k` -/
def roundHalfEvenShift (n k : Nat) : Nat :=
  let q := n / 2 ^ k
  let r := n % 2 ^ k
  let half := 2 ^ k / 2
  if k = 0 then n
  else if r < half then q
  else if r > half then q + 1
  else if q % 2 = 0 then q else q + 1

/-- `Duration::from_log_interval(n)` = `from_fixed_nanos(2f64.powi(n) * 1e9)`.
`2^n * 1e9` is an exact binary64 value for every `i8`; `to_fixed` rounds to
nearest, ties to even, and overflows `I96F32` for `n ≥ 66`. -/
def durFromLogInterval (n : Int) : Option Int :=
  let e : Int := n + 32
  let bits : Nat :=
    if 0 ≤ e then NS * 2 ^ e.toNat else roundHalfEvenShift NS (-e).toNat
  if inI128 bits then some bits else none

end Statime
