import StatimeModel.Model.Time
import StatimeModel.Model.Util
/-
`TIME <op> <operands…>` stream: the C16 operator table, one op per line.
Output: `ok <value…>` or `ovf` (where the Rust operator panics in a debug build).
-/
namespace Statime

def showInt (x : Int) : String := toString x
def showNat (x : Nat) : String := toString x

def timeOp (op : String) (a : List Int) : String :=
  match op, a with
  | "add_dur", [t, d] => showOpt showNat (timeAddDur t.toNat d)
  | "sub_dur", [t, d] => showOpt showNat (timeSubDur t.toNat d)
  | "time_sub", [x, y] => showOpt showInt (timeSub x.toNat y.toNat)
  | "dur_add", [x, y] => showOpt showInt (durAdd x y)
  | "dur_sub", [x, y] => showOpt showInt (durSub x y)
  | "dur_neg", [x] => showOpt showInt (durNeg x)
  | "dur_abs", [x] => showOpt showInt (durAbs x)
  | "dur_half", [x] => showOpt showInt (durHalf x)
  | "dur_mul_int", [x, k] => showOpt showInt (match durFromNanos k with | none => none | some kb => durMulFix x kb)
  | "dur_div_int", [x, k] => showOpt showInt (match durFromNanos k with | none => none | some kb => durDivFix x kb)
  | "dur_secs", [x] => showOpt showInt (durSecs x)
  | "dur_from_secs", [x] => showOpt showInt (durFromSecs x)
  | "dur_from_nanos", [x] => showOpt showInt (durFromNanos x)
  | "dur_nanos_rounded", [x] => "ok " ++ showInt (durNanosFloor x)
  | "to_wire", [t] => showOpt (fun w => s!"{w.secs} {w.nanos}") (timeToWire t.toNat)
  | "from_wire", [s, n] => showOpt showNat (wireToTime { secs := s.toNat, nanos := n.toNat })
  | "subnano", [t] => "ok " ++ showInt (timeSubnano t.toNat)
  | "secs", [t] => showOpt showNat (timeSecs t.toNat)
  | "subsec_nanos", [t] => "ok " ++ showNat (timeSubsecNanos t.toNat)
  | "from_nanos_subnanos", [n, s] => "ok " ++ showNat (timeFromNanosSubnanos n.toNat s.toNat)
  | "tiv_to_dur", [x] => "ok " ++ showInt (tivToDur x)
  | "dur_to_tiv", [x] => "ok " ++ showInt (durToTiv x)
  | "tiv_add", [x, y] => showOpt showInt (tivAdd x y)
  | "log_interval", [n] => showOpt showInt (durFromLogInterval n)
  | "interval_dur", [n] => showOpt showInt (durFromLogInterval n)
  | _, _ => "bad-op"

def timeLine (ws : List String) : String :=
  match ws with
  | op :: rest =>
    match rest.mapM parseInt? with
    | some args => timeOp op args
    | none => "bad-op"
  | [] => "bad-op"

end Statime
