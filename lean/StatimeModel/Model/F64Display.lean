/-
Rust's `Display` for `f64` (`{}`): the shortest decimal digits that read back as the same binary64
value, closest to the true value, written without an exponent ("1", "0.1", "1000000000000000000000",
"-0", "NaN", "inf"). Free-format digit generation (Steele & White / dragon4) in exact integer
arithmetic. Used by the metrics model to render sample values; validated against Rust by the
`FMT` ops of the metrics stream. Core-only.
-/
import StatimeModel.Model.F64

namespace Statime

/-- smallest `k` (searching upwards from 0) with `num < den * 10^k` (or `≤` when `incl` is false …):
we need the decimal point position `k` such that `high ≤ 10^k` — see `decExponent` -/
def pow10 (k : Nat) : Nat := 10 ^ k

def decAbove (r s mp : Nat) (incl : Bool) (k : Nat) : Bool :=
  if incl then decide (r + mp ≥ s * pow10 k) else decide (r + mp > s * pow10 k)

def decUp (r s mp : Nat) (incl : Bool) : Nat → Nat → Nat
  | 0, k => k
  | fuel + 1, k => if decAbove r s mp incl k then decUp r s mp incl fuel (k + 1) else k

def decBelow (r s mp : Nat) (incl : Bool) (j : Nat) : Bool :=
  if incl then decide ((r + mp) * pow10 (j + 1) < s) else decide ((r + mp) * pow10 (j + 1) ≤ s)

def decDown (r s mp : Nat) (incl : Bool) : Nat → Nat → Nat
  | 0, j => j
  | fuel + 1, j => if decBelow r s mp incl j then decDown r s mp incl fuel (j + 1) else j

/-- position `k` of the decimal point: the digits produced are `0.d1d2… × 10^k`.
`high = (r + mp) / s`; `k` is the least integer with `high < 10^k` (`≤` if the upper bound is excluded). -/
def decExponent (r s mp : Nat) (incl : Bool) : Int :=
  let kUp := decUp r s mp incl 400 0
  if kUp > 0 then (kUp : Int)
  else
    let j := decDown r s mp incl 400 0
    Int.negSucc j + 1

/-- digit generation; `r/s` already scaled into `[0.1, 1)`-ish (`0.d1d2…`) -/
def genDigits (fuel : Nat) (r s mp mm : Nat) (incl : Bool) (acc : List Nat) : List Nat :=
  match fuel with
  | 0 => acc.reverse
  | fuel + 1 =>
    let r10 := r * 10
    let mp10 := mp * 10
    let mm10 := mm * 10
    let d := r10 / s
    let r' := r10 % s
    let tc1 := if incl then decide (r' ≤ mm10) else decide (r' < mm10)
    let tc2 := if incl then decide (r' + mp10 ≥ s) else decide (r' + mp10 > s)
    if !tc1 && !tc2 then genDigits fuel r' s mp10 mm10 incl (d :: acc)
    else
      let last :=
        if tc1 && !tc2 then d
        else if !tc1 && tc2 then d + 1
        else if r' * 2 < s then d else d + 1
      (last :: acc).reverse

/-- propagate a final digit of 10 (only possible as 9 + 1): carry into the preceding digits -/
def carryDigits (ds : List Nat) : List Nat × Bool :=
  let rec go : List Nat → List Nat × Bool
    | [] => ([], false)
    | d :: rest =>
      let (rest', c) := go rest
      let v := d + (if c then 1 else 0)
      if rest.isEmpty then (if d ≥ 10 then ([d - 10], true) else ([d], false))
      else if v ≥ 10 then ((v - 10) :: rest', true) else (v :: rest', false)
  go ds

def digitChar (d : Nat) : Char := Char.ofNat ('0'.toNat + d)

/-- shortest digits and decimal exponent of a finite, non-zero magnitude -/
def shortestDigits (mag : Nat) : List Nat × Int :=
  let e := mag / P52
  let man := mag % P52
  let m := if e = 0 then man else man + P52
  let ex : Int := if e = 0 then -1074 else (e : Int) - 1075
  let boundary := decide (man = 0) && decide (e > 1)
  let incl := decide (m % 2 = 0)
  let (r, s, mp, mm) : Nat × Nat × Nat × Nat :=
    if ex ≥ 0 then
      let p := 2 ^ ex.toNat
      if !boundary then (m * p * 2, 2, p, p) else (m * p * 4, 4, p * 2, p)
    else
      let q := 2 ^ (-ex).toNat
      if !boundary then (m * 2, q * 2, 1, 1) else (m * 4, q * 4, 2, 1)
  let k := decExponent r s mp incl
  -- scale so that the value is 0.d1d2… : divide by 10^k
  let (r, s, mp, mm) : Nat × Nat × Nat × Nat :=
    if k ≥ 0 then (r, s * pow10 k.toNat, mp, mm)
    else (r * pow10 (-k).toNat, s, mp * pow10 (-k).toNat, mm * pow10 (-k).toNat)
  let ds := genDigits 40 r s mp mm incl []
  let (ds, carry) := carryDigits ds
  let (ds, k) := if carry then (1 :: ds, k + 1) else (ds, k)
  -- digits after a carry can end in zeros; they carry no information
  let trimmed := (ds.reverse.dropWhile (· = 0)).reverse
  (if trimmed.isEmpty then [0] else trimmed, k)

/-- `digits_to_dec_str` with no minimum number of fractional digits -/
def layoutDigits (ds : List Nat) (k : Int) : String :=
  let txt := String.ofList (ds.map digitChar)
  let n : Int := ds.length
  if k ≤ 0 then "0." ++ String.ofList (List.replicate (-k).toNat '0') ++ txt
  else if k < n then
    String.ofList ((ds.take k.toNat).map digitChar) ++ "." ++ String.ofList ((ds.drop k.toNat).map digitChar)
  else txt ++ String.ofList (List.replicate (k - n).toNat '0')

/-- `format!("{}", x)` for an `f64` given by its bits -/
def f64Display (b : Nat) : String :=
  let mag := f64Mag b
  if f64IsNaN b then "NaN"
  else
    let sign := if f64Sign b = 1 then "-" else ""
    if mag = F64INF then sign ++ "inf"
    else if mag = 0 then sign ++ "0"
    else
      let (ds, k) := shortestDigits mag
      sign ++ layoutDigits ds k

end Statime
