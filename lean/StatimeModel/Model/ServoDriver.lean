/-
Line protocol of the `filt` stream (see /verif/harness/src/streams/filt.rs), and the machine
instance of `Arith`: binary64 operations of the processor via Lean's `Float`.
Core-only.
-/
import StatimeModel.Model.Servo
import StatimeModel.Model.Util

namespace Statime.Servo
open Statime

def toF (b : Nat) : Float := Float.ofBits (UInt64.ofNat b)
def ofF (f : Float) : Nat := f.toBits.toNat

/-- the processor's binary64 arithmetic -/
def machine : Arith where
  add a b := ofF (toF a + toF b)
  sub a b := ofF (toF a - toF b)
  mul a b := ofF (toF a * toF b)
  div a b := ofF (toF a / toF b)
  sqrt a := ofF (toF a).sqrt
  exp a := ofF (toF a).exp

def hex16 (b : Nat) : String :=
  String.ofList ((List.range 16).map fun i => hexChar (b / 16 ^ (15 - i) % 16))

def parseHex64? (s : String) : Option Nat :=
  if s.length = 0 ∨ s.length > 16 then none else
  s.toList.foldl (fun acc c => acc.bind fun a => (hexDigit? c).map fun d => a * 16 + d) (some 0)

def parseOptInt? (s : String) : Option (Option Int) :=
  if s = "-" then some none else (parseInt? s).map some

inductive Filt
  | none
  | kalman (k : Kalman)
  | basic (b : Basic)

def cmdStr (c : Cmd) : String :=
  match c with
  | .freq f ok => s!"F:{hex16 f}:{if ok then "ok" else "err"}"
  | .step d ok => s!"S:{d}:{if ok then "ok" else "err"}"

def cmdsStr (cs : List Cmd) : String := if cs.isEmpty then "-" else ",".intercalate (cs.map cmdStr)

def baseStr (b : Base) : String :=
  match b with
  | none => "-"
  | some i =>
    ",".intercalate ((i.state.map hex16) ++ (i.unc.flatten.map hex16) ++ [toString i.ft])

def tdStr (x : Option (Nat × Int)) : String :=
  match x with
  | none => "-"
  | some (t, d) => s!"{t}:{d}"

def kalmanStr (k : Kalman) : String :=
  s!"run={baseStr k.run} wan={baseStr k.wan} ws={k.ws} w={hex16 k.w} wme={hex16 k.wme} cur={match k.cur with | some c => hex16 c | none => "-"} est={k.est.fill},{k.est.nextIdx},{if k.est.peer then 1 else 0},{tdStr k.est.lastSync},{tdStr k.est.lastDelay} data={",".intercalate (k.est.data.map hex16)}"

def basicStr (b : Basic) : String :=
  let last := match b.last with
    | none => "-"
    | some (t, o, c) => s!"{t}:{o}:{c}"
  s!"last={last} oc={b.oc} fc={hex16 b.fc} cur={hex16 b.cur}"

def filtStr (f : Filt) : String :=
  match f with
  | .none => "none"
  | .kalman k => kalmanStr k
  | .basic b => basicStr b

def optIntStr (x : Option Int) : String := match x with | some v => toString v | none => "-"

def finish (f : Filt) (cs : List Cmd) (u : Upd) : String :=
  let est := match f with
    | .none => "-"
    | .kalman k => match k.estimates with | some (o, d) => s!"{o},{d}" | none => "panic"
    | .basic b => s!"{b.lastOffset},{b.lastDelay}"
  s!"ok cmds={cmdsStr cs} upd={if u.nextUpdate then "1" else "-"} md={optIntStr u.meanDelay} est={est} | {filtStr f}"

def parseClock (c f : String) : Option ClockIn :=
  match parseNat? c, parseNat? f with
  | some now, some fl => some { now := now, failFreq := fl % 2 = 1, failStep := fl / 2 % 2 = 1 }
  | _, _ => none

def filtLine (A : Arith) (st : Filt) (ws : List String) : Filt × String :=
  match ws with
  | ["knew", thr, dz, stt, ms, mf, ifu, iw, dw, plo, phi, hyst, et, deb, seb, pdf] =>
    match parseInt? thr, parseHex64? dz, parseInt? stt, parseHex64? ms, parseHex64? mf, parseHex64? ifu, parseHex64? iw, parseHex64? dw with
    | some thr, some dz, some stt, some ms, some mf, some ifu, some iw, some dw =>
      match parseHex64? plo, parseHex64? phi, parseNat? hyst, parseInt? et, parseNat? deb, parseNat? seb, parseHex64? pdf with
      | some plo, some phi, some hyst, some et, some deb, some seb, some pdf =>
        let c : Cfg := { thr := thr, dz := dz, st := stt, ms := ms, mf := mf, ifu := ifu, iw := iw, dw := dw, plo := plo, phi := phi, hyst := hyst, et := et, deb := deb, seb := seb, pdf := pdf }
        match Kalman.new A c with
        | some k => (.kalman k, s!"ok new | {kalmanStr k}")
        | none => (.none, "R panic")
      | _, _, _, _, _, _, _ => (st, "bad-op")
    | _, _, _, _, _, _, _, _ => (st, "bad-op")
  | ["bnew", g] =>
    match parseHex64? g with
    | some g => let b : Basic := { gain := g }; (.basic b, s!"ok new | {basicStr b}")
    | none => (st, "bad-op")
  | ["m", et, off, dl, pd, rs, rd, clk, fail] =>
    match parseNat? et, parseOptInt? off, parseOptInt? dl, parseOptInt? pd, parseOptInt? rs, parseOptInt? rd, parseClock clk fail with
    | some et, some off, some dl, some pd, some rs, some rd, some clk =>
      let m : Meas := { eventTime := et, offset := off, delay := dl, peerDelay := pd, rawSync := rs, rawDelay := rd }
      match st with
      | .none => (st, "dead")
      | .kalman k =>
        match k.measurement A m clk with
        | some (k, cs, u) => (.kalman k, finish (.kalman k) cs u)
        | none => (.none, "R panic")
      | .basic b =>
        match b.measurement A m clk with
        | some (b, cs, u) => (.basic b, finish (.basic b) cs u)
        | none => (.none, "R panic")
    | _, _, _, _, _, _, _ => (st, "bad-op")
  | ["upd", clk, fail] =>
    match parseClock clk fail with
    | some clk =>
      match st with
      | .none => (st, "dead")
      | .kalman k =>
        match k.update A clk with
        | some (k, cs, u) => (.kalman k, finish (.kalman k) cs u)
        | none => (.none, "R panic")
      | .basic b => (.basic b, finish (.basic b) [] {})
    | none => (st, "bad-op")
  | ["demob", clk, fail] =>
    match parseClock clk fail with
    | some clk =>
      match st with
      | .none => (st, "dead")
      | .kalman k =>
        match k.demobilize A clk with
        | some cs => (.none, finish .none cs {})
        | none => (.none, "R panic")
      | .basic _ => (.none, finish .none [] {})
    | none => (st, "bad-op")
  | _ => (st, "bad-op")

end Statime.Servo
