import StatimeModel.Model.Wire
import StatimeModel.Model.Util
/-
`DEC <hex>` stream: decode, field dump, re-encode.
Output: `ok <dump> | <re-encoded hex> <wire_size>` or `err <kind>`.
The dump format is the one of `statime::verif::decode_dump` (hook in /repo).
-/
namespace Statime

def hex2 (n : Nat) : String := String.ofList [hexChar (n / 16 % 16), hexChar (n % 16)]

def hexBE (v : Nat) (n : Nat) : String := toHex (beBytes v n)

def showPid (p : PortId) : String := s!"{hexBE p.clock 8}:{p.port}"
def showTs (t : WireTs) : String := s!"{t.secs}.{t.nanos}"
def bstr (b : Bool) : String := if b then "1" else "0"

def showFlags (f : Flags) : String :=
  bstr f.alternateMaster ++ bstr f.twoStep ++ bstr f.unicast ++ bstr f.profile1 ++ bstr f.profile2 ++
  bstr f.leap61 ++ bstr f.leap59 ++ bstr f.utcValid ++ bstr f.ptpTimescale ++ bstr f.timeTraceable ++
  bstr f.freqTraceable ++ bstr f.syncUncertain

def showHeader (h : Header) : String :=
  s!"sdo={h.sdoId} ver=PtpVersion\{major:{h.verMajor},minor:{h.verMinor}} dom={h.domain} flags={showFlags h.flags} corr={h.correction} src={showPid h.src} seq={h.seq} logint={h.logInterval}"

def actionName : Nat → String
  | 0 => "GET" | 1 => "SET" | 2 => "RESPONSE" | 3 => "COMMAND" | 4 => "ACKNOWLEDGE" | _ => "Reserved"

def idList (c : Nat) : String :=
  "[" ++ ", ".intercalate ((beBytes c 8).map (fun b => toString b.toNat)) ++ "]"

/-- Rust `{:?}` of `PortIdentity` with blanks removed -/
def dbgPid (p : PortId) : String :=
  "PortIdentity{clock_identity:ClockIdentity(" ++ (idList p.clock).replace " " "" ++ s!"),port_number:{p.port}}"

def showBody : Body → String
  | .sync o => s!"sync origin={showTs o}"
  | .delayReq o => s!"delayreq origin={showTs o}"
  | .pdelayReq o => "pdelayreq PDelayReqMessage{origin_timestamp:WireTimestamp{seconds:" ++ toString o.secs ++ ",nanos:" ++ toString o.nanos ++ "}}"
  | .pdelayResp rx req => s!"pdelayresp rx={showTs rx} req={showPid req}"
  | .followUp o => s!"followup origin={showTs o}"
  | .delayResp rx req => s!"delayresp rx={showTs rx} req={showPid req}"
  | .pdelayRespFu o req => s!"pdelayrespfu origin={showTs o} req={showPid req}"
  | .announce a => s!"announce origin={showTs a.origin} utc={a.utcOffset} p1={a.p1} class={a.clockClass} acc={a.accuracy} var={a.variance} p2={a.p2} gm={hexBE a.gm 8} steps={a.steps} src={a.timeSource}"
  | .signaling t => "signaling SignalingMessage{target_port_identity:" ++ dbgPid t ++ "}"
  | .management t s h a => "management ManagementMessage{target_port_identity:" ++ dbgPid t ++
      s!",starting_boundary_hops:{s},boundary_hops:{h},action:{actionName a}}"

def showTlvs (s : List UInt8) : String :=
  let ts := tlvs s
  if ts.isEmpty then "-" else String.join (ts.map (fun t => s!"[{t.ty}:{toHex t.value}]"))

def showMsg (m : Msg) : String :=
  showHeader m.header ++ " " ++ showBody m.body ++ " tlvs=" ++ showTlvs m.suffix

def decLine (ws : List String) : String :=
  match ws with
  | [h] =>
    match parseHex h with
    | none => "bad-op"
    | some b =>
      match decode b with
      | .error e => "err " ++ e.name
      | .ok m => "ok " ++ showMsg m ++ " | " ++ toHex (encode m) ++ " " ++ toString m.wireSize
  | _ => "bad-op"

end Statime
