import StatimeModel.Model.Time
import StatimeModel.Model.Util
/-
Model of `statime/src/overlay_clock.rs` (C18): an affine map from the underlying clock's time to the overlay
time, re-anchored at every adjustment. Times are `U96F32` bit patterns (units of 2^-32 ns), durations `I96F32`
bit patterns; the frequency is the `I96F32` the `f64` ppm value is converted to (`ppm·2^32`).
-/
namespace Statime

structure Overlay where
  lastSync : Nat
  shift : Int
  ppmBits : Int
  deriving DecidableEq, Repr, Inhabited

def Overlay.new (now : Nat) : Overlay := { lastSync := now, shift := 0, ppmBits := 0 }

/-- `elapsed * ppm / 1_000_000`: fixed multiplication (floor), then fixed division by 10^6 (truncating) -/
def Overlay.corr (o : Overlay) (u : Nat) : Option Int :=
  (timeSub u o.lastSync).bind fun elapsed =>
    (durMulFix elapsed o.ppmBits).bind fun c1 => durDivFix c1 (1000000 * (F32 : Int))

/-- `time_from_underlying`: `roclock_time + shift + corr` -/
def Overlay.timeFromUnderlying (o : Overlay) (u : Nat) : Option Nat :=
  (o.corr u).bind fun c => (timeAddDur u o.shift).bind fun t1 => timeAddDur t1 c

/-- `set_frequency`: re-anchor at the current reading, then change the rate; returns the reading -/
def Overlay.setFrequency (o : Overlay) (now : Nat) (ppmBits : Int) : Option (Overlay × Nat) :=
  (o.timeFromUnderlying now).bind fun loc =>
    (timeSub loc now).map fun sh => ({ lastSync := now, shift := sh, ppmBits := ppmBits }, loc)

/-- `step_clock` (since the `fix:` commit): re-anchor at the current reading, add the offset; returns the new reading -/
def Overlay.stepClock (o : Overlay) (now : Nat) (offset : Int) : Option (Overlay × Nat) :=
  (o.timeFromUnderlying now).bind fun loc =>
    (timeSub loc now).bind fun sh0 =>
      (durAdd sh0 offset).bind fun sh =>
        let o' : Overlay := { lastSync := now, shift := sh, ppmBits := o.ppmBits }
        (o'.timeFromUnderlying now).map fun r => (o', r)

/-! line protocol: `OVL new <u0> | adv <du> | freq <ppmBits> | step <offset> | now | conv <u>` -/

structure OvlState where
  under : Nat
  clock : Overlay

def ovlLine (st : Option OvlState) (ws : List String) : Option OvlState × String :=
  match ws with
  | ["new", u0] =>
    match parseNat? u0 with
    | some u => (some { under := u, clock := Overlay.new u }, "ok -")
    | none => (st, "bad-op")
  | _ =>
    match st with
    | none => (none, "dead")
    | some s =>
      let fin (r : Option (Overlay × Nat)) : Option OvlState × String :=
        match r with
        | some (c, v) => (some { s with clock := c }, s!"ok {v}")
        | none => (none, "R panic")
      match ws with
      | ["adv", du] =>
        match parseNat? du with
        | some d => (some { s with under := s.under + d }, "ok -")
        | none => (st, "bad-op")
      | ["freq", b] =>
        match parseInt? b with
        | some p => fin (s.clock.setFrequency s.under p)
        | none => (st, "bad-op")
      | ["step", b] =>
        match parseInt? b with
        | some off => fin (s.clock.stepClock s.under off)
        | none => (st, "bad-op")
      | ["now"] => fin ((s.clock.timeFromUnderlying s.under).map fun v => (s.clock, v))
      | ["conv", u] =>
        match parseNat? u with
        | some uu => fin ((s.clock.timeFromUnderlying uu).map fun v => (s.clock, v))
        | none => (st, "bad-op")
      | _ => (st, "bad-op")

end Statime
