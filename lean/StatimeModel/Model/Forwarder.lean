/-
The daemon's forwarded-TLV queue (`statime-linux/src/tlvforwarder.rs`): one `tokio::sync::broadcast`
channel of capacity 128 shared by all port tasks, one `TlvForwarder` (receiver + one peeked value) per
port task, and the rule by which a port task clears its forwarder when the BMCA hands the port back
(`statime-linux/src/main.rs`, `port_task` / `ethernet_port_task`) — that rule is *translated* from
the source on every run (`Generated/ForwarderGlue.lean`).

The broadcast channel is modelled by the log of everything ever sent; a receiver is its cursor
into that log. A receiver more than `CAP` values behind gets `Lagged` once and continues with the
oldest retained value (tokio: `next = tail.pos - buffer.len()`).

No Mathlib; compiled into the model driver (`FWD` lines).
-/
namespace Statime.Fwd

/-- `broadcast::channel(128)` -/
def CAP : Nat := 128

/-- a forwarded TLV as far as the queue is concerned: its wire size (`ForwardedTLV::size`) and an
identifier of its contents (type, value and sender are never touched by the queue) -/
structure Item where
  size : Nat
  tag : Nat
  deriving DecidableEq, Repr, Inhabited

/-- one `TlvForwarder`: the receiver's cursor and the peeked value -/
structure Rx where
  pos : Nat
  peek : Option Item
  deriving DecidableEq, Repr, Inhabited

inductive Recv
  | ok (v : Item)
  | empty
  | lagged (missed : Nat)
  deriving DecidableEq, Repr

/-- `Receiver::try_recv` -/
def tryRecv (log : List Item) (r : Rx) : Recv × Rx :=
  if r.pos + CAP < log.length then (.lagged (log.length - CAP - r.pos), { r with pos := log.length - CAP })
  else match log[r.pos]? with
    | some v => (.ok v, { r with pos := r.pos + 1 })
    | none => (.empty, r)

/-- the `while self.peek.is_none()` loop of `next_if_smaller`: after a `Lagged` the very next
`try_recv` finds the oldest retained value -/
def fill (log : List Item) (r : Rx) : Rx :=
  match r.peek with
  | some _ => r
  | none =>
    match tryRecv log r with
    | (.ok v, r1) => { r1 with peek := some v }
    | (.empty, r1) => r1
    | (.lagged _, r1) =>
      match tryRecv log r1 with
      | (.ok v, r2) => { r2 with peek := some v }
      | (_, r2) => r2

/-- `TlvForwarder::next_if_smaller` -/
def nextIfSmaller (log : List Item) (r : Rx) (maxSize : Nat) : Option Item × Rx :=
  match (fill log r).peek with
  | some v => if v.size ≤ maxSize then (some v, { fill log r with peek := none }) else (none, fill log r)
  | none => (none, fill log r)

/-- `TlvForwarder::empty`: drop the peeked value and read until `Empty` -/
def emptyRx (log : List Item) (_r : Rx) : Rx := { pos := log.length, peek := none }

/-- what a port task does with its forwarder when the BMCA hands the port back -/
inductive ClearPolicy
  | never            -- no call of `empty()` at that point
  | whenMaster       -- `if port_in_bmca.is_master() { tlv_forwarder.empty() }`
  | whenNotMaster    -- `if !port_in_bmca.is_master() { tlv_forwarder.empty() }`
  | always
  deriving DecidableEq, Repr, Inhabited

def ClearPolicy.clears : ClearPolicy → Bool → Bool
  | .never, _ => false
  | .whenMaster, m => m
  | .whenNotMaster, m => !m
  | .always, _ => true

def afterBmca (pol : ClearPolicy) (isMaster : Bool) (log : List Item) (r : Rx) : Rx :=
  if pol.clears isMaster then emptyRx log r else r

/-- the daemon: the channel's log and the forwarders of the port tasks (index 0 is the one `main`
creates with `TlvForwarder::new`) -/
structure St where
  log : List Item := []
  rxs : List Rx := [⟨0, none⟩]
  deriving Repr, Inhabited

inductive Op
  | dup (i : Nat)                          -- `duplicate()`: resubscribe at the tail
  | forward (v : Item)                     -- `forward(tlv)` from any task
  | next (i : Nat) (maxSize : Nat)         -- `next_if_smaller(max)` on forwarder i
  | empty (i : Nat)
  | bmca (i : Nat) (pol : ClearPolicy) (isMaster : Bool)
  deriving Repr

def setRx (s : St) (i : Nat) (r : Rx) : St := { s with rxs := s.rxs.set i r }

/-- one operation; the output is what `next_if_smaller` returned -/
def step (s : St) : Op → St × Option Item
  | .dup i => if i < s.rxs.length then ({ s with rxs := s.rxs ++ [⟨s.log.length, none⟩] }, none) else (s, none)
  | .forward v => ({ s with log := s.log ++ [v] }, none)
  | .next i m =>
    match s.rxs[i]? with
    | some r => let (o, r') := nextIfSmaller s.log r m; (setRx s i r', o)
    | none => (s, none)
  | .empty i =>
    match s.rxs[i]? with
    | some r => (setRx s i (emptyRx s.log r), none)
    | none => (s, none)
  | .bmca i pol m =>
    match s.rxs[i]? with
    | some r => (setRx s i (afterBmca pol m s.log r), none)
    | none => (s, none)

def run (s : St) : List Op → St × List (Option Item)
  | [] => (s, [])
  | op :: ops =>
    let (s1, o) := step s op
    let (s2, os) := run s1 ops
    (s2, o :: os)

/-! ### line protocol -/

def parsePolicy : String → Option ClearPolicy
  | "never" => some .never
  | "when-master" => some .whenMaster
  | "when-not-master" => some .whenNotMaster
  | "always" => some .always
  | _ => none

def showOut : Option Item → String
  | some v => s!"some {v.size} {v.tag}"
  | none => "none"

/-- `FWD new | dup i | fwd size tag | next i max | empty i | bmca i policy 0/1` -/
def fwdLine (s : St) : List String → St × String
  | ["new"] => ({}, "ok")
  | ["dup", i] =>
    match i.toNat? with
    | some i => if i < s.rxs.length then ((step s (.dup i)).1, s!"ok {s.rxs.length}") else (s, "bad-op")
    | none => (s, "bad-op")
  | ["fwd", sz, tag] =>
    match sz.toNat?, tag.toNat? with
    | some sz, some tag => ((step s (.forward ⟨sz, tag⟩)).1, "ok")
    | _, _ => (s, "bad-op")
  | ["next", i, m] =>
    match i.toNat?, m.toNat? with
    | some i, some m =>
      if i < s.rxs.length then let (s', o) := step s (.next i m); (s', showOut o) else (s, "bad-op")
    | _, _ => (s, "bad-op")
  | ["empty", i] =>
    match i.toNat? with
    | some i => if i < s.rxs.length then ((step s (.empty i)).1, "ok") else (s, "bad-op")
    | none => (s, "bad-op")
  | ["bmca", i, pol, m] =>
    match i.toNat?, parsePolicy pol, m.toNat? with
    | some i, some pol, some m =>
      if i < s.rxs.length then ((step s (.bmca i pol (m != 0))).1, "ok") else (s, "bad-op")
    | _, _, _ => (s, "bad-op")
  | _ => (s, "bad-op")

end Statime.Fwd
