import StatimeModel.Model.Time
/-
Model of the wire codec: statime/src/datastructures/messages/{mod,header,*}.rs and
datastructures/common/{tlv,timestamp,time_interval,port_identity,clock_quality,
clock_accuracy,time_source}.rs.

`decode` mirrors `Message::deserialize`, `encode` mirrors `Message::serialize`
into a zero-initialised buffer (the Rust serializer leaves a few reserved
octets of the caller's buffer untouched: Announce body octet 12, Management
body octet 13 — the model writes 0 there; the harness serializes into zeroed
buffers and masks those octets in frames emitted from the port's reused packet
buffer).

Enumerations are stored as their *normalised octet* (`to_primitive ∘
from_primitive`), so that equality of model messages is equality of the Rust
values. Core-only.
-/
namespace Statime

inductive WireError | enumConv | short | capacity | invalid
  deriving DecidableEq, Repr, Inhabited

def WireError.name : WireError → String
  | .enumConv => "enum" | .short => "short" | .capacity => "capacity" | .invalid => "invalid"

/-! ### byte helpers -/

def byteAt (b : List UInt8) (i : Nat) : Nat := (b.getD i 0).toNat

/-- big-endian value of `n` octets starting at `i` -/
def beVal (b : List UInt8) (i : Nat) : Nat → Nat
  | 0 => 0
  | n + 1 => beVal b i n * 256 + byteAt b (i + n)

/-- big-endian octets of `v`, `n` of them (high octets of larger values are dropped) -/
def beBytes (v : Nat) : Nat → List UInt8
  | 0 => []
  | n + 1 => beBytes (v / 256) n ++ [UInt8.ofNat (v % 256)]

def toSigned (bits : Nat) (v : Nat) : Int :=
  if v < 2 ^ (bits - 1) then (v : Int) else (v : Int) - (2 ^ bits : Nat)

def ofSigned (bits : Nat) (x : Int) : Nat := (x % ((2 ^ bits : Nat) : Int)).toNat

def bit (v : Nat) (k : Nat) : Bool := (v / 2 ^ k) % 2 = 1
def b2n (b : Bool) : Nat := if b then 1 else 0

/-! ### enumerations (tables are re-extracted from the source by the translator) -/

inductive MsgType | sync | delayReq | pdelayReq | pdelayResp | followUp | delayResp
  | pdelayRespFu | announce | signaling | management
  deriving DecidableEq, Repr, Inhabited

def MsgType.ofNibble : Nat → Option MsgType
  | 0x0 => some .sync | 0x1 => some .delayReq | 0x2 => some .pdelayReq | 0x3 => some .pdelayResp
  | 0x8 => some .followUp | 0x9 => some .delayResp | 0xa => some .pdelayRespFu | 0xb => some .announce
  | 0xc => some .signaling | 0xd => some .management | _ => none

def MsgType.toNibble : MsgType → Nat
  | .sync => 0x0 | .delayReq => 0x1 | .pdelayReq => 0x2 | .pdelayResp => 0x3 | .followUp => 0x8
  | .delayResp => 0x9 | .pdelayRespFu => 0xa | .announce => 0xb | .signaling => 0xc | .management => 0xd

/-- `ControlField::from(message_type).to_primitive()` -/
def MsgType.controlField : MsgType → Nat
  | .sync => 0 | .delayReq => 1 | .followUp => 2 | .delayResp => 3 | .management => 4 | _ => 5

def MsgType.bodySize : MsgType → Nat
  | .sync => 10 | .delayReq => 10 | .pdelayReq => 20 | .pdelayResp => 20 | .followUp => 10
  | .delayResp => 20 | .pdelayRespFu => 20 | .announce => 30 | .signaling => 10 | .management => 14

/-- `ClockAccuracy::from_primitive(v).to_primitive()` -/
def normAccuracy (v : Nat) : Nat :=
  if (0x17 ≤ v ∧ v ≤ 0x31) ∨ (0x80 ≤ v ∧ v ≤ 0xfe) then v else 0

/-- `ManagementAction::from_primitive(v).to_primitive()` -/
def normAction (v : Nat) : Nat := if v ≤ 4 then v else 5

/-- `TlvType::announce_propagate` on the primitive value -/
def tlvPropagates (t : Nat) : Bool := t = 0x0008 || t = 0x0009 || (0x4000 ≤ t && t ≤ 0x7fff)

def TLV_PATH_TRACE : Nat := 0x0008

/-! ### message structures -/

structure PortId where
  clock : Nat   -- the eight identity octets as a big-endian number (`Ord` on `[u8; 8]` = numeric order)
  port : Nat
  deriving DecidableEq, Repr, Inhabited

structure Flags where
  alternateMaster : Bool := false
  twoStep : Bool := false
  unicast : Bool := false
  profile1 : Bool := false
  profile2 : Bool := false
  leap61 : Bool := false
  leap59 : Bool := false
  utcValid : Bool := false
  ptpTimescale : Bool := false
  timeTraceable : Bool := false
  freqTraceable : Bool := false
  syncUncertain : Bool := false
  deriving DecidableEq, Repr, Inhabited

structure Header where
  sdoId : Nat := 0
  verMajor : Nat := 2
  verMinor : Nat := 1
  domain : Nat := 0
  flags : Flags := {}
  correction : Int := 0     -- I48F16 bit pattern
  src : PortId := ⟨0, 0⟩
  seq : Nat := 0
  logInterval : Int := 0
  deriving DecidableEq, Repr, Inhabited

structure AnnounceBody where
  origin : WireTs
  utcOffset : Int
  p1 : Nat
  clockClass : Nat
  accuracy : Nat
  variance : Nat
  p2 : Nat
  gm : Nat
  steps : Nat
  timeSource : Nat
  deriving DecidableEq, Repr, Inhabited

inductive Body
  | sync (origin : WireTs)
  | delayReq (origin : WireTs)
  | pdelayReq (origin : WireTs)
  | pdelayResp (rx : WireTs) (req : PortId)
  | followUp (origin : WireTs)
  | delayResp (rx : WireTs) (req : PortId)
  | pdelayRespFu (origin : WireTs) (req : PortId)
  | announce (a : AnnounceBody)
  | signaling (target : PortId)
  | management (target : PortId) (startHops hops action : Nat)
  deriving DecidableEq, Repr, Inhabited

def Body.type : Body → MsgType
  | .sync _ => .sync | .delayReq _ => .delayReq | .pdelayReq _ => .pdelayReq
  | .pdelayResp _ _ => .pdelayResp | .followUp _ => .followUp | .delayResp _ _ => .delayResp
  | .pdelayRespFu _ _ => .pdelayRespFu | .announce _ => .announce | .signaling _ => .signaling
  | .management _ _ _ _ => .management

structure Msg where
  header : Header
  body : Body
  suffix : List UInt8
  deriving DecidableEq, Repr, Inhabited

/-! ### decoding -/

def readTs (b : List UInt8) (i : Nat) : WireTs := ⟨beVal b i 6, beVal b (i + 6) 4⟩
def readPortId (b : List UInt8) (i : Nat) : PortId := ⟨beVal b i 8, beVal b (i + 8) 2⟩

def readFlags (b : List UInt8) : Flags :=
  let f0 := byteAt b 6
  let f1 := byteAt b 7
  { alternateMaster := bit f0 0, twoStep := bit f0 1, unicast := bit f0 2,
    profile1 := bit f0 5, profile2 := bit f0 6,
    leap61 := bit f1 0, leap59 := bit f1 1, utcValid := bit f1 2, ptpTimescale := bit f1 3,
    timeTraceable := bit f1 4, freqTraceable := bit f1 5, syncUncertain := bit f1 6 }

/-- `Header::deserialize_header` field part (needs ≥ 34 octets) -/
def readHeader (b : List UInt8) : Header :=
  { sdoId := (byteAt b 0 / 16) * 256 + byteAt b 5
    verMajor := byteAt b 1 % 16
    verMinor := byteAt b 1 / 16
    domain := byteAt b 4
    flags := readFlags b
    correction := toSigned 64 (beVal b 8 8)
    src := readPortId b 20
    seq := beVal b 30 2
    logInterval := toSigned 8 (byteAt b 33) }

/-- the `messageLength` field -/
def declaredLen (b : List UInt8) : Nat := beVal b 2 2

/-- body decoders; `c` is the content buffer (`buffer[34..messageLength]`) -/
def readBody (ty : MsgType) (c : List UInt8) : Except WireError Body :=
  if c.length < ty.bodySize then .error .short else
  .ok (match ty with
  | .sync => .sync (readTs c 0)
  | .delayReq => .delayReq (readTs c 0)
  | .pdelayReq => .pdelayReq (readTs c 0)
  | .pdelayResp => .pdelayResp (readTs c 0) (readPortId c 10)
  | .followUp => .followUp (readTs c 0)
  | .delayResp => .delayResp (readTs c 0) (readPortId c 10)
  | .pdelayRespFu => .pdelayRespFu (readTs c 0) (readPortId c 10)
  | .announce => .announce
      { origin := readTs c 0, utcOffset := toSigned 16 (beVal c 10 2), p1 := byteAt c 13,
        clockClass := byteAt c 14, accuracy := normAccuracy (byteAt c 15), variance := beVal c 16 2,
        p2 := byteAt c 18, gm := beVal c 19 8, steps := beVal c 27 2, timeSource := byteAt c 29 }
  | .signaling => .signaling (readPortId c 0)
  | .management => .management (readPortId c 0) (byteAt c 10) (byteAt c 11) (normAction (byteAt c 12 % 16)))

/-- `TlvSet::deserialize`: walks `(type, length, value)` records while at least 4
octets remain; odd length → `Invalid`; running past the end or 1–4 trailing
octets → `BufferTooShort`. Fuel = buffer length (each step consumes ≥ 4 octets). -/
def tlvCheck : Nat → List UInt8 → Except WireError Unit
  | 0, b => if b.isEmpty then .ok () else .error .short
  | fuel + 1, b =>
    if b.length ≥ 4 then
      let len := beVal b 2 2
      if len % 2 ≠ 0 then .error .invalid
      else if b.length < 4 + len then .error .short
      else tlvCheck fuel (b.drop (4 + len))
    else if b.isEmpty then .ok () else .error .short

/-- `Message::deserialize`, as a function of the only things it looks at:
is the buffer shorter than a header, the type nibble, the declared length, is the
buffer shorter than the declared length, the content `buffer[34..messageLength]`,
and the header fields. -/
def decodeAux (short : Bool) (nib len : Nat) (trunc : Bool) (c : List UInt8) (hdr : Header) :
    Except WireError Msg :=
  if short then .error .short else
  match MsgType.ofNibble nib with
  | none => .error .enumConv
  | some ty =>
    if len < 34 then .error .invalid
    else if trunc then .error .short
    else
      match readBody ty c with
      | .error e => .error e
      | .ok body =>
        let t := c.drop ty.bodySize
        match tlvCheck t.length t with
        | .error e => .error e
        | .ok () => .ok { header := hdr, body := body, suffix := t }

def decode (b : List UInt8) : Except WireError Msg :=
  decodeAux (decide (b.length < 34)) (byteAt b 0 % 16) (declaredLen b) (decide (b.length < declaredLen b))
    ((b.take (declaredLen b)).drop 34) (readHeader b)

/-! ### encoding -/

def writeTs (t : WireTs) : List UInt8 := beBytes t.secs 6 ++ beBytes t.nanos 4
def writePortId (p : PortId) : List UInt8 := beBytes p.clock 8 ++ beBytes p.port 2

def flagByte0 (f : Flags) : Nat :=
  b2n f.alternateMaster + 2 * b2n f.twoStep + 4 * b2n f.unicast + 32 * b2n f.profile1 + 64 * b2n f.profile2
def flagByte1 (f : Flags) : Nat :=
  b2n f.leap61 + 2 * b2n f.leap59 + 4 * b2n f.utcValid + 8 * b2n f.ptpTimescale +
  16 * b2n f.timeTraceable + 32 * b2n f.freqTraceable + 64 * b2n f.syncUncertain

/-- `Header::serialize_header` (34 octets) -/
def writeHeader (h : Header) (ty : MsgType) (totalLen : Nat) : List UInt8 :=
  [UInt8.ofNat (((h.sdoId / 256) % 16) * 16 + ty.toNibble),
   UInt8.ofNat ((h.verMinor % 16) * 16 + h.verMajor % 16)] ++
  beBytes totalLen 2 ++
  [UInt8.ofNat h.domain, UInt8.ofNat (h.sdoId % 256), UInt8.ofNat (flagByte0 h.flags), UInt8.ofNat (flagByte1 h.flags)] ++
  beBytes (ofSigned 64 h.correction) 8 ++
  [0, 0, 0, 0] ++
  writePortId h.src ++
  beBytes h.seq 2 ++
  [UInt8.ofNat ty.controlField, UInt8.ofNat (ofSigned 8 h.logInterval)]

def zeros (n : Nat) : List UInt8 := List.replicate n 0

def writeBody : Body → List UInt8
  | .sync o => writeTs o
  | .delayReq o => writeTs o
  | .pdelayReq o => writeTs o ++ zeros 10
  | .pdelayResp rx req => writeTs rx ++ writePortId req
  | .followUp o => writeTs o
  | .delayResp rx req => writeTs rx ++ writePortId req
  | .pdelayRespFu o req => writeTs o ++ writePortId req
  | .announce a =>
      writeTs a.origin ++ beBytes (ofSigned 16 a.utcOffset) 2 ++ [0, UInt8.ofNat a.p1,
        UInt8.ofNat a.clockClass, UInt8.ofNat a.accuracy] ++ beBytes a.variance 2 ++
      [UInt8.ofNat a.p2] ++ beBytes a.gm 8 ++ beBytes a.steps 2 ++ [UInt8.ofNat a.timeSource]
  | .signaling t => writePortId t
  | .management t s h a => writePortId t ++ [UInt8.ofNat s, UInt8.ofNat h, UInt8.ofNat a, 0]

/-- `Message::wire_size` -/
def Msg.wireSize (m : Msg) : Nat := 34 + m.body.type.bodySize + m.suffix.length

/-- `Message::serialize` into a zeroed buffer -/
def encode (m : Msg) : List UInt8 :=
  writeHeader m.header m.body.type m.wireSize ++ writeBody m.body ++ m.suffix

/-! ### TLV iteration (`TlvSetIterator`) on a validated suffix -/

structure Tlv where
  ty : Nat
  value : List UInt8
  deriving DecidableEq, Repr, Inhabited

def Tlv.wireSize (t : Tlv) : Nat := 4 + t.value.length
def Tlv.bytes (t : Tlv) : List UInt8 := beBytes t.ty 2 ++ beBytes t.value.length 2 ++ t.value

def tlvIter : Nat → List UInt8 → List Tlv
  | 0, _ => []
  | fuel + 1, b =>
    if b.length ≥ 4 then
      let len := beVal b 2 2
      { ty := beVal b 0 2, value := (b.drop 4).take len } :: tlvIter fuel (b.drop (4 + len))
    else []

def tlvs (suffix : List UInt8) : List Tlv := tlvIter suffix.length suffix

/-- `is_compatible` -/
def isCompatible (b : List UInt8) : Bool := b.length ≥ 2 && byteAt b 1 % 16 = 2

end Statime
