import StatimeModel.Props.C16
#print axioms Statime.C16.wire_roundtrip
#print axioms Statime.C16.add_in_range
#print axioms Statime.C16.add_sub_cancel
#print axioms Statime.C16.sub_add_cancel
#print axioms Statime.C16.time_sub_exact
#print axioms Statime.C16.time_sub_in_ptp_range
#print axioms Statime.C16.interval_roundtrip
#print axioms Statime.C16.interval_to_dur_in_range
#print axioms Statime.C16.dur_to_interval_floor
#print axioms Statime.C16.dur_to_interval_domain
#print axioms Statime.C16.dur_to_interval_saturates
#print axioms Statime.C16.dur_to_interval_mono
#print axioms Statime.C16.log_interval_exact
#print axioms Statime.C16.log_interval_nearest
#print axioms Statime.C16.log_interval_overflow
