import StatimeModel.Props.C04
#print axioms Statime.C04.tie_layouts
#print axioms Statime.C04.tie_tables
#print axioms Statime.C04.model_tables
#print axioms Statime.C04.decode_prefix
#print axioms Statime.C04.decode_ignores_padding
#print axioms Statime.C04.decode_truncated
#print axioms Statime.C04.reencode_length
#print axioms Statime.C04.header_layout
#print axioms Statime.C04.flags_layout
#print axioms Statime.C04.body_layout
#print axioms Statime.C04.reencode_idem
#print axioms Statime.C04.encode_decode_roundtrip
#print axioms Statime.C04.reencode_agrees_header
#print axioms Statime.C04.reencode_agrees_body
