import StatimeModel.Model.Time
import StatimeModel.Model.Wire
/-
IEEE 1588-2019 offset / delay formulas (11.2, 11.3, 11.4), in exact fixed-point arithmetic
(unit 2^-32 ns; `none` where an intermediate value leaves the representable range).
Trusted as the transcription of the standard.

  <offsetFromMaster> + <meanDelay> = (t2 − correction(Sync)) − (t1 + correction(Follow_Up)) − delayAsymmetry
  <meanDelay> − <offsetFromMaster> = ...;  statime feeds its filter the two raw quantities
     raw_sync_offset  = t2' − t1' − asym           (t2' corrected receive time, t1' corrected send time)
     raw_delay_offset = t3 − t4' − asym            (t3 Delay_Req transmit time, t4' = receiveTimestamp − correction(Delay_Resp))
     delay            = (raw_sync_offset − raw_delay_offset) / 2
     peer delay       = ((t4' − t1) − (t3' − t2)) / 2
-/
namespace Statime.Spec
open Statime

/-- t2': receive time of the Sync minus its correction field -/
def syncRecv (corr : Int) (t2 : Nat) : Option Nat := timeSubDur t2 (tivToDur corr)
/-- t1' for a two-step master: preciseOriginTimestamp plus the Follow_Up correction field -/
def followUpSend (corr : Int) (origin : WireTs) : Option Nat :=
  (wireToTime origin).bind fun t0 => timeAddDur t0 (tivToDur corr)
/-- t1' for a one-step master: originTimestamp of the Sync -/
def oneStepSend (origin : WireTs) : Option Nat := wireToTime origin

/-- raw_sync_offset = t2' − t1' − delayAsymmetry -/
def rawSync (send recv : Nat) (asym : Int) : Option Int :=
  (timeSub recv send).bind fun d => durSub d asym

/-- t4': receiveTimestamp of the Delay_Resp minus its correction field -/
def delayRecv (corr : Int) (rx : WireTs) : Option Nat :=
  (wireToTime rx).bind fun t0 => timeSubDur t0 (tivToDur corr)

/-- raw_delay_offset = t3 − t4' − delayAsymmetry -/
def rawDelay (send recv : Nat) (asym : Int) : Option Int :=
  (timeSub send recv).bind fun d => durSub d asym

/-- mean path delay from the last raw sync offset and a raw delay offset: (rs − rd) / 2 -/
def meanDelay (rawSync rawDelay : Int) : Option Int :=
  (durSub rawSync rawDelay).bind durHalf

/-- peer mean link delay: ((t4' − t1) − (t3' − t2)) / 2 -/
def peerDelay (t1 t2 t3 t4 : Nat) : Option Int :=
  (timeSub t4 t1).bind fun a => (timeSub t3 t2).bind fun b => (durSub a b).bind durHalf

end Statime.Spec
