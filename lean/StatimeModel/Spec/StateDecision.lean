import StatimeModel.Model.Bmca
/-
Independent transcription of the IEEE 1588-2019 state decision algorithm
(9.3.3, Figure 33), stated over the *outcome of the data set comparison*
rather than over the code's control flow. Trusted as "what the standard says",
with statime's three documented deviations made explicit as parameters.

`A ≻ B` below means "A better or better by topology than B" (Figure 33 wording).
-/
namespace Statime.Spec
open Statime

/-- "A better or better by topology than B" -/
def betterOrTopo (a b : CmpDS) : Bool :=
  match a.compare b with
  | .better | .betterTopo => true
  | _ => false

/-- D0 against a possibly empty Erbest/Ebest (an empty set loses against D0) -/
def d0Wins (d0 : CmpDS) (e : Option Best) : Bool :=
  match e with
  | none => true
  | some b =>
    -- Figure 33 asks "D0 better or better by topology than E"; when the comparison reports an
    -- error (the two data sets are functionally the same) either branch is valid — statime takes "yes"
    match d0.compare (CmpDS.ofAnnounce b.ann b.identity) with
    | .worse | .worseTopo => false
    | _ => true

inductive Decision | m1 | m2 | m3 | p1 | p2 | s1 | stay
  deriving DecidableEq, Repr

/-- Figure 33. `listening`: the port is in LISTENING; `erbest`: best qualified Announce of this port;
`ebest`: best over all ports. Deviation 1 (1588-2008 behaviour kept by statime): a LISTENING port
without Erbest stays LISTENING. -/
def stateDecision (own : DefaultDS) (ebest erbest : Option Best) (listening : Bool) : Decision :=
  let d0 := CmpDS.ofOwn own
  if erbest.isNone && listening then .stay
  else if 1 ≤ own.quality.clockClass ∧ own.quality.clockClass ≤ 127 then
    (if d0Wins d0 erbest then .m1 else .p1)
  else if d0Wins d0 ebest then .m2
  else
    match ebest, erbest with
    | some g, some p =>
      if g = p then .s1          -- "Ebest received on port r"
      else if betterOrTopo (CmpDS.ofAnnounce g.ann g.identity) (CmpDS.ofAnnounce p.ann p.identity)
            ∧ (CmpDS.ofAnnounce g.ann g.identity).compare (CmpDS.ofAnnounce p.ann p.identity) = .betterTopo
      then .p2 else .m3
    | _, _ => .m3

end Statime.Spec
