/-
Independent transcription of the IEEE 1588-2019 message layouts (Clause 13,
Tables 35–37 and the per-message tables; Clause 15.4.1 for Management; 5.3.x for
the derived types). Offsets are octets from the start of the structure, widths
in octets; everything multi-octet is big-endian (5.3, 7.1.2? — network order).

Field identifiers are the Rust field names, so that the translator's output
(`Generated/Layout.lean`) can be compared with these tables by `decide`.
This file is part of the trusted base (it is "what the standard says").
-/
namespace Statime.Spec

inductive F
  -- header
  | message_type | sdo_id | sdo_id_1 | version | message_length | domain_number | correction_field
  | source_port_identity | sequence_id | control_field | log_message_interval | zero
  -- flags
  | alternate_master_flag | two_step_flag | unicast_flag | ptp_profile_specific_1 | ptp_profile_specific_2
  | leap61 | leap59 | current_utc_offset_valid | ptp_timescale | time_tracable | frequency_tracable
  | synchronization_uncertain
  -- bodies
  | origin_timestamp | precise_origin_timestamp | receive_timestamp | request_receive_timestamp
  | response_origin_timestamp | requesting_port_identity | target_port_identity
  | current_utc_offset | grandmaster_priority_1 | grandmaster_clock_quality | grandmaster_priority_2
  | grandmaster_identity | steps_removed | time_source
  | starting_boundary_hops | boundary_hops | action
  -- derived types
  | seconds | nanos | clock_identity | port_number | clock_class | clock_accuracy
  | offset_scaled_log_variance | bits
  deriving DecidableEq, Repr

abbrev Table := List (F × Nat × Nat)

/-- Table 35 (common header), read side as statime names the pieces:
octet 0 carries majorSdoId (high nibble) and messageType (low nibble); octet 5 is minorSdoId. -/
def headerRead : Table :=
  [(.message_type, 0, 1), (.sdo_id, 0, 1), (.version, 1, 1), (.message_length, 2, 2), (.domain_number, 4, 1),
   (.sdo_id_1, 5, 1), (.correction_field, 8, 8), (.source_port_identity, 20, 10), (.sequence_id, 30, 2),
   (.log_message_interval, 33, 1)]

/-- write side: additionally flagField octets are cleared before the bits are or-ed in,
messageTypeSpecific (16..20) is zero, controlField is octet 32 -/
def headerWrite : Table :=
  [(.sdo_id, 0, 1), (.version, 1, 1), (.message_length, 2, 2), (.domain_number, 4, 1), (.sdo_id, 5, 1),
   (.zero, 6, 1), (.zero, 7, 1), (.correction_field, 8, 8), (.zero, 16, 4), (.source_port_identity, 20, 10),
   (.sequence_id, 30, 2), (.control_field, 32, 1), (.log_message_interval, 33, 1)]

/-- Table 37: flagField bits as (name, header octet, bit) -/
def flags : Table :=
  [(.alternate_master_flag, 6, 0), (.two_step_flag, 6, 1), (.unicast_flag, 6, 2),
   (.ptp_profile_specific_1, 6, 5), (.ptp_profile_specific_2, 6, 6),
   (.leap61, 7, 0), (.leap59, 7, 1), (.current_utc_offset_valid, 7, 2), (.ptp_timescale, 7, 3),
   (.time_tracable, 7, 4), (.frequency_tracable, 7, 5), (.synchronization_uncertain, 7, 6)]

/-- Table 43 (Announce), offsets within the body (message offset − 34) -/
def announce : Table :=
  [(.origin_timestamp, 0, 10), (.current_utc_offset, 10, 2), (.grandmaster_priority_1, 13, 1),
   (.grandmaster_clock_quality, 14, 4), (.grandmaster_priority_2, 18, 1), (.grandmaster_identity, 19, 8),
   (.steps_removed, 27, 2), (.time_source, 29, 1)]

def sync : Table := [(.origin_timestamp, 0, 10)]
def delayReq : Table := [(.origin_timestamp, 0, 10)]
def followUp : Table := [(.precise_origin_timestamp, 0, 10)]
def delayResp : Table := [(.receive_timestamp, 0, 10), (.requesting_port_identity, 10, 10)]
def pdelayReqRead : Table := [(.origin_timestamp, 0, 10)]
def pdelayReqWrite : Table := [(.origin_timestamp, 0, 10), (.zero, 10, 10)]
def pdelayResp : Table := [(.request_receive_timestamp, 0, 10), (.requesting_port_identity, 10, 10)]
def pdelayRespFu : Table := [(.response_origin_timestamp, 0, 10), (.requesting_port_identity, 10, 10)]
def signaling : Table := [(.target_port_identity, 0, 10)]
/-- 15.4.1: targetPortIdentity, startingBoundaryHops, boundaryHops, reserved|actionField, reserved -/
def management : Table :=
  [(.target_port_identity, 0, 10), (.starting_boundary_hops, 10, 1), (.boundary_hops, 11, 1), (.action, 12, 1)]

/-- 5.3.3 Timestamp: secondsField UInteger48, nanosecondsField UInteger32 -/
def timestamp : Table := [(.seconds, 0, 6), (.nanos, 6, 4)]
/-- 5.3.5 PortIdentity -/
def portIdentity : Table := [(.clock_identity, 0, 8), (.port_number, 8, 2)]
/-- 5.3.7 ClockQuality -/
def clockQuality : Table := [(.clock_class, 0, 1), (.clock_accuracy, 1, 1), (.offset_scaled_log_variance, 2, 2)]
/-- 5.3.2 TimeInterval: Integer64 scaledNanoseconds -/
def timeInterval : Table := [(.bits, 0, 8)]

/-- Table 36 messageType values -/
def messageTypes : List (Nat × String) :=
  [(0, "Sync"), (1, "DelayReq"), (2, "PDelayReq"), (3, "PDelayResp"), (8, "FollowUp"), (9, "DelayResp"),
   (10, "PDelayRespFollowUp"), (11, "Announce"), (12, "Signaling"), (13, "Management")]

/-- Table 42 controlField values (deprecated field, still transmitted) -/
def controlFields : List (String × Nat) :=
  [("Sync", 0), ("DelayReq", 1), ("FollowUp", 2), ("DelayResp", 3), ("Management", 4)]
def controlFieldOthers : Nat := 5

/-- message body lengths: Tables 44–50, 43, 51, 56 (without TLVs) -/
def bodySizes : List (String × Nat) :=
  [("Sync", 10), ("DelayReq", 10), ("PDelayReq", 20), ("PDelayResp", 20), ("FollowUp", 10), ("DelayResp", 20),
   ("PDelayRespFollowUp", 20), ("Announce", 30), ("Signaling", 10), ("Management", 14)]

/-- 14.2 / Table 52: TLV types a boundary clock propagates with Announce: PATH_TRACE,
ALTERNATE_TIME_OFFSET_INDICATOR and the 0x4000–0x7FFF block -/
def tlvPropagateRanges : List (Nat × Nat) := [(8, 8), (9, 9), (16384, 32767)]
def tlvPathTrace : Nat := 8

/-- Table 5 clockAccuracy: defined octets are 0x17..0x31 and the profile range 0x80..0xFD, 0xFE = unknown;
everything else is reserved (normalised to 0 by statime's `Reserved`) -/
def accuracyNorm : List Nat :=
  (List.range 256).map fun v => if (0x17 ≤ v ∧ v ≤ 0x31) ∨ (0x80 ≤ v ∧ v ≤ 0xfe) then v else 0

/-- timeSource octets are carried through unchanged -/
def timeSourceNorm : List Nat := List.range 256

/-- Table 57 actionField: 0..4 defined, others reserved (normalised to 5) -/
def actionNorm : List Nat := (List.range 256).map fun v => if v ≤ 4 then v else 5

def lookup (t : Table) (f : F) : Nat × Nat :=
  match t.find? (fun e => e.1 == f) with
  | some (_, o, w) => (o, w)
  | none => (0, 0)

end Statime.Spec
