import StatimeModel.Model.Time
import StatimeModel.Model.Util
import StatimeModel.Model.TimeDriver
