import StatimeModel.Model.TimeDriver
import StatimeModel.Model.WireDriver
import StatimeModel.Model.PortDriver
import StatimeModel.Model.Overlay
import StatimeModel.Model.ServoDriver
import StatimeModel.Model.Metrics
import StatimeModel.Model.Exporter
import StatimeModel.Model.Net
import StatimeModel.Model.Forwarder
/-
model-driver: line protocol, ops in (stdin), canonical observations out (stdout).
One output line per input line (multi-part outputs are joined with " ; ").
-/
open Statime

structure DState where
  inst : Option Inst := none
  ovl : Option OvlState := none
  filt : Servo.Filt := .none
  nodes : List (Nat × Option Inst) := []
  fwd : Fwd.St := {}

def stepLine (st : DState) (line : String) : DState × String :=
  match words line with
  | "TIME" :: rest => (st, timeLine rest)
  | "DEC" :: rest => (st, decLine rest)
  | "CMP" :: rest => (st, cmpLine rest)
  | "OVL" :: rest =>
    let (o, out) := ovlLine st.ovl rest
    ({ st with ovl := o }, out)
  | "NETX" :: rest => (st, Net.netxLine rest)
  | "EXP" :: rest => (st, Exporter.expLine rest)
  | "MET" :: rest => (st, Metrics.metLine rest)
  | "FMT" :: rest => (st, Metrics.fmtLine rest)
  | "FWD" :: rest =>
    let (f, out) := Fwd.fwdLine st.fwd rest
    ({ st with fwd := f }, out)
  | "FLT" :: rest =>
    let (f, out) := Servo.filtLine Servo.machine st.filt rest
    ({ st with filt := f }, out)
  | [] => (st, "bad-op")
  | ws =>
    match ws with
    | n :: rest =>
      -- `N<i> <instance op>`: one of several instances (network streams)
      match (if n.startsWith "N" then (n.drop 1).toNat? else none) with
      | some k =>
        if rest.isEmpty then (st, "bad-op") else
        let cur := (st.nodes.lookup k).getD none
        if cur.isNone ∧ rest.head? ≠ some "INIT" then (st, "dead") else
        let (i, o) := instLine cur rest
        ({ st with nodes := (k, i) :: st.nodes.filter (·.1 ≠ k) }, o)
      | none =>
        let (i, o) := instLine st.inst ws
        ({ st with inst := i }, o)
    | [] => (st, "bad-op")

partial def loop (h : IO.FS.Stream) (out : IO.FS.Stream) (st : DState) : IO Unit := do
  let line ← h.getLine
  if line.isEmpty then return ()
  let (st', o) := stepLine st line
  out.putStrLn o
  loop h out st'

def main : IO Unit := do
  let stdin ← IO.getStdin
  let stdout ← IO.getStdout
  loop stdin stdout {}
  stdout.flush
