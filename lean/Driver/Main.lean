import StatimeModel.Model.TimeDriver
import StatimeModel.Model.WireDriver
import StatimeModel.Model.PortDriver
import StatimeModel.Model.Overlay
import StatimeModel.Model.ServoDriver
import StatimeModel.Model.Metrics
import StatimeModel.Model.Exporter
/-
model-driver: line protocol, ops in (stdin), canonical observations out (stdout).
One output line per input line (multi-part outputs are joined with " ; ").
-/
open Statime

structure DState where
  inst : Option Inst := none
  ovl : Option OvlState := none
  filt : Servo.Filt := .none

def stepLine (st : DState) (line : String) : DState × String :=
  match words line with
  | "TIME" :: rest => (st, timeLine rest)
  | "DEC" :: rest => (st, decLine rest)
  | "CMP" :: rest => (st, cmpLine rest)
  | "OVL" :: rest =>
    let (o, out) := ovlLine st.ovl rest
    ({ st with ovl := o }, out)
  | "EXP" :: rest => (st, Exporter.expLine rest)
  | "MET" :: rest => (st, Metrics.metLine rest)
  | "FMT" :: rest => (st, Metrics.fmtLine rest)
  | "FLT" :: rest =>
    let (f, out) := Servo.filtLine Servo.machine st.filt rest
    ({ st with filt := f }, out)
  | [] => (st, "bad-op")
  | ws =>
    let (i, o) := instLine st.inst ws
    ({ st with inst := i }, o)

partial def loop (h : IO.FS.Stream) (out : IO.FS.Stream) (st : DState) : IO Unit := do
  let line ← h.getLine
  if line.isEmpty then return ()
  let (st', o) := stepLine st line
  out.putStrLn o
  loop h out st'

def main : IO Unit := do
  let stdin ← IO.getStdin
  let stdout ← IO.getStdout
  loop stdin stdout {}
  stdout.flush
