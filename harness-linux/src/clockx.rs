//! C18, daemon side: the clock handle the daemon gives its ports when `virtual-system-clock` is on,
//! `SharedClock<OverlayClock<LinuxClock>>` over CLOCK_TAI (the overlay only ever *reads* the clock under it), and
//! the conversion of socket timestamps through it (`statime-linux/src/clock/mod.rs: PortTimestampToTime`).
//! The clock underneath is the machine's, so there is nothing for a model to reproduce: this stream is judged by
//! oracles only — every reading and every converted timestamp is bracketed by readings of the system clock taken
//! just before and just after, mapped through the affine map the operations so far define.
//!
//! Ops (for the record; the observation is always `ok`): OVX new | freq <ppb> | step <ns> | probe
use statime::{time::{Duration, Time}, Clock, OverlayClock, SharedClock};
use statime_linux::clock::{LinuxClock, PortTimestampToTime};
use statime_verif_harness::{out::Out, prng::Prng};
use timestamped_socket::socket::Timestamp;

fn tai_ns() -> i128 {
    // nanoseconds of CLOCK_TAI
    let mut ts = libc::timespec { tv_sec: 0, tv_nsec: 0 };
    unsafe { libc::clock_gettime(libc::CLOCK_TAI, &mut ts) };
    ts.tv_sec as i128 * 1_000_000_000 + ts.tv_nsec as i128
}

fn realtime_ts() -> Timestamp {
    let mut ts = libc::timespec { tv_sec: 0, tv_nsec: 0 };
    unsafe { libc::clock_gettime(libc::CLOCK_REALTIME, &mut ts) };
    Timestamp { seconds: ts.tv_sec as i64, nanos: ts.tv_nsec as u32 }
}

fn ns(t: Time) -> i128 {
    (t.nanos().to_bits() >> 32) as i128
}

/// the overlay as the operations define it: reading = anchor_overlay + (u - anchor_under) * (1 + ppm e-6)
struct Ref {
    anchor_under: i128,
    anchor_overlay: i128,
    ppb: i128,
}

impl Ref {
    fn at(&self, u: i128) -> i128 {
        let du = u - self.anchor_under;
        self.anchor_overlay + du + (du * self.ppb).div_euclid(1_000_000_000)
    }
}

pub fn generate(out: &mut Out, rng: &Prng, thorough: bool) {
    let scenarios = if thorough { 400 } else { 60 };
    // the offset CLOCK_TAI - CLOCK_REALTIME the kernel reports (socket timestamps are CLOCK_REALTIME)
    let tai_off = LinuxClock::CLOCK_TAI.get_tai_offset().unwrap_or(0) as i128 * 1_000_000_000;
    // slack: scheduling between the bracketing reads is covered by the bracket itself; what remains is the rounding
    // of the rate product (the overlay multiplies in 2^-32 ns fixed point by an f64 factor) and truncation to whole ns
    let eps: i128 = 16;
    for _ in 0..scenarios {
        out.op("OVX new", "ok");
        let u0 = tai_ns();
        let a = SharedClock::new(OverlayClock::new(LinuxClock::CLOCK_TAI));
        let mut handles = [a.clone(), a.clone(), a];
        let u1 = tai_ns();
        // a fresh overlay reads what the clock under it reads
        let mut r = Ref { anchor_under: u0, anchor_overlay: u0, ppb: 0 };
        let mut r_hi = Ref { anchor_under: u1, anchor_overlay: u1, ppb: 0 };
        let steps = 6 + rng.below(20);
        for i in 0..steps {
            let h = &mut handles[(i % 3) as usize];
            match rng.below(10) {
                0..=2 => {
                    let ppb = rng.below(1_000_001) as i64 - 500_000;
                    let line = format!("OVX freq {ppb}");
                    let before = tai_ns();
                    let ret = h.set_frequency(ppb as f64 / 1000.0);
                    let after = tai_ns();
                    out.op(&line, "ok");
                    let Ok(t) = ret else {
                        out.oracle("C18", "shared-overlay-call-fails", &format!("{line} -> set_frequency returned an error"));
                        continue;
                    };
                    // continuous: the returned reading lies between the old map at `before` and at `after`
                    let (lo, hi) = (r.at(before).min(r_hi.at(before)), r.at(after).max(r_hi.at(after)));
                    if ns(t) < lo - eps || ns(t) > hi + eps {
                        out.oracle("C18", "shared-overlay-frequency-change-not-continuous", &format!("{line} -> returned reading {} outside [{lo}, {hi}]", ns(t)));
                    }
                    // new anchor: somewhere in [before, after]; keep both extremes
                    r = Ref { anchor_under: before, anchor_overlay: lo, ppb: ppb as i128 };
                    r_hi = Ref { anchor_under: after, anchor_overlay: hi, ppb: ppb as i128 };
                    out.count("ovx.freq");
                }
                3..=4 => {
                    let off_ns = rng.below(20_000_000_001) as i128 - 10_000_000_000;
                    let line = format!("OVX step {off_ns}");
                    let before = tai_ns();
                    let ret = h.step_clock(Duration::from_nanos(off_ns as i64));
                    let after = tai_ns();
                    out.op(&line, "ok");
                    let Ok(t) = ret else {
                        out.oracle("C18", "shared-overlay-call-fails", &format!("{line} -> step_clock returned an error"));
                        continue;
                    };
                    let (lo, hi) = (r.at(before).min(r_hi.at(before)) + off_ns, r.at(after).max(r_hi.at(after)) + off_ns);
                    if ns(t) < lo - eps || ns(t) > hi + eps {
                        out.oracle("C18", "shared-overlay-step-not-exact", &format!("{line} -> returned reading {} outside [{lo}, {hi}]", ns(t)));
                    }
                    r = Ref { anchor_under: before, anchor_overlay: lo, ppb: r.ppb };
                    r_hi = Ref { anchor_under: after, anchor_overlay: hi, ppb: r_hi.ppb };
                    out.count("ovx.step");
                }
                _ => {
                    // a reading through one handle and a socket timestamp converted through another, each bracketed
                    let line = "OVX probe".to_string();
                    let b1 = tai_ns();
                    let n = h.now();
                    let b2 = tai_ns();
                    let sock = realtime_ts();
                    let b3 = tai_ns();
                    let conv = handles[((i + 1) % 3) as usize].port_timestamp_to_time(sock);
                    out.op(&line, "ok");
                    let (lo, hi) = (r.at(b1).min(r_hi.at(b1)), r.at(b2).max(r_hi.at(b2)));
                    if ns(n) < lo - eps || ns(n) > hi + eps {
                        out.oracle("C18", "shared-overlay-reading-off-the-map", &format!("{line} -> now() = {} outside [{lo}, {hi}] (handles must share one overlay state)", ns(n)));
                    }
                    // the socket timestamp was taken between b2 and b3 (CLOCK_REALTIME + TAI offset = CLOCK_TAI)
                    let _ = tai_off;
                    let (lo, hi) = (r.at(b2).min(r_hi.at(b2)), r.at(b3).max(r_hi.at(b3)));
                    if ns(conv) < lo - eps || ns(conv) > hi + eps {
                        out.oracle("C18", "socket-timestamp-conversion-off-the-map", &format!("{line} -> port_timestamp_to_time = {} outside [{lo}, {hi}]: a converted underlying timestamp must agree with what the overlay read at that moment", ns(conv)));
                    }
                    out.count("ovx.probe");
                }
            }
            if rng.chance(1, 3) {
                std::thread::sleep(std::time::Duration::from_micros(200 + rng.below(3000)));
            }
        }
        out.count("ovx.scenarios");
    }
}
