//! C19, the daemon side of the JSON hop: the real `statime_linux::observer` task (socket creation, accept loop,
//! `ProgramData::with_uptime`, `write_json`) serves the observation socket inside this process; the real exporter
//! process reads from it. What the harness controls is only the `ObservableInstanceState` put into the watch channel
//! (as `main.rs` does after every BMCA run).
use std::{
    path::{Path, PathBuf},
    time::Duration,
};

use statime_linux::{
    config::Config,
    metrics::exporter::{ObservableState, ProgramData},
    observer::ObservableInstanceState,
};

use crate::{
    http::{self, Reply},
    metrics::{escape_line, judge},
    mstate::MState,
    procs::Exporter,
};

pub struct LiveRig {
    rt: tokio::runtime::Runtime,
    tx: tokio::sync::watch::Sender<ObservableInstanceState>,
    pub exp: Exporter,
    sock: PathBuf,
    /// the observer task was started between these two instants
    spawned: (std::time::Instant, std::time::Instant),
}

fn instance_of(st: &MState) -> Option<ObservableInstanceState> {
    let parsed: ObservableState = serde_json::from_str(&st.json()).ok()?;
    Some(parsed.instance)
}

impl LiveRig {
    pub fn start(workdir: &Path, tag: &str, first: &MState) -> Option<LiveRig> {
        let sock = PathBuf::from(format!("/dev/shm/verif-liveobs-{}-{tag}.sock", std::process::id()));
        let _ = std::fs::remove_file(&sock);
        let cfg_path = workdir.join(format!("observer-{tag}.toml"));
        std::fs::write(&cfg_path, format!("loglevel = \"error\"\n[[port]]\ninterface = \"lo\"\n\n[observability]\nobservation-path = \"{}\"\n", sock.display())).ok()?;
        let config = Config::from_file(&cfg_path).ok()?;
        let rt = tokio::runtime::Builder::new_multi_thread().worker_threads(1).enable_all().build().ok()?;
        let (tx, rx) = tokio::sync::watch::channel(instance_of(first)?);
        // the daemon's own observer task
        let before = std::time::Instant::now();
        rt.block_on(async { statime_linux::observer::spawn(&config, rx).await });
        let after = std::time::Instant::now();
        // wait for the socket
        let t0 = std::time::Instant::now();
        while !sock.exists() && t0.elapsed() < Duration::from_secs(5) {
            std::thread::sleep(Duration::from_millis(5));
        }
        let exp = Exporter::start(workdir, &sock);
        Some(LiveRig { rt, tx, exp, sock, spawned: (before, after) })
    }

    /// publishes the state the way `main.rs` does and scrapes the exporter; returns the op line for the model (the
    /// program data are the daemon's own: version and build from its `ProgramData::default()`, the uptime as served),
    /// the observation and the oracle's findings
    pub fn scrape(&mut self, st: &MState) -> Option<(String, String, Vec<(String, String)>)> {
        let inst = instance_of(st)?;
        self.tx.send(inst).ok()?;
        let lo = self.spawned.1.elapsed().as_secs_f64();
        let reply = http::get(self.exp.port, Duration::from_secs(3));
        let hi = self.spawned.0.elapsed().as_secs_f64();
        let obs = match &reply {
            Reply::Bytes(b) => format!("resp {}", escape_line(b)),
            Reply::Timeout(b) => format!("timeout {}", escape_line(b)),
            Reply::Refused => "refused".to_string(),
        };
        let pd = ProgramData::default();
        let mut st2 = st.clone();
        st2.version = pd.version;
        st2.commit = pd.build_commit;
        st2.date = pd.build_commit_date;
        // the uptime the observer stamped: read it back from the served sample
        let body = match &reply {
            Reply::Bytes(b) | Reply::Timeout(b) => String::from_utf8_lossy(b).to_string(),
            Reply::Refused => String::new(),
        };
        let up = body
            .lines()
            .find(|l| l.starts_with("statime_uptime_seconds{"))
            .and_then(|l| l.rsplit(' ').next())
            .and_then(|v| v.parse::<f64>().ok());
        st2.uptime = up.unwrap_or(0.0);
        let mut findings = judge(&st2, &reply);
        // "uptime ... in seconds": the observer was spawned between `spawned.0` and `spawned.1` (its task may start a
        // little later under load: a quarter of a second of slack below)
        if let Some(u) = up {
            if !(u >= lo - 0.25 && u <= hi + 0.005) {
                findings.push(("uptime-not-the-time-running".into(), format!("statime_uptime_seconds = {u}, the observer task has been running between {lo:.3} and {hi:.3} s")));
            }
        }
        Some((st2.op(), obs, findings))
    }

    pub fn stop(mut self) {
        self.exp.kill();
        self.rt.shutdown_timeout(Duration::from_millis(200));
        let _ = std::fs::remove_file(&self.sock);
    }
}
