//! C19 stream: observable states -> (real serde representations) -> JSON over the observation socket ->
//! the real exporter process -> HTTP response. Compared with the model byte for byte; judged by an
//! independent reading of the response (framing, exposition grammar, every sample against the state).

use std::{path::Path, time::Duration};

use statime_linux::metrics::exporter::ObservableState;
use statime_verif_harness::{out::Out, prng::Prng};

use crate::{
    http::{self, Reply},
    mstate::{random_state, MState, Sample},
    procs::{Exporter, ObsBehaviour, ObsServer},
};

pub fn escape_line(b: &[u8]) -> String {
    let s = String::from_utf8_lossy(b);
    s.replace('\\', "\\\\").replace('\r', "\\r").replace('\n', "\\n")
}

fn is_name(s: &str) -> bool {
    let mut c = s.chars();
    match c.next() {
        Some(x) if x.is_ascii_alphabetic() || x == '_' || x == ':' => {}
        _ => return false,
    }
    c.all(|x| x.is_ascii_alphanumeric() || x == '_' || x == ':')
}

/// parses one sample line of the text exposition format; `Err` names what is malformed
pub fn parse_sample(line: &str) -> Result<Sample, String> {
    let (name_labels, value) = match line.find('{') {
        Some(i) => {
            // find the closing brace outside of quotes
            let mut in_q = false;
            let mut esc = false;
            let mut close = None;
            for (j, ch) in line[i..].char_indices() {
                if esc {
                    esc = false;
                    continue;
                }
                match ch {
                    '\\' if in_q => esc = true,
                    '"' => in_q = !in_q,
                    '}' if !in_q => {
                        close = Some(i + j);
                        break;
                    }
                    _ => {}
                }
            }
            let c = close.ok_or("unterminated label set")?;
            (&line[..c + 1], line[c + 1..].strip_prefix(' ').ok_or("no space before value")?)
        }
        None => {
            let (n, v) = line.split_once(' ').ok_or("no value")?;
            (n, v)
        }
    };
    let (name, labels) = match name_labels.find('{') {
        None => (name_labels, vec![]),
        Some(i) => {
            let name = &name_labels[..i];
            let body = &name_labels[i + 1..name_labels.len() - 1];
            let mut labels = vec![];
            let mut rest = body;
            while !rest.is_empty() {
                let eq = rest.find('=').ok_or("label without =")?;
                let key = &rest[..eq];
                if !is_name(key) || key.contains(':') {
                    return Err(format!("bad label name {key:?}"));
                }
                let r = rest[eq + 1..].strip_prefix('"').ok_or("label value not quoted")?;
                let mut val = String::new();
                let mut it = r.char_indices();
                let mut end = None;
                while let Some((j, ch)) = it.next() {
                    match ch {
                        '\\' => match it.next() {
                            Some((_, 'n')) => val.push('\n'),
                            Some((_, '\\')) => val.push('\\'),
                            Some((_, '"')) => val.push('"'),
                            _ => return Err("bad escape in label value".into()),
                        },
                        '"' => {
                            end = Some(j);
                            break;
                        }
                        '\n' => return Err("raw newline in label value".into()),
                        c => val.push(c),
                    }
                }
                let e = end.ok_or("unterminated label value")?;
                labels.push((key.to_string(), val));
                rest = &r[e + 1..];
                if let Some(r2) = rest.strip_prefix(',') {
                    rest = r2;
                    if rest.is_empty() {
                        break;
                    }
                } else if !rest.is_empty() {
                    return Err("garbage after label value".into());
                }
            }
            (name, labels)
        }
    };
    if !is_name(name) {
        return Err(format!("bad metric name {name:?}"));
    }
    let v: f64 = match value {
        "NaN" => f64::NAN,
        "+Inf" => f64::INFINITY,
        "-Inf" => f64::NEG_INFINITY,
        t => {
            if t.is_empty() || t.contains(' ') || !t.chars().all(|c| c.is_ascii_digit() || "+-.eE".contains(c)) {
                return Err(format!("value {t:?} is not a number of the exposition format"));
            }
            t.parse().map_err(|_| format!("value {t:?} does not parse"))?
        }
    };
    Ok(Sample { name: name.to_string(), labels, value: v })
}

/// (samples, problems) of an exposition body
pub fn parse_body(body: &str) -> (Vec<Sample>, Vec<String>) {
    let mut samples = vec![];
    let mut problems = vec![];
    if !body.ends_with('\n') {
        problems.push("body does not end with a newline".to_string());
    }
    let mut declared: std::collections::HashMap<String, (bool, bool)> = Default::default();
    for line in body.lines() {
        if let Some(rest) = line.strip_prefix("# ") {
            let mut w = rest.splitn(3, ' ');
            match (w.next(), w.next(), w.next()) {
                (Some("HELP"), Some(n), Some(_)) if is_name(n) => declared.entry(n.to_string()).or_default().0 = true,
                (Some("TYPE"), Some(n), Some(t)) if is_name(n) && ["gauge", "counter", "histogram", "summary", "untyped", "unknown", "info", "stateset", "gaugehistogram"].contains(&t) => {
                    declared.entry(n.to_string()).or_default().1 = true
                }
                (Some("UNIT"), Some(n), Some(u)) if is_name(n) && n.ends_with(&format!("_{u}")) => {}
                (Some("EOF"), None, None) => {}
                _ => problems.push(format!("malformed comment line {line:?}")),
            }
        } else if line.is_empty() {
            problems.push("empty line".into());
        } else {
            match parse_sample(line) {
                Ok(s) => {
                    if declared.get(&s.name).map(|d| d.0 && d.1) != Some(true) {
                        problems.push(format!("sample of {} before its HELP / TYPE", s.name));
                    }
                    samples.push(s)
                }
                Err(e) => problems.push(format!("{e}: {line:?}")),
            }
        }
    }
    (samples, problems)
}

fn same_value(a: f64, b: f64) -> bool {
    a.to_bits() == b.to_bits() || a == b
}

/// the oracle: `None` if the response is what the property asks for
pub fn judge(state: &MState, reply: &Reply) -> Vec<(String, String)> {
    let mut f = vec![];
    let bytes = match reply {
        Reply::Bytes(b) => b,
        Reply::Timeout(_) => return vec![("no-response".into(), "no complete response within the deadline".into())],
        Reply::Refused => return vec![("no-response".into(), "connection refused".into())],
    };
    let Some((code, headers, body)) = http::parse(bytes) else {
        return vec![("malformed-http".into(), format!("not an HTTP/1.1 response: {}", escape_line(&bytes[..bytes.len().min(120)])))];
    };
    if code != 200 {
        return vec![(format!("status-{code}"), format!("status {code} for a state the daemon can be in"))];
    }
    match headers.iter().find(|h| h.0 == "content-length").and_then(|h| h.1.parse::<usize>().ok()) {
        Some(n) if n == body.len() => {}
        other => f.push(("content-length".into(), format!("content-length {other:?}, body has {} octets", body.len()))),
    }
    let Ok(text) = String::from_utf8(body.clone()) else {
        f.push(("body-not-utf8".into(), "body is not UTF-8".into()));
        return f;
    };
    let (samples, problems) = parse_body(&text);
    for p in problems.into_iter().take(3) {
        f.push(("exposition-format".into(), p));
    }
    let expected = state.expected();
    for e in &expected {
        let hits: Vec<&Sample> = samples.iter().filter(|s| s.name == e.name && s.labels == e.labels).collect();
        match hits.as_slice() {
            [] => f.push((format!("missing:{}", e.name), format!("no sample {}{:?}", e.name, e.labels))),
            [s] => {
                if !same_value(s.value, e.value) {
                    f.push((format!("value:{}", e.name), format!("{}{:?} = {:?}, the state says {:?}", e.name, e.labels, s.value, e.value)));
                }
            }
            _ => f.push((format!("duplicate:{}", e.name), format!("{} samples {}{:?}", hits.len(), e.name, e.labels))),
        }
    }
    for s in &samples {
        if !expected.iter().any(|e| e.name == s.name && e.labels == s.labels) {
            f.push((format!("unexpected:{}", s.name), format!("sample {}{:?} = {:?} that the state does not have", s.name, s.labels, s.value)));
        }
    }
    f
}

pub struct Rig {
    pub obs: ObsServer,
    pub exp: Exporter,
}

impl Rig {
    pub fn start(workdir: &Path, tag: &str) -> Rig {
        let sock = std::path::PathBuf::from(format!("/dev/shm/verif-obs-{}-{tag}.sock", std::process::id()));
        let obs = ObsServer::start(&sock);
        let exp = Exporter::start(workdir, &sock);
        Rig { obs, exp }
    }
    pub fn stop(mut self) {
        self.exp.kill();
        self.obs.stop();
    }
}

/// one op line against a running rig: the observation, and what the oracle has to say
pub fn exec_op(rig: &mut Rig, op: &str) -> (String, Vec<(String, String)>) {
    if let Some(h) = op.strip_prefix("FMT ") {
        return match u64::from_str_radix(h.trim(), 16) {
            Ok(b) => (format!("ok {}", f64::from_bits(b)), vec![]),
            Err(_) => ("bad-op".into(), vec![]),
        };
    }
    let Some(st) = MState::from_op(op) else { return ("bad-op".into(), vec![]) };
    let parsed: Result<ObservableState, _> = serde_json::from_str(&st.json());
    let doc = match parsed {
        Ok(o) => serde_json::to_vec(&o).unwrap(),
        Err(e) => return ("unrepresentable".into(), vec![("state-not-representable".into(), e.to_string())]),
    };
    rig.obs.push(ObsBehaviour::Serve(doc));
    let reply = http::get(rig.exp.port, Duration::from_secs(3));
    let obs = match &reply {
        Reply::Bytes(b) => format!("resp {}", escape_line(b)),
        Reply::Timeout(b) => format!("timeout {}", escape_line(b)),
        Reply::Refused => "refused".to_string(),
    };
    (obs, judge(&st, &reply))
}

pub fn replay(path: &Path, workdir: &Path) {
    let mut rig = Rig::start(workdir, "replay");
    for line in std::fs::read_to_string(path).unwrap().lines() {
        if line.starts_with('#') || line.trim().is_empty() {
            continue;
        }
        let (obs, findings) = exec_op(&mut rig, line);
        println!("{obs}");
        for (sig, d) in findings {
            eprintln!("oracle: {sig}: {d}");
        }
    }
    rig.stop();
}

pub fn generate(out: &mut Out, rng: &Prng, thorough: bool, workdir: &Path) {
    let n = if thorough { 6000 } else { 600 };
    let mut rig = Rig::start(workdir, "met");
    let mut live: Option<crate::liveobs::LiveRig> = None;
    for i in 0..n {
        // float rendering of the model against Rust's
        for _ in 0..4 {
            let bits = match rng.below(6) {
                0 => rng.next_u64(),
                1 => (rng.below(1 << 53) as f64).to_bits(),
                2 => (rng.below(1 << 40) as f64 / 65536.0).to_bits(),
                3 => (rng.below(1 << 60) as f64 * 2f64.powi(rng.below(200) as i32 - 100)).to_bits(),
                4 => *rng.pick(&[0u64, 1, 0x8000000000000000, 0x7ff0000000000000, 0xfff0000000000000, 0x7ff8000000000000, 0x0010000000000000, 0x7fefffffffffffff, 0x3ff0000000000000, 0x4340000000000000]),
                _ => ((rng.below(2_000_000) as f64 - 1_000_000.0) / 1000.0).to_bits(),
            };
            let x = f64::from_bits(bits);
            out.op(&format!("FMT {bits:016x}"), &format!("ok {}", x));
        }
        let st = random_state(rng);
        let json = st.json();
        let op = st.op();
        // the daemon side: the real serde representations read the state and write the document
        let parsed: Result<ObservableState, _> = serde_json::from_str(&json);
        let doc = match parsed {
            Ok(o) => serde_json::to_vec(&o).unwrap(),
            Err(e) => {
                out.oracle("C19", "state-not-representable", &format!("{op} -> {e}"));
                out.op(&op, "unrepresentable");
                continue;
            }
        };
        out.count(&format!("met.doc-size-{}k", doc.len() / 4096 * 4));
        // as the daemon's observer does: one write_all of the whole document, then close
        rig.obs.push(ObsBehaviour::Serve(doc));
        let reply = http::get(rig.exp.port, Duration::from_secs(3));
        let obs = match &reply {
            Reply::Bytes(b) => format!("resp {}", escape_line(b)),
            Reply::Timeout(b) => format!("timeout {}", escape_line(b)),
            Reply::Refused => "refused".to_string(),
        };
        for (sig, detail) in judge(&st, &reply) {
            out.oracle("C19", &sig, &format!("{op} -> {detail}"));
        }
        out.op(&op, &obs);
        if rig.exp.exited().is_some() || !matches!(reply, Reply::Bytes(_)) {
            out.count("met.exporter-restarted");
            rig.stop();
            rig = Rig::start(workdir, &format!("met{i}"));
        }
        // every fourth state also goes the daemon's own way: published into the watch channel of the real observer
        // task, which stamps the program data and writes the document when the exporter connects
        if i % 4 == 0 {
            if live.is_none() {
                live = crate::liveobs::LiveRig::start(workdir, &format!("live{i}"), &st);
                if live.is_none() {
                    out.oracle("C19", "observer-task-does-not-start", &format!("{op} -> statime_linux::observer::spawn did not bring up its socket"));
                }
            }
            if let Some(l) = live.as_mut() {
                match l.scrape(&st) {
                    Some((op2, obs2, findings)) => {
                        out.count("met.through-real-observer");
                        for (sig, detail) in findings {
                            out.oracle("C19", &sig, &format!("{op2} -> (through the daemon's observer task) {detail}"));
                        }
                        let bad = !obs2.starts_with("resp ");
                        out.op(&op2, &obs2);
                        if bad || l.exp.exited().is_some() {
                            out.count("met.live-rig-restarted");
                            if let Some(l) = live.take() {
                                l.stop();
                            }
                        }
                    }
                    None => {
                        out.oracle("C19", "state-not-representable", &format!("{op} -> not accepted by the observer's data types"));
                    }
                }
            }
        }
    }
    rig.stop();
    if let Some(l) = live {
        l.stop();
    }
}
