//! A deliberately plain HTTP client: one request per connection, read until the peer closes.

use std::{
    io::{Read, Write},
    net::TcpStream,
    time::Duration,
};

#[derive(Debug, Clone, PartialEq)]
pub enum Reply {
    /// the complete bytes the server sent before closing
    Bytes(Vec<u8>),
    /// nothing came within the deadline and the connection is still open
    Timeout(Vec<u8>),
    /// could not connect
    Refused,
}

pub fn connect(port: u16) -> Option<TcpStream> {
    let s = TcpStream::connect_timeout(&format!("127.0.0.1:{port}").parse().unwrap(), Duration::from_millis(1000)).ok()?;
    s.set_nodelay(true).ok();
    Some(s)
}

pub fn read_all(s: &mut TcpStream, deadline: Duration) -> Reply {
    let t0 = std::time::Instant::now();
    let mut out = Vec::new();
    let mut buf = [0u8; 65536];
    loop {
        let left = deadline.checked_sub(t0.elapsed()).unwrap_or(Duration::from_millis(1));
        s.set_read_timeout(Some(left.max(Duration::from_millis(1)))).ok();
        match s.read(&mut buf) {
            Ok(0) => return Reply::Bytes(out),
            Ok(n) => out.extend_from_slice(&buf[..n]),
            Err(e) if e.kind() == std::io::ErrorKind::WouldBlock || e.kind() == std::io::ErrorKind::TimedOut => {
                if t0.elapsed() >= deadline {
                    return Reply::Timeout(out);
                }
            }
            Err(_) => return Reply::Bytes(out),
        }
    }
}

pub fn get(port: u16, deadline: Duration) -> Reply {
    let Some(mut s) = connect(port) else { return Reply::Refused };
    if s.write_all(b"GET /metrics HTTP/1.1\r\nHost: localhost\r\nAccept: */*\r\n\r\n").is_err() {
        return Reply::Bytes(vec![]);
    }
    read_all(&mut s, deadline)
}

/// (status code, headers lower-cased, body) of a complete response
pub fn parse(resp: &[u8]) -> Option<(u16, Vec<(String, String)>, Vec<u8>)> {
    let pos = resp.windows(4).position(|w| w == b"\r\n\r\n")?;
    let head = std::str::from_utf8(&resp[..pos]).ok()?;
    let mut lines = head.split("\r\n");
    let status = lines.next()?;
    let mut st = status.split(' ');
    if st.next()? != "HTTP/1.1" {
        return None;
    }
    let code: u16 = st.next()?.parse().ok()?;
    let mut headers = vec![];
    for l in lines {
        let (k, v) = l.split_once(':')?;
        headers.push((k.trim().to_ascii_lowercase(), v.trim().to_string()));
    }
    Some((code, headers, resp[pos + 4..].to_vec()))
}
