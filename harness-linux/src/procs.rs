//! The exporter process under test and the observation socket it reads from.

use std::{
    io::Write,
    os::unix::net::UnixListener,
    path::{Path, PathBuf},
    process::{Child, Command, Stdio},
    sync::{mpsc, Arc, Mutex},
    time::{Duration, Instant},
};

/// what the observation socket does with the next connection
#[derive(Clone, Debug)]
pub enum ObsBehaviour {
    /// write these bytes, close
    Serve(Vec<u8>),
    /// write the bytes in two pieces with a pause in between
    ServeSplit(Vec<u8>, usize),
    /// accept, close without writing
    CloseEarly,
}

pub struct ObsServer {
    pub path: PathBuf,
    queue: Arc<Mutex<std::collections::VecDeque<ObsBehaviour>>>,
    stop: mpsc::Sender<()>,
    pub served: Arc<Mutex<u64>>,
}

impl ObsServer {
    pub fn start(path: &Path) -> ObsServer {
        let _ = std::fs::remove_file(path);
        let listener = UnixListener::bind(path).expect("bind observation socket");
        listener.set_nonblocking(true).unwrap();
        let queue: Arc<Mutex<std::collections::VecDeque<ObsBehaviour>>> = Default::default();
        let served = Arc::new(Mutex::new(0u64));
        let (stop, stop_rx) = mpsc::channel::<()>();
        let q = queue.clone();
        let sv = served.clone();
        std::thread::spawn(move || loop {
            if stop_rx.try_recv().is_ok() {
                return;
            }
            match listener.accept() {
                Ok((mut s, _)) => {
                    s.set_nonblocking(false).ok();
                    let b = q.lock().unwrap().pop_front().unwrap_or(ObsBehaviour::CloseEarly);
                    *sv.lock().unwrap() += 1;
                    match b {
                        ObsBehaviour::Serve(bytes) => {
                            let _ = s.write_all(&bytes);
                        }
                        ObsBehaviour::ServeSplit(bytes, at) => {
                            let at = at.min(bytes.len());
                            let _ = s.write_all(&bytes[..at]);
                            let _ = s.flush();
                            std::thread::sleep(Duration::from_millis(30));
                            let _ = s.write_all(&bytes[at..]);
                        }
                        ObsBehaviour::CloseEarly => {}
                    }
                }
                Err(_) => std::thread::sleep(Duration::from_micros(200)),
            }
        });
        ObsServer { path: path.to_path_buf(), queue, stop, served }
    }
    pub fn push(&self, b: ObsBehaviour) {
        self.queue.lock().unwrap().push_back(b);
    }
    pub fn clear(&self) {
        self.queue.lock().unwrap().clear();
    }
    pub fn stop(self) {
        let _ = self.stop.send(());
        let _ = std::fs::remove_file(&self.path);
    }
}

pub struct Exporter {
    pub child: Child,
    pub port: u16,
    pub pid: u32,
}

fn free_port() -> u16 {
    let l = std::net::TcpListener::bind("127.0.0.1:0").unwrap();
    l.local_addr().unwrap().port()
}

/// the binary built next to this one
pub fn exporter_binary() -> PathBuf {
    let me = std::env::current_exe().unwrap();
    me.parent().unwrap().join("exporter-under-test")
}

impl Exporter {
    pub fn start(workdir: &Path, obs_path: &Path) -> Exporter {
        for _ in 0..20 {
            let port = free_port();
            let cfg = workdir.join(format!("exporter-{port}.toml"));
            std::fs::write(
                &cfg,
                format!(
                    "loglevel = \"error\"\n[[port]]\ninterface = \"lo\"\n\n[observability]\nobservation-path = \"{}\"\nmetrics-exporter-listen = \"127.0.0.1:{}\"\n",
                    obs_path.display(),
                    port
                ),
            )
            .unwrap();
            let child = Command::new(exporter_binary())
                .arg("-c")
                .arg(&cfg)
                .stdout(Stdio::null())
                .stderr(Stdio::null())
                .spawn()
                .expect("spawn exporter-under-test");
            let pid = child.id();
            let mut e = Exporter { child, port, pid };
            // wait until it listens
            let t0 = Instant::now();
            let mut up = false;
            while t0.elapsed() < Duration::from_secs(5) {
                if e.exited().is_some() {
                    break;
                }
                if listening(port) {
                    up = true;
                    break;
                }
                std::thread::sleep(Duration::from_millis(5));
            }
            let _ = std::fs::remove_file(&cfg);
            if up {
                return e;
            }
            e.kill();
        }
        panic!("exporter-under-test does not start");
    }
    pub fn exited(&mut self) -> Option<i32> {
        match self.child.try_wait() {
            Ok(Some(st)) => Some(st.code().unwrap_or(-1)),
            _ => None,
        }
    }
    /// user + system CPU ticks of the process so far
    pub fn cpu_ticks(&self) -> u64 {
        let s = std::fs::read_to_string(format!("/proc/{}/stat", self.pid)).unwrap_or_default();
        // fields after the ")" : state ppid … utime is field 14, stime 15 (1-based, whole line)
        let rest = s.rsplit(')').next().unwrap_or("");
        let f: Vec<&str> = rest.split_whitespace().collect();
        let g = |i: usize| f.get(i).and_then(|x| x.parse::<u64>().ok()).unwrap_or(0);
        g(11) + g(12)
    }
    pub fn kill(&mut self) {
        let _ = self.child.kill();
        let _ = self.child.wait();
    }
}

/// is something in LISTEN state on this port? (does not connect: a connection would be a request)
fn listening(port: u16) -> bool {
    let want = format!(":{:04X}", port);
    let s = std::fs::read_to_string("/proc/net/tcp").unwrap_or_default();
    s.lines().skip(1).any(|l| {
        let f: Vec<&str> = l.split_whitespace().collect();
        f.len() > 3 && f[1].ends_with(&want) && f[3] == "0A"
    })
}
