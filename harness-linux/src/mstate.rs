//! Observable instance states for the metrics stream: a plain description (the source of truth of
//! the scenario), the JSON that the daemon's serde representations read it from, the op line for
//! the model, and — independently of both the exporter and the model — the samples a scraper
//! should see.

use statime_verif_harness::prng::Prng;

#[derive(Clone, Debug)]
pub struct Quality {
    pub class: u8,
    pub acc: u8, // primitive
    pub var: u16,
}

#[derive(Clone, Debug)]
pub enum Mech {
    E2E(i8),
    P2P(i8, i64),
    NoMechanism,
    CommonP2P(i64),
    Special,
}

#[derive(Clone, Debug)]
pub struct PortS {
    pub number: u16,
    pub state: u8, // 1..=9
    pub mech: Mech,
    pub log_announce: i8,
    pub receipt_timeout: u8,
    pub log_sync: i8,
    pub asym: i64,
    pub master_only: bool,
}

#[derive(Clone, Debug)]
pub struct MState {
    pub version: String,
    pub commit: String,
    pub date: String,
    pub uptime: f64,
    pub cid: [u8; 8],
    pub nports: u16,
    pub q: Quality,
    pub p1: u8,
    pub p2: u8,
    pub domain: u8,
    pub slave_only: bool,
    pub sdo: u16,
    pub steps: u16,
    pub offset: i128,
    pub mean_delay: i128,
    pub parent_cid: [u8; 8],
    pub parent_port: u16,
    pub gm: [u8; 8],
    pub gq: Quality,
    pub gp1: u8,
    pub gp2: u8,
    pub utc: Option<i16>,
    pub leap: u8, // 59 / 60 / 61
    pub time_traceable: bool,
    pub freq_traceable: bool,
    pub ptp_timescale: bool,
    pub time_source: u8, // primitive
    pub pt_enable: bool,
    pub path: Vec<[u8; 8]>,
    pub ports: Vec<PortS>,
}

pub fn acc_name(p: u8) -> String {
    const N: [&str; 27] = [
        "PS1", "PS2_5", "PS10", "PS25", "PS100", "PS250", "NS1", "NS2_5", "NS10", "NS25", "NS100", "NS250", "US1", "US2_5", "US10", "US25", "US100", "US250", "MS1", "MS2_5", "MS10", "MS25",
        "MS100", "MS250", "S1", "S10", "SGT10",
    ];
    match p {
        0x17..=0x31 => format!("\"{}\"", N[(p - 0x17) as usize]),
        0x80..=0xfd => format!("{{\"ProfileSpecific\":{}}}", p - 0x80),
        0xfe => "\"Unknown\"".into(),
        _ => "\"Reserved\"".into(),
    }
}

/// primitive the exporter must show for an accuracy that was built from primitive `p`
pub fn acc_shown(p: u8) -> u8 {
    match p {
        0x17..=0x31 | 0x80..=0xfe => p,
        _ => 0,
    }
}

pub fn ts_name(p: u8) -> String {
    match p {
        0x10 => "\"AtomicClock\"".into(),
        0x20 => "\"Gnss\"".into(),
        0x30 => "\"TerrestrialRadio\"".into(),
        0x39 => "\"SerialTimeCode\"".into(),
        0x40 => "\"Ptp\"".into(),
        0x50 => "\"Ntp\"".into(),
        0x60 => "\"HandSet\"".into(),
        0x90 => "\"Other\"".into(),
        0xa0 => "\"InternalOscillator\"".into(),
        0xf0..=0xfe => format!("{{\"ProfileSpecific\":{}}}", p - 0xf0),
        0xff => "\"Reserved\"".into(),
        v => format!("{{\"Unknown\":{v}}}"),
    }
}

pub fn state_name(s: u8) -> &'static str {
    ["", "Initializing", "Faulty", "Disabled", "Listening", "PreMaster", "Master", "Passive", "Uncalibrated", "Slave"][s as usize]
}

fn arr(b: &[u8; 8]) -> String {
    format!("[{}]", b.iter().map(|x| x.to_string()).collect::<Vec<_>>().join(","))
}

fn jstr(s: &str) -> String {
    serde_json::to_string(s).unwrap()
}

impl Quality {
    fn json(&self) -> String {
        format!("{{\"clock_class\":{},\"clock_accuracy\":{},\"offset_scaled_log_variance\":{}}}", self.class, acc_name(self.acc), self.var)
    }
}

impl MState {
    /// the JSON document, written by hand from the plain description
    pub fn json(&self) -> String {
        let ports: Vec<String> = self
            .ports
            .iter()
            .map(|p| {
                let mech = match &p.mech {
                    Mech::E2E(i) => format!("{{\"E2E\":{{\"log_min_delay_req_interval\":{i}}}}}"),
                    Mech::P2P(i, d) => format!("{{\"P2P\":{{\"log_min_p_delay_req_interval\":{i},\"mean_link_delay\":{d}}}}}"),
                    Mech::NoMechanism => "\"NoMechanism\"".into(),
                    Mech::CommonP2P(d) => format!("{{\"CommonP2P\":{{\"mean_link_delay\":{d}}}}}"),
                    Mech::Special => "\"Special\"".into(),
                };
                format!(
                    "{{\"port_identity\":{{\"clock_identity\":{},\"port_number\":{}}},\"port_state\":\"{}\",\"log_announce_interval\":{},\"announce_receipt_timeout\":{},\"log_sync_interval\":{},\"delay_mechanism\":{},\"version_number\":2,\"minor_version_number\":1,\"delay_asymmetry\":{},\"master_only\":{}}}",
                    arr(&self.cid),
                    p.number,
                    state_name(p.state),
                    p.log_announce,
                    p.receipt_timeout,
                    p.log_sync,
                    mech,
                    p.asym,
                    p.master_only
                )
            })
            .collect();
        let leap = match self.leap {
            59 => "Leap59",
            61 => "Leap61",
            _ => "NoLeap",
        };
        format!(
            "{{\"program\":{{\"version\":{},\"build_commit\":{},\"build_commit_date\":{},\"uptime_seconds\":{}}},\"instance\":{{\"default_ds\":{{\"clock_identity\":{},\"number_ports\":{},\"clock_quality\":{},\"priority_1\":{},\"priority_2\":{},\"domain_number\":{},\"slave_only\":{},\"sdo_id\":{}}},\"current_ds\":{{\"steps_removed\":{},\"offset_from_master\":{},\"mean_delay\":{}}},\"parent_ds\":{{\"parent_port_identity\":{{\"clock_identity\":{},\"port_number\":{}}},\"grandmaster_identity\":{},\"grandmaster_clock_quality\":{},\"grandmaster_priority_1\":{},\"grandmaster_priority_2\":{}}},\"time_properties_ds\":{{\"current_utc_offset\":{},\"leap_indicator\":\"{}\",\"time_traceable\":{},\"frequency_traceable\":{},\"ptp_timescale\":{},\"time_source\":{}}},\"path_trace_ds\":{{\"list\":[{}],\"enable\":{}}},\"port_ds\":[{}]}}}}",
            jstr(&self.version),
            jstr(&self.commit),
            jstr(&self.date),
            serde_json::to_string(&self.uptime).unwrap(),
            arr(&self.cid),
            self.nports,
            self.q.json(),
            self.p1,
            self.p2,
            self.domain,
            self.slave_only,
            self.sdo,
            self.steps,
            self.offset,
            self.mean_delay,
            arr(&self.parent_cid),
            self.parent_port,
            arr(&self.gm),
            self.gq.json(),
            self.gp1,
            self.gp2,
            self.utc.map(|x| x.to_string()).unwrap_or("null".into()),
            leap,
            self.time_traceable,
            self.freq_traceable,
            self.ptp_timescale,
            ts_name(self.time_source),
            self.path.iter().map(arr).collect::<Vec<_>>().join(","),
            self.pt_enable,
            ports.join(",")
        )
    }

    /// `MET …` op line for the model
    pub fn op(&self) -> String {
        fn hx(b: &[u8]) -> String {
            if b.is_empty() {
                "-".into()
            } else {
                b.iter().map(|x| format!("{x:02x}")).collect()
            }
        }
        let ports: Vec<String> = self
            .ports
            .iter()
            .map(|p| {
                let (m, d) = match &p.mech {
                    Mech::E2E(_) => (1, None),
                    Mech::P2P(_, d) => (2, Some(*d)),
                    Mech::NoMechanism => (254, None),
                    Mech::CommonP2P(d) => (3, Some(*d)),
                    Mech::Special => (4, None),
                };
                format!("{}:{}:{}:{}", p.number, p.state, m, d.map(|x| x.to_string()).unwrap_or("-".into()))
            })
            .collect();
        let path: Vec<u8> = self.path.iter().flat_map(|x| x.iter().copied()).collect();
        format!(
            "MET ver={} commit={} date={} up={:016x} cid={} nports={} class={} acc={} var={} p1={} p2={} steps={} off={} md={} pcid={} ppn={} gclass={} gacc={} gvar={} gp1={} gp2={} utc={} leap={} tt={} ft={} ptp={} ts={} pte={} path={} ports={}",
            hx(self.version.as_bytes()),
            hx(self.commit.as_bytes()),
            hx(self.date.as_bytes()),
            self.uptime.to_bits(),
            hx(&self.cid),
            self.nports,
            self.q.class,
            acc_shown(self.q.acc),
            self.q.var,
            self.p1,
            self.p2,
            self.steps,
            self.offset,
            self.mean_delay,
            hx(&self.parent_cid),
            self.parent_port,
            self.gq.class,
            acc_shown(self.gq.acc),
            self.gq.var,
            self.gp1,
            self.gp2,
            self.utc.map(|x| x.to_string()).unwrap_or("-".into()),
            self.leap,
            self.time_traceable as u8,
            self.freq_traceable as u8,
            self.ptp_timescale as u8,
            self.time_source,
            self.pt_enable as u8,
            hx(&path),
            if ports.is_empty() { "-".to_string() } else { ports.join(",") }
        )
    }
}

fn cid_str(b: &[u8; 8]) -> String {
    b.iter().map(|x| format!("{x:02x}")).collect::<Vec<_>>().join(":")
}

/// a sample a scraper should see: metric name, labels, value
#[derive(Clone, Debug, PartialEq)]
pub struct Sample {
    pub name: String,
    pub labels: Vec<(String, String)>,
    pub value: f64,
}

impl MState {
    /// what the property prescribes, written down independently: every metric under the meaning its help
    /// text and its unit suffix state, booleans as 1 for true
    pub fn expected(&self) -> Vec<Sample> {
        let base = vec![("clock_identity".to_string(), cid_str(&self.cid))];
        let mut out = vec![];
        let mut push = |name: &str, labels: &Vec<(String, String)>, v: f64| out.push(Sample { name: name.into(), labels: labels.clone(), value: v });
        push(
            "statime_uptime_seconds",
            &vec![("version".into(), self.version.clone()), ("build_commit".into(), self.commit.clone()), ("build_commit_date".into(), self.date.clone())],
            self.uptime,
        );
        push("statime_number_ports", &base, self.nports as f64);
        push("statime_quality_class", &base, self.q.class as f64);
        push("statime_quality_accuracy", &base, acc_shown(self.q.acc) as f64);
        push("statime_quality_offset_scaled_log_variance", &base, self.q.var as f64);
        push("statime_priority_1", &base, self.p1 as f64);
        push("statime_priority_2", &base, self.p2 as f64);
        push("statime_steps_removed", &base, self.steps as f64);
        // nanoseconds: the I96F32 bit pattern is nanoseconds * 2^32
        push("statime_offset_from_master_nanoseconds", &base, self.offset as f64 / 4294967296.0);
        push("statime_mean_delay_nanoseconds", &base, self.mean_delay as f64 / 4294967296.0);
        let mut pl = base.clone();
        pl.push(("parent_clock_identity".into(), cid_str(&self.parent_cid)));
        pl.push(("parent_port_number".into(), self.parent_port.to_string()));
        push("statime_grandmaster_clock_quality_class", &pl, self.gq.class as f64);
        push("statime_grandmaster_clock_quality_accuracy", &pl, acc_shown(self.gq.acc) as f64);
        push("statime_grandmaster_clock_quality_offset_scaled_log_variance", &pl, self.gq.var as f64);
        push("statime_grandmaster_priority_1", &pl, self.gp1 as f64);
        push("statime_grandmaster_priority_2", &pl, self.gp2 as f64);
        if let Some(u) = self.utc {
            push("statime_current_utc_offset_seconds", &base, u as f64);
        }
        push("statime_upcoming_leap_seconds", &base, self.leap as f64);
        push("statime_time_traceable", &base, self.time_traceable as u8 as f64);
        push("statime_frequency_traceable", &base, self.freq_traceable as u8 as f64);
        push("statime_ptp_timescale", &base, self.ptp_timescale as u8 as f64);
        push("statime_time_source", &base, self.time_source as f64);
        push("statime_path_trace_enable", &base, self.pt_enable as u8 as f64);
        for (i, c) in self.path.iter().enumerate() {
            let mut l = base.clone();
            l.push(("node".into(), cid_str(c)));
            push("statime_path_trace_list", &l, i as f64);
        }
        let mut l = base.clone();
        l.push(("node".into(), "self".into()));
        push("statime_path_trace_list", &l, self.path.len() as f64);
        for p in &self.ports {
            let mut l = base.clone();
            l.push(("port".into(), p.number.to_string()));
            push("statime_port_state", &l, p.state as f64);
        }
        for p in &self.ports {
            if let Mech::P2P(_, d) = &p.mech {
                let mut l = base.clone();
                l.push(("port".into(), p.number.to_string()));
                // I48F16: nanoseconds * 2^16
                push("statime_mean_link_delay_nanoseconds", &l, *d as f64 / 65536.0);
            }
        }
        out
    }
}

fn rcid(rng: &Prng) -> [u8; 8] {
    let mut b = [0u8; 8];
    match rng.below(4) {
        0 => b = [0x00, 0x11, 0x22, 0xff, 0xfe, 0x33, 0x44, 0x55],
        1 => b = [0xff; 8],
        2 => {}
        _ => {
            for x in b.iter_mut() {
                *x = rng.next_u64() as u8;
            }
        }
    }
    b
}

fn rquality(rng: &Prng) -> Quality {
    Quality {
        class: *rng.pick(&[6u8, 7, 13, 52, 127, 128, 135, 187, 248, 255, 0]),
        acc: match rng.below(5) {
            0 => 0xfe,
            1 => 0x17 + rng.below(27) as u8,
            2 => 0x80 + rng.below(0x7e) as u8,
            3 => 0x00,
            _ => 0x21,
        },
        var: *rng.pick(&[0u16, 0x4e5d, 0xffff, 1, 0x8000]),
    }
}

fn rstring(rng: &Prng, base: &str) -> String {
    match rng.below(6) {
        0 => String::new(),
        1 => format!("{base}\"quoted\""),
        2 => format!("{base}\\back\\slash"),
        3 => format!("{base}\nnew line"),
        4 => format!("{base} ünïcode {{braces}} a=b,c"),
        _ => base.to_string(),
    }
}

/// offsets and delays from 0 to ±10 s, incl. values whose fixed-point bits exceed 64 bits
fn rdur(rng: &Prng) -> i128 {
    const NS: i128 = 1 << 32;
    let v: i128 = match rng.below(9) {
        0 => 0,
        1 => NS,
        2 => 1_000 * NS + 12345,
        3 => 10_000_000_000 * NS,
        4 => (1i128 << 63) - 1,
        5 => 1i128 << 63,
        6 => (1i128 << 64) + 1,
        7 => (rng.log_u128(66) as i128) % (10_000_000_001 * NS),
        _ => rng.below(2_000_000) as i128 * NS + rng.below(1 << 32) as i128,
    };
    if rng.chance(1, 2) {
        -v
    } else {
        v
    }
}

fn rtiv(rng: &Prng) -> i64 {
    match rng.below(6) {
        0 => 0,
        1 => 65536,
        2 => 1234 * 65536 + 1,
        3 => i64::MAX,
        4 => -(rng.below(1 << 40) as i64),
        _ => rng.below(1 << 50) as i64,
    }
}

pub fn random_state(rng: &Prng) -> MState {
    let nports = *rng.pick(&[1usize, 1, 2, 3, 8, 16, 48, 64]);
    let role = rng.below(3); // grandmaster / slave / boundary
    let cid = rcid(rng);
    let path_len = *rng.pick(&[0usize, 0, 1, 2, 5, 127, 128]);
    let ports = (0..nports)
        .map(|i| PortS {
            number: (i + 1) as u16,
            state: if role == 0 { *rng.pick(&[6u8, 4, 1]) } else if i == 0 && role >= 1 { 9 } else { 1 + rng.below(9) as u8 },
            mech: match rng.below(6) {
                0 | 1 => Mech::E2E(rng.below(8) as i8 - 4),
                2 | 3 => Mech::P2P(rng.below(8) as i8 - 4, rtiv(rng)),
                4 => Mech::CommonP2P(rtiv(rng)),
                _ => {
                    if rng.chance(1, 2) {
                        Mech::NoMechanism
                    } else {
                        Mech::Special
                    }
                }
            },
            log_announce: rng.below(8) as i8 - 3,
            receipt_timeout: 2 + rng.below(8) as u8,
            log_sync: rng.below(8) as i8 - 4,
            asym: if rng.chance(1, 4) { rtiv(rng) } else { 0 },
            master_only: rng.chance(1, 5),
        })
        .collect();
    MState {
        version: rstring(rng, "0.4.0"),
        commit: rstring(rng, "59807616e0f1a2b3c4d5e6f708192a3b4c5d6e7f"),
        date: rstring(rng, "2024-05-23"),
        // `Instant::elapsed().as_secs_f64()`: whole seconds plus nanoseconds / 10^9
        uptime: match rng.below(6) {
            0 => 0.0,
            1 => std::time::Duration::new(0, 1).as_secs_f64(),
            2 => std::time::Duration::new(86400 * 365, 999_999_999).as_secs_f64(),
            3 => std::time::Duration::new(0, 100_000_000).as_secs_f64(),
            4 => std::time::Duration::new(rng.below(400_000_000), rng.below(1_000_000_000) as u32).as_secs_f64(),
            _ => std::time::Duration::new(rng.below(100_000), rng.below(1_000_000_000) as u32).as_secs_f64(),
        },
        cid,
        nports: nports as u16,
        q: rquality(rng),
        p1: rng.next_u64() as u8,
        p2: rng.next_u64() as u8,
        domain: rng.next_u64() as u8,
        slave_only: role == 1 && rng.chance(1, 2),
        sdo: rng.below(4096) as u16,
        steps: if role == 0 { 0 } else { *rng.pick(&[1u16, 2, 5, 254, 255, 65535]) },
        offset: if role == 0 { 0 } else { rdur(rng) },
        mean_delay: if role == 0 { 0 } else { rdur(rng) },
        parent_cid: if role == 0 { cid } else { rcid(rng) },
        parent_port: if role == 0 { 0 } else { *rng.pick(&[1u16, 2, 65535, 0]) },
        gm: rcid(rng),
        gq: rquality(rng),
        gp1: rng.next_u64() as u8,
        gp2: rng.next_u64() as u8,
        utc: *rng.pick(&[None, Some(37), Some(0), Some(-1), Some(i16::MAX), Some(i16::MIN)]),
        leap: *rng.pick(&[60u8, 60, 59, 61]),
        time_traceable: rng.chance(1, 2),
        freq_traceable: rng.chance(1, 2),
        ptp_timescale: rng.chance(1, 2),
        time_source: *rng.pick(&[0x10u8, 0x20, 0x30, 0x39, 0x40, 0x50, 0x60, 0x90, 0xa0, 0xf0, 0xfe, 0xff, 0x00, 0x7a]),
        pt_enable: rng.chance(1, 2),
        path: {
            // a path trace never holds the same clock twice (an Announce that loops back is discarded)
            let mut seen = std::collections::HashSet::new();
            let mut v = vec![];
            while v.len() < path_len {
                let mut c = rcid(rng);
                if !seen.insert(c) {
                    for x in c.iter_mut() {
                        *x = rng.next_u64() as u8;
                    }
                    if !seen.insert(c) {
                        continue;
                    }
                }
                v.push(c);
            }
            v
        },
        ports,
    }
}

impl MState {
    /// the state an op line describes (fields that no metric shows take fixed values)
    pub fn from_op(line: &str) -> Option<MState> {
        let kv: std::collections::HashMap<&str, &str> = line.split_whitespace().filter_map(|w| w.split_once('=')).collect();
        let hexb = |k: &str| -> Option<Vec<u8>> {
            let v = *kv.get(k)?;
            if v == "-" {
                return Some(vec![]);
            }
            (0..v.len() / 2).map(|i| u8::from_str_radix(&v[2 * i..2 * i + 2], 16).ok()).collect()
        };
        let s = |k: &str| -> Option<String> { String::from_utf8(hexb(k)?).ok() };
        let n = |k: &str| -> Option<u64> { kv.get(k)?.parse().ok() };
        let cid = |k: &str| -> Option<[u8; 8]> { hexb(k)?.try_into().ok() };
        let q = |c: &str, a: &str, v: &str| -> Option<Quality> { Some(Quality { class: n(c)? as u8, acc: n(a)? as u8, var: n(v)? as u16 }) };
        let ports = match *kv.get("ports")? {
            "-" => vec![],
            p => p
                .split(',')
                .map(|x| {
                    let f: Vec<&str> = x.split(':').collect();
                    let d = f.get(3).and_then(|d| d.parse::<i64>().ok());
                    Some(PortS {
                        number: f.first()?.parse().ok()?,
                        state: f.get(1)?.parse().ok()?,
                        mech: match f.get(2)?.parse::<u8>().ok()? {
                            1 => Mech::E2E(0),
                            2 => Mech::P2P(0, d?),
                            3 => Mech::CommonP2P(d?),
                            4 => Mech::Special,
                            _ => Mech::NoMechanism,
                        },
                        log_announce: 1,
                        receipt_timeout: 3,
                        log_sync: 0,
                        asym: 0,
                        master_only: false,
                    })
                })
                .collect::<Option<Vec<_>>>()?,
        };
        Some(MState {
            version: s("ver")?,
            commit: s("commit")?,
            date: s("date")?,
            uptime: f64::from_bits(u64::from_str_radix(kv.get("up")?, 16).ok()?),
            cid: cid("cid")?,
            nports: n("nports")? as u16,
            q: q("class", "acc", "var")?,
            p1: n("p1")? as u8,
            p2: n("p2")? as u8,
            domain: 0,
            slave_only: false,
            sdo: 0,
            steps: n("steps")? as u16,
            offset: kv.get("off")?.parse().ok()?,
            mean_delay: kv.get("md")?.parse().ok()?,
            parent_cid: cid("pcid")?,
            parent_port: n("ppn")? as u16,
            gm: cid("cid")?,
            gq: q("gclass", "gacc", "gvar")?,
            gp1: n("gp1")? as u8,
            gp2: n("gp2")? as u8,
            utc: match *kv.get("utc")? {
                "-" => None,
                u => Some(u.parse().ok()?),
            },
            leap: n("leap")? as u8,
            time_traceable: n("tt")? == 1,
            freq_traceable: n("ft")? == 1,
            ptp_timescale: n("ptp")? == 1,
            time_source: n("ts")? as u8,
            pt_enable: n("pte")? == 1,
            path: hexb("path")?.chunks(8).map(|c| c.try_into().unwrap()).collect(),
            ports,
        })
    }
}
