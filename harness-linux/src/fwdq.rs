//! C15, daemon side: the real `statime_linux::tlvforwarder::TlvForwarder` (tokio broadcast channel, capacity
//! 128, one forwarder per port task) driven by op lines; the Lean model (`Model/Forwarder.lean`) reads the same
//! lines. The rule by which a port task clears its forwarder when the BMCA hands the port back lives in
//! `statime-linux/src/main.rs` (`port_task`, `ethernet_port_task`), which cannot be run without sockets: the
//! generator reads that rule from the source text (as the translator does for the model) and the executor applies
//! it to the real forwarder.
//!
//! Ops:  FWD new | FWD dup <i> | FWD fwd <size> <tag> | FWD next <i> <max> | FWD empty <i>
//!       | FWD bmca <i> <never|when-master|when-not-master|always> <0|1>
use std::collections::{HashMap, VecDeque};

use statime::port::{ForwardedTLV, ForwardedTLVProvider};
use statime_linux::tlvforwarder::TlvForwarder;
use statime_verif_harness::{out::Out, prng::Prng, streams::inst::fwd_from_text};

const MAIN_RS: &str = include_str!("/repo/statime-linux/src/main.rs");

/// the clearing rule of one port task, read from main.rs (independent of translator/extract.py)
pub fn policy_of(task: &str) -> String {
    let Some(start) = MAIN_RS.find(&format!("async fn {task}<")).or_else(|| MAIN_RS.find(&format!("async fn {task}("))) else {
        return "unknown".into();
    };
    let rest = &MAIN_RS[start + 9..];
    let end = rest.find("\nasync fn ").or_else(|| rest.find("\nfn ")).unwrap_or(rest.len());
    let body: String = rest[..end].lines().filter(|l| !l.trim_start().starts_with("//")).collect::<Vec<_>>().join(" ");
    let squeezed: String = body.split_whitespace().collect::<Vec<_>>().join(" ");
    let n = squeezed.matches("tlv_forwarder.empty()").count();
    if n == 0 {
        return "never".into();
    }
    if n > 1 {
        return "unknown".into();
    }
    if squeezed.contains("if !port_in_bmca.is_master() { tlv_forwarder.empty()") {
        "when-not-master".into()
    } else if squeezed.contains("if port_in_bmca.is_master() { tlv_forwarder.empty()") {
        "when-master".into()
    } else if squeezed.contains(".recv().await.unwrap(); tlv_forwarder.empty()") {
        "always".into()
    } else {
        "unknown".into()
    }
}

fn clears(policy: &str, master: bool) -> Option<bool> {
    match policy {
        "never" => Some(false),
        "when-master" => Some(master),
        "when-not-master" => Some(!master),
        "always" => Some(true),
        _ => None,
    }
}

fn make(size: usize, tag: u32) -> Option<ForwardedTLV<'static>> {
    // wire size = 4 + value length; the value starts with the tag
    if size < 8 || size % 2 != 0 {
        return None;
    }
    let mut value = vec![0u8; size - 4];
    value[..4].copy_from_slice(&tag.to_be_bytes());
    for (k, b) in value.iter_mut().enumerate().skip(4) {
        *b = (tag as usize + k) as u8;
    }
    fwd_from_text(&format!("2000000000000001:1:16384:{}", statime_verif_harness::out::hex(&value)))
}

fn tag_of(t: &ForwardedTLV<'_>) -> Option<u32> {
    let d = format!("{t:?}");
    let i = d.find("value:")?;
    let rest = &d[i..];
    let a = rest.find('[')?;
    let b = rest.find(']')?;
    let v: Vec<u8> = rest[a + 1..b].split(',').filter_map(|x| x.trim().parse::<u8>().ok()).collect();
    if v.len() < 4 {
        return None;
    }
    Some(u32::from_be_bytes([v[0], v[1], v[2], v[3]]))
}

#[derive(Default)]
pub struct FwdExec {
    fwds: Vec<TlvForwarder>,
    pub sent: HashMap<u32, String>,
    pub last_delivered: Option<(usize, u32, String)>,
}

impl FwdExec {
    pub fn exec(&mut self, line: &str) -> String {
        let w: Vec<&str> = line.split_whitespace().collect();
        self.last_delivered = None;
        if w.first() != Some(&"FWD") {
            return "bad-op".into();
        }
        let idx = |s: &str, n: usize| s.parse::<usize>().ok().filter(|i| *i < n);
        match &w[1..] {
            ["new"] => {
                self.fwds = vec![TlvForwarder::new()];
                self.sent.clear();
                "ok".into()
            }
            ["dup", i] => match idx(i, self.fwds.len()) {
                Some(i) => {
                    let d = self.fwds[i].duplicate();
                    self.fwds.push(d);
                    format!("ok {}", self.fwds.len() - 1)
                }
                None => "bad-op".into(),
            },
            ["fwd", size, tag] => {
                let (Ok(size), Ok(tag)) = (size.parse::<usize>(), tag.parse::<u32>()) else { return "bad-op".into() };
                let Some(t) = make(size, tag) else { return "bad-op".into() };
                if t.size() != size || self.fwds.is_empty() {
                    return "bad-op".into();
                }
                self.sent.insert(tag, format!("{t:?}"));
                // any port task may be the one that forwards
                let via = tag as usize % self.fwds.len();
                self.fwds[via].forward(t);
                "ok".into()
            }
            ["next", i, max] => {
                let (Some(i), Ok(max)) = (idx(i, self.fwds.len()), max.parse::<usize>()) else { return "bad-op".into() };
                match self.fwds[i].next_if_smaller(max) {
                    Some(t) => {
                        let tag = tag_of(&t).unwrap_or(u32::MAX);
                        self.last_delivered = Some((t.size(), tag, format!("{t:?}")));
                        format!("some {} {}", t.size(), tag)
                    }
                    None => "none".into(),
                }
            }
            ["empty", i] => match idx(i, self.fwds.len()) {
                Some(i) => {
                    self.fwds[i].empty();
                    "ok".into()
                }
                None => "bad-op".into(),
            },
            ["bmca", i, pol, m] => {
                let (Some(i), Some(c)) = (idx(i, self.fwds.len()), clears(pol, *m != "0")) else { return "bad-op".into() };
                if c {
                    self.fwds[i].empty();
                }
                "ok".into()
            }
            _ => "bad-op".into(),
        }
    }
}

/// what the oracle knows about one forwarder without any model of the channel: the tags sent since it was created
/// and not yet handed out; `exact` is dropped when more than 100 are outstanding (lag is near) or after `empty`
struct Track {
    queue: VecDeque<(u32, usize)>,
    exact: bool,
    last_index: Option<u64>,
}

pub fn generate(out: &mut Out, rng: &Prng, thorough: bool) {
    let scenarios = if thorough { 3000 } else { 300 };
    let pol_udp = policy_of("port_task");
    let pol_eth = policy_of("ethernet_port_task");
    out.count(&format!("fwdq.policy.udp.{pol_udp}"));
    out.count(&format!("fwdq.policy.eth.{pol_eth}"));
    let mut ex = FwdExec::default();
    let mut next_tag: u32 = 1;
    for sc in 0..scenarios {
        let mut emit = |out: &mut Out, ex: &mut FwdExec, line: String| -> String {
            let obs = ex.exec(&line);
            out.op(&line, &obs);
            obs
        };
        emit(out, &mut ex, "FWD new".into());
        let nports = 1 + rng.below(3) as usize;
        let eth = rng.chance(1, 2);
        let pol = if eth { pol_eth.clone() } else { pol_udp.clone() };
        let mut tracks: Vec<Track> = vec![Track { queue: VecDeque::new(), exact: false, last_index: None }]; // forwarder 0: main's own, never read
        for _ in 0..nports {
            emit(out, &mut ex, "FWD dup 0".into());
            tracks.push(Track { queue: VecDeque::new(), exact: true, last_index: None });
        }
        let mut send_index: HashMap<u32, u64> = HashMap::new();
        let mut n_sent: u64 = 0;
        let heavy = sc % 7 == 3; // lag / overflow scenarios
        let steps = 20 + rng.below(if heavy { 60 } else { 40 });
        for _ in 0..steps {
            let r = rng.below(100);
            if r < 40 {
                // one Announce's worth of TLVs (or a burst that overflows the channel)
                let burst = if heavy && rng.chance(1, 5) { 100 + rng.below(200) } else { 1 + rng.below(4) };
                for _ in 0..burst {
                    let size = *rng.pick(&[8usize, 8, 10, 12, 20, 64, 100, 400, 956, 958, 960, 1100]);
                    let tag = next_tag;
                    next_tag += 1;
                    let line = format!("FWD fwd {size} {tag}");
                    emit(out, &mut ex, line);
                    send_index.insert(tag, n_sent);
                    n_sent += 1;
                    for t in tracks.iter_mut() {
                        t.queue.push_back((tag, size));
                        if t.queue.len() > 100 {
                            t.exact = false;
                        }
                    }
                    out.count("fwdq.forward");
                }
            } else if r < 80 {
                // an announce timer on port i: take what fits, shrinking room
                let i = 1 + rng.below(nports as u64) as usize;
                let mut room = *rng.pick(&[960usize, 960, 500, 100, 20, 8, 4, 2000]);
                for _ in 0..6 {
                    let line = format!("FWD next {i} {room}");
                    let obs = emit(out, &mut ex, line.clone());
                    out.count("fwdq.next");
                    let tr = &mut tracks[i];
                    if let Some((size, tag, dbg)) = ex.last_delivered.clone() {
                        out.count("fwdq.delivered");
                        if size > room {
                            out.oracle("C15", "forwarder-hands-out-too-large", &format!("{line} -> {obs}: larger than the {room} octets asked for"));
                        }
                        match ex.sent.get(&tag) {
                            Some(s) if *s == dbg => {}
                            _ => out.oracle("C15", "forwarder-modified-tlv", &format!("{line} -> {obs}: not one of the TLVs forwarded, or altered")),
                        }
                        let ix = send_index.get(&tag).copied();
                        if let (Some(ix), Some(last)) = (ix, tr.last_index) {
                            if ix <= last {
                                out.oracle("C15", "forwarder-out-of-order-or-twice", &format!("{line} -> {obs}: handed to port {i} after a TLV that was forwarded later (or a second time)"));
                            }
                        }
                        tr.last_index = ix.or(tr.last_index);
                        if tr.exact {
                            match tr.queue.front() {
                                Some(&(t0, _)) if t0 == tag => {}
                                other => out.oracle("C15", "forwarder-skipped-tlv", &format!("{line} -> {obs}: the oldest TLV waiting for port {i} was {other:?}")),
                            }
                        }
                        while let Some(&(t0, _)) = tr.queue.front() {
                            tr.queue.pop_front();
                            if t0 == tag {
                                break;
                            }
                        }
                        room = room.saturating_sub(size);
                    } else {
                        if tr.exact {
                            if let Some(&(t0, s0)) = tr.queue.front() {
                                if s0 <= room {
                                    out.oracle("C15", "forwarder-withholds-fitting-tlv", &format!("{line} -> none although TLV {t0} ({s0} octets) is the oldest waiting for port {i} and fits"));
                                }
                            }
                        }
                        break;
                    }
                }
            } else if r < 95 {
                // the BMCA hands port i back to its task
                let i = 1 + rng.below(nports as u64) as usize;
                let master = rng.chance(2, 3);
                let line = format!("FWD bmca {i} {pol} {}", master as u8);
                emit(out, &mut ex, line.clone());
                out.count("fwdq.bmca");
                let tr = &mut tracks[i];
                if master {
                    // a Master port keeps what is queued for its next Announce
                    if tr.exact {
                        if let Some(&(t0, s0)) = tr.queue.front() {
                            let probe = format!("FWD next {i} 65535");
                            let obs = emit(out, &mut ex, probe.clone());
                            out.count("fwdq.bmca-master-probe");
                            match ex.last_delivered.clone() {
                                Some((_, tag, _)) if tag == t0 => {
                                    tr.queue.pop_front();
                                    tr.last_index = send_index.get(&tag).copied().or(tr.last_index);
                                }
                                _ => {
                                    out.oracle("C15", "queued-tlv-dropped-at-bmca-on-master-port", &format!("{probe} -> {obs}: TLV {t0} ({s0} octets) was waiting for Master port {i} ({} port task, clearing rule `{pol}`) when the BMCA handed the port back; it is gone", if eth { "ethernet" } else { "UDP" }));
                                    tr.exact = false;
                                }
                            }
                        }
                    }
                } else if clears(&pol, false) == Some(true) {
                    tr.queue.clear();
                    tr.exact = true; // emptied: known state again
                } else {
                    // not cleared: whatever was queued stays (the port filters by sender when it becomes Master)
                }
            } else {
                let i = 1 + rng.below(nports as u64) as usize;
                emit(out, &mut ex, format!("FWD empty {i}"));
                tracks[i].queue.clear();
                tracks[i].exact = true;
                out.count("fwdq.empty");
            }
        }
        out.count("fwdq.scenarios");
    }
}

pub fn replay(path: &std::path::Path) {
    let mut ex = FwdExec::default();
    for line in std::fs::read_to_string(path).unwrap().lines() {
        if line.starts_with('#') || line.trim().is_empty() {
            continue;
        }
        println!("{}", ex.exec(line));
    }
}
