//! C20 stream: can clients or the observation socket wedge the exporter?
//!
//! One exporter process per scenario. Ops:
//!   EXP new
//!   EXP c <client> <obs>     one connection with the given client behaviour, the observation socket set up as <obs>
//!   EXP final                a well-formed request with a valid observation document: must get its 200 in time
//!
//! client: get | split:<n> | cut:<n> | long:<n> | verb:<VERB> | reset:<n> | getreset | idle
//!   get       a complete GET in one write, reads the response
//!   split:n   the GET in two writes (n octets, pause, the rest), reads the response
//!   cut:n     the first n octets of a GET, then an orderly close
//!   long:n    n octets without an end of headers, then reads until the server closes (or a deadline), then closes
//!   verb:V    a complete request with verb V, reads the response
//!   reset:n   the first n octets of a GET, then a reset (RST)
//!   getreset  a complete GET, then a reset without reading the response
//!   idle      connects, sends nothing, closes after a pause
//! obs: valid | validesc | invalid | truncated | closeearly | refused | absent
//!
//! Observation: what the client saw (`200` / `500` / `closed` = connection closed without a response / `timeout` /
//! `-` for clients that do not read), then `alive` or `exited:<code>`, and `spin` if the process burns CPU while idle.

use std::{
    io::Write,
    path::Path,
    time::{Duration, Instant},
};

use statime_linux::metrics::exporter::ObservableState;
use statime_verif_harness::{out::Out, prng::Prng};

use crate::{
    http::{self, Reply},
    metrics::Rig,
    mstate::random_state,
    procs::ObsBehaviour,
};

const GET: &[u8] = b"GET /metrics HTTP/1.1\r\nHost: localhost\r\nAccept: */*\r\n\r\n";
const DEADLINE: Duration = Duration::from_millis(1500);

pub struct WedgeExec {
    pub rig: Option<Rig>,
    pub doc: Vec<u8>,
    pub n: u64,
}

fn classify(r: &Reply) -> String {
    match r {
        Reply::Bytes(b) if b.is_empty() => "closed".into(),
        Reply::Bytes(b) => match http::parse(b) {
            Some((code, headers, body)) => {
                let cl = headers.iter().find(|h| h.0 == "content-length").and_then(|h| h.1.parse::<usize>().ok());
                if cl == Some(body.len()) {
                    format!("{code}")
                } else {
                    format!("{code}-bad-length")
                }
            }
            None => "garbage".into(),
        },
        Reply::Timeout(_) => "timeout".into(),
        Reply::Refused => "refused".into(),
    }
}

fn reset(s: std::net::TcpStream) {
    use std::os::fd::AsRawFd;
    let l = libc::linger { l_onoff: 1, l_linger: 0 };
    unsafe {
        libc::setsockopt(s.as_raw_fd(), libc::SOL_SOCKET, libc::SO_LINGER, &l as *const _ as *const libc::c_void, std::mem::size_of::<libc::linger>() as u32);
    }
    drop(s);
}

impl WedgeExec {
    pub fn new(doc: Vec<u8>) -> WedgeExec {
        WedgeExec { rig: None, doc, n: 0 }
    }

    fn set_obs(&mut self, obs: &str) -> bool {
        let rig = self.rig.as_mut().unwrap();
        rig.obs.clear();
        match obs {
            "valid" => rig.obs.push(ObsBehaviour::Serve(self.doc.clone())),
            "validesc" => {
                // a valid document whose strings need escaping in a label (line break, quote, backslash, tab, non-ASCII)
                // (through the typed document: a generic JSON value would not keep the 128-bit numbers)
                let doc = match serde_json::from_slice::<ObservableState>(&self.doc) {
                    Ok(mut st) => {
                        st.program.version = "1.0\n\"beta\"".into();
                        st.program.build_commit = "a\\b\tc\u{e9}".into();
                        st.program.build_commit_date = "2024-01-01\n".into();
                        serde_json::to_vec(&st).unwrap_or_else(|_| self.doc.clone())
                    }
                    Err(_) => self.doc.clone(),
                };
                rig.obs.push(ObsBehaviour::Serve(doc));
            }
            "invalid" => rig.obs.push(ObsBehaviour::Serve(b"{\"program\": 12, \"instance\": []}".to_vec())),
            "truncated" => rig.obs.push(ObsBehaviour::Serve(self.doc[..self.doc.len() / 2].to_vec())),
            "closeearly" => rig.obs.push(ObsBehaviour::CloseEarly),
            "absent" => {
                // no socket file: take it away for the duration of this connection (connect fails with ENOENT)
                let p = rig.obs.path.clone();
                let _ = std::fs::rename(&p, p.with_extension("away"));
            }
            "refused" => {
                // a socket file nobody listens on, as a stopped daemon leaves behind (connect fails with ECONNREFUSED)
                let p = rig.obs.path.clone();
                let _ = std::fs::rename(&p, p.with_extension("away"));
                if let Ok(l) = std::os::unix::net::UnixListener::bind(&p) {
                    drop(l);
                }
            }
            _ => return false,
        }
        true
    }

    fn restore_obs(&mut self, obs: &str) {
        if obs == "refused" || obs == "absent" {
            let rig = self.rig.as_mut().unwrap();
            let p = rig.obs.path.clone();
            if obs == "refused" {
                let _ = std::fs::remove_file(&p);
            }
            let _ = std::fs::rename(p.with_extension("away"), &p);
        }
    }

    /// alive / exited, and whether it spins while nobody talks to it
    fn health(&mut self) -> String {
        let rig = self.rig.as_mut().unwrap();
        // give an exit a moment to happen
        let t0 = Instant::now();
        while t0.elapsed() < Duration::from_millis(60) {
            if let Some(c) = rig.exp.exited() {
                return format!("exited:{c}");
            }
            std::thread::sleep(Duration::from_millis(5));
        }
        let c0 = rig.exp.cpu_ticks();
        std::thread::sleep(Duration::from_millis(250));
        let c1 = rig.exp.cpu_ticks();
        if let Some(c) = rig.exp.exited() {
            return format!("exited:{c}");
        }
        // 100 ticks per second: an idle process uses none, a spinning one about 25 in 250 ms
        if c1 - c0 >= 10 {
            "alive spin".into()
        } else {
            "alive".into()
        }
    }

    pub fn exec(&mut self, line: &str, workdir: &Path) -> String {
        let w: Vec<&str> = line.split_whitespace().filter(|t| !t.starts_with('#')).collect();
        if w.len() < 2 || w[0] != "EXP" {
            return "bad-op".into();
        }
        match w[1] {
            "new" => {
                if let Some(r) = self.rig.take() {
                    r.stop();
                }
                self.n += 1;
                self.rig = Some(Rig::start(workdir, &format!("w{}", self.n)));
                "ok".into()
            }
            "final" => {
                if self.rig.is_none() {
                    return "dead".into();
                }
                self.set_obs("valid");
                let port = self.rig.as_ref().unwrap().exp.port;
                let r = http::get(port, DEADLINE);
                format!("{} {}", classify(&r), self.health())
            }
            "c" if w.len() == 4 => {
                if self.rig.is_none() {
                    return "dead".into();
                }
                if !self.set_obs(w[3]) {
                    return "bad-op".into();
                }
                let port = self.rig.as_ref().unwrap().exp.port;
                let (kind, arg) = w[2].split_once(':').unwrap_or((w[2], ""));
                let n: usize = arg.parse().unwrap_or(0);
                let seen = match http::connect(port) {
                    None => "refused".to_string(),
                    Some(mut s) => match kind {
                        "get" => {
                            let _ = s.write_all(GET);
                            classify(&http::read_all(&mut s, DEADLINE))
                        }
                        "split" => {
                            let n = n.clamp(1, GET.len() - 1);
                            let _ = s.write_all(&GET[..n]);
                            let _ = s.flush();
                            std::thread::sleep(Duration::from_millis(40));
                            let _ = s.write_all(&GET[n..]);
                            classify(&http::read_all(&mut s, DEADLINE))
                        }
                        "cut" => {
                            let n = n.min(GET.len() - 1);
                            let _ = s.write_all(&GET[..n]);
                            let _ = s.flush();
                            std::thread::sleep(Duration::from_millis(20));
                            drop(s);
                            "-".into()
                        }
                        "long" => {
                            let mut big = b"GET /".to_vec();
                            big.resize(n.max(6), b'a');
                            let _ = s.write_all(&big);
                            let _ = s.flush();
                            // the server cannot serve this; a client waits for its verdict, then leaves
                            let r = http::read_all(&mut s, Duration::from_millis(400));
                            drop(s);
                            match r {
                                Reply::Timeout(_) => "-".into(),
                                other => classify(&other),
                            }
                        }
                        "verb" => {
                            let req = format!("{arg} /metrics HTTP/1.1\r\nHost: localhost\r\n\r\n");
                            let _ = s.write_all(req.as_bytes());
                            classify(&http::read_all(&mut s, DEADLINE))
                        }
                        "verbx" => {
                            // verbx:<VERB>:<utf8|bin|ascii>:<n>
                            let parts: Vec<&str> = arg.split(':').collect();
                            let pat: &[u8] = match parts.get(1).copied() {
                                Some("utf8") => &[0xc3, 0xa9],
                                Some("bin") => &[0x80, 0xff],
                                _ => b"ab",
                            };
                            let reps: usize = parts.get(2).and_then(|x| x.parse().ok()).unwrap_or(0);
                            let mut req = format!("{} /", parts.first().copied().unwrap_or("PUT")).into_bytes();
                            for _ in 0..reps {
                                req.extend_from_slice(pat);
                            }
                            req.extend_from_slice(b" HTTP/1.1\r\nHost: localhost\r\n\r\n");
                            let _ = s.write_all(&req);
                            classify(&http::read_all(&mut s, DEADLINE))
                        }
                        "reset" => {
                            let n = n.min(GET.len() - 1);
                            let _ = s.write_all(&GET[..n]);
                            let _ = s.flush();
                            std::thread::sleep(Duration::from_millis(20));
                            reset(s);
                            "-".into()
                        }
                        "getreset" => {
                            let _ = s.write_all(GET);
                            let _ = s.flush();
                            reset(s);
                            "-".into()
                        }
                        "idle" => {
                            std::thread::sleep(Duration::from_millis(30));
                            drop(s);
                            "-".into()
                        }
                        _ => return "bad-op".into(),
                    },
                };
                // let the exporter finish with this connection before the observation socket is touched again
                std::thread::sleep(Duration::from_millis(30));
                self.restore_obs(w[3]);
                let h = {
                    let rig = self.rig.as_mut().unwrap();
                    match rig.exp.exited() {
                        Some(c) => format!("exited:{c}"),
                        None => "alive".to_string(),
                    }
                };
                format!("{seen} {h}")
            }
            _ => "bad-op".into(),
        }
    }

    pub fn stop(&mut self) {
        if let Some(r) = self.rig.take() {
            r.stop();
        }
    }
}

pub fn random_client(rng: &Prng) -> String {
    match rng.below(12) {
        0 | 1 => "get".into(),
        2 | 11 => {
            // every offset, with the ones around the end of the headers and the verb favoured
            let l = GET.len() as u64;
            let n = match rng.below(3) {
                0 => *rng.pick(&[1, 3, 4, 5, l - 5, l - 4, l - 3, l - 2, l - 1]),
                _ => 1 + rng.below(l - 1),
            };
            format!("split:{n}")
        }
        3 | 4 => format!("cut:{}", *rng.pick(&[0u64, 1, 3, 4, 20, GET.len() as u64 - 1, GET.len() as u64 - 2])),
        5 => format!("long:{}", *rng.pick(&[2047u64, 2048, 2049, 4096, 100, 10000])),
        6 => {
            if rng.chance(1, 2) {
                format!("verb:{}", *rng.pick(&["POST", "HEAD", "PUT", "get", "GETX", "OPTIONS"]))
            } else {
                // a request line that is long and not ASCII (accented or binary path)
                format!("verbx:{}:{}:{}", *rng.pick(&["PUT", "POST", "DELETE"]), *rng.pick(&["utf8", "bin", "ascii", "utf8", "bin"]), *rng.pick(&[1u32, 29, 30, 31, 32, 60, 61, 200, 900]))
            }
        }
        7 | 8 => format!("reset:{}", *rng.pick(&[0u64, 4, 20, GET.len() as u64 - 1])),
        9 => "getreset".into(),
        10 => "idle".into(),
        _ => "get".into(),
    }
}

pub fn random_obs(rng: &Prng) -> &'static str {
    *rng.pick(&["valid", "valid", "validesc", "invalid", "truncated", "closeearly", "refused", "absent"])
}

pub fn generate(out: &mut Out, rng: &Prng, thorough: bool, workdir: &Path) {
    let scenarios = if thorough { 400 } else { 40 };
    let st = random_state(rng);
    let parsed: ObservableState = serde_json::from_str(&st.json()).expect("state");
    let mut ex = WedgeExec::new(serde_json::to_vec(&parsed).unwrap());
    for sc in 0..scenarios {
        let mut emit = |ex: &mut WedgeExec, out: &mut Out, line: String| -> String {
            let o = ex.exec(&line, workdir);
            // oracle, on the implementation alone
            if o.contains("exited") {
                out.oracle("C20", "exporter-exits", &format!("{line} -> {o}"));
            }
            if o.contains("spin") {
                out.oracle("C20", "exporter-spins", &format!("{line} -> {o}"));
            }
            if line == "EXP final" && !o.starts_with("200 ") {
                out.oracle("C20", "later-request-not-answered", &format!("{line} -> {o}"));
            }
            let wellformed = line.strip_prefix("EXP c get ").or_else(|| line.strip_prefix("EXP c split:").and_then(|r| r.split_once(' ').map(|x| x.1)));
            if let Some(rest) = wellformed {
                // a well-formed request (in one piece or two) is answered: with the data, or with an error status when there is none
                let want = if rest == "valid" || rest == "validesc" { "200" } else { "500" };
                if !o.starts_with(want) && !o.contains("exited") {
                    out.oracle("C20", &format!("well-formed-request-gets-{}", o.split(' ').next().unwrap_or("")), &format!("{line} -> {o} (expected {want})"));
                }
            }
            out.op(&line, &o);
            o
        };
        emit(&mut ex, out, "EXP new".into());
        let k = 1 + rng.below(4);
        let mut dead = false;
        if sc % 4 == 1 {
            // a non-GET request with a long accented or binary request line, then the usual mix
            let line = format!("EXP c verbx:{}:{}:{} {}", *rng.pick(&["PUT", "POST", "PATCH"]), *rng.pick(&["utf8", "bin"]), *rng.pick(&[30u32, 31, 60, 200]), random_obs(rng));
            let o = emit(&mut ex, out, line);
            dead = o.contains("exited");
        }
        for _ in 0..k {
            if dead {
                break;
            }
            let line = format!("EXP c {} {}", random_client(rng), random_obs(rng));
            let o = emit(&mut ex, out, line);
            if o.contains("exited") {
                dead = true;
                break;
            }
        }
        if !dead {
            emit(&mut ex, out, "EXP final".into());
        }
    }
    ex.stop();
}

pub fn replay(path: &Path, workdir: &Path) {
    let rng = Prng::new(1);
    let st = random_state(&rng);
    let parsed: ObservableState = serde_json::from_str(&st.json()).expect("state");
    let mut ex = WedgeExec::new(serde_json::to_vec(&parsed).unwrap());
    for line in std::fs::read_to_string(path).unwrap().lines() {
        if line.starts_with('#') || line.trim().is_empty() {
            continue;
        }
        println!("{}", ex.exec(line, workdir));
    }
    ex.stop();
}
