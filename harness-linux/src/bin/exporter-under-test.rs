//! The metrics exporter exactly as `statime-linux/bin/statime-metrics-exporter.rs` builds it
//! (the translator checks that file still reads like this one).
#[tokio::main]
async fn main() -> Result<(), Box<dyn std::error::Error>> {
    statime_linux::metrics_exporter_main().await
}
