//! drive-linux <stream> --seed N --tier quick|thorough --out DIR
use std::path::PathBuf;

use statime_verif_harness::{out::Out, prng::Prng};
use statime_verif_harness_linux::{clockx, fwdq, metrics, wedge};

fn main() {
    let args: Vec<String> = std::env::args().collect();
    if args.len() >= 4 && args[1] == "replay" {
        let work = PathBuf::from("/dev/shm");
        match args[2].as_str() {
            "metrics" => metrics::replay(&PathBuf::from(&args[3]), &work),
            "exporter" => wedge::replay(&PathBuf::from(&args[3]), &work),
            "forwarder" => fwdq::replay(&PathBuf::from(&args[3])),
            _ => panic!("unknown stream"),
        }
        return;
    }
    let stream = args.get(1).expect("stream").clone();
    let mut seed = 1u64;
    let mut tier = "quick".to_string();
    let mut dir = PathBuf::from("/verif/work");
    let mut i = 2;
    while i < args.len() {
        match args[i].as_str() {
            "--seed" => {
                seed = args[i + 1].parse().unwrap();
                i += 2
            }
            "--tier" => {
                tier = args[i + 1].clone();
                i += 2
            }
            "--out" => {
                dir = PathBuf::from(&args[i + 1]);
                i += 2
            }
            _ => panic!("bad arg {}", args[i]),
        }
    }
    std::fs::create_dir_all(&dir).unwrap();
    let thorough = tier == "thorough";
    let rng = Prng::new(seed);
    let mut out = Out::new(&dir, &stream);
    match stream.as_str() {
        "metrics" => metrics::generate(&mut out, &rng, thorough, &dir),
        "exporter" => wedge::generate(&mut out, &rng, thorough, &dir),
        "forwarder" => fwdq::generate(&mut out, &rng, thorough),
        "sysclock" => clockx::generate(&mut out, &rng, thorough),
        _ => panic!("unknown stream {stream}"),
    }
    out.finish();
}
