//! Harness for the Linux daemon side (metrics exporter): drives the real exporter process.
pub mod clockx;
pub mod fwdq;
pub mod http;
pub mod liveobs;
pub mod metrics;
pub mod mstate;
pub mod procs;
pub mod wedge;
